/-
Invariants of M-Precond used by C13 (who holds second-order data; which groups carry traffic).
The definitions of the C13 statements live here (moved verbatim from Props/C13.lean); the machinery
is in Lemmas/HoldingsReach.lean (primitive moves and their invariants), Lemmas/HoldingsWalk.lean
(every operation is a sequence of primitive moves) and Lemmas/HoldingsEst.lean (the first step
makes every gradient worker hold second-order data).  Core Lean only.
-/
import KfacVerif.Lemmas.HoldingsEst

namespace KV.C13
open KV KV.Precond

/-- histories of the statement: construction followed by training passes, steps, eval passes,
    reset_batch, memory queries, state_dict and scheduler changes (no checkpoint load: loading
    recomputes second-order data on every rank, which is outside C13) -/
def noLoad : List Op → Prop
  | [] => True
  | .saveLoad _ _ :: _ => False
  | _ :: t => noLoad t

def hasStep : List Op → Bool
  | [] => false
  | .step :: _ => true
  | _ :: t => hasStep t

structure AsgOK (c : Cfg) : Prop where
  workers_lt : ∀ l r, r ∈ c.asg.workers l → r < c.world
  invA_mem : ∀ l, c.asg.invA l ∈ c.asg.workers l
  invG_mem : ∀ l, c.asg.invG l ∈ c.asg.workers l
  /-- without inverse broadcasts (MEM-OPT) the inverse worker is the only gradient worker -/
  nobi_single : c.asg.bcastInv = false → ∀ l, c.asg.workers l = [c.asg.invA l] ∧ c.asg.invG l = c.asg.invA l

/-- the three kinds of traffic -/
def isFactorTraffic (c : Cfg) (m : List Nat) (d : Desc) : Prop :=
  d.kind = .allreduce ∧ m = worldRanks c ∧ d.esize = c.fe
def isInverseTraffic (c : Cfg) (m : List Nat) (d : Desc) : Prop :=
  d.kind = .broadcast ∧ d.esize = c.ie ∧ ∃ l, m = c.asg.workers l ∧ (d.root = c.asg.invA l ∨ d.root = c.asg.invG l)
def isGradTraffic (c : Cfg) (m : List Nat) (d : Desc) : Prop :=
  d.kind = .broadcast ∧ d.esize = c.ge ∧ ∃ r0 l, m = c.asg.recv r0 ∧ d.root = c.asg.src r0 l ∧
    d.elems = (c.layers.getD l ⟨0, 0⟩).gDim * (c.layers.getD l ⟨0, 0⟩).aDim

/-! ### bridges -/

theorem AsgOK.toH {c : Cfg} (hc : AsgOK c) : HR.AsgH c :=
  ⟨hc.workers_lt, hc.invA_mem, hc.invG_mem, hc.nobi_single⟩

theorem noLoad_isLoad : ∀ {ops : List Op}, noLoad ops → ∀ op ∈ ops, HR.isLoad op = false
  | [], _, op, ho => by cases ho
  | o :: t, h, op, ho => by
    have ht : HR.isLoad o = false ∧ noLoad t := by
      cases o <;> simp only [noLoad] at h <;> first | exact ⟨rfl, h⟩ | exact h.elim
    rcases List.mem_cons.mp ho with rfl | ho
    · exact ht.1
    · exact noLoad_isLoad ht.2 op ho

theorem hasStep_isStep : ∀ {ops : List Op}, hasStep ops = true → ∃ op ∈ ops, HR.isStep op = true
  | [], h => by cases h
  | o :: t, h => by
    cases o with
    | step => exact ⟨.step, by simp, rfl⟩
    | fwdBwd b => obtain ⟨op, ho, hs⟩ := hasStep_isStep (ops := t) h; exact ⟨op, by simp [ho], hs⟩
    | resetBatch => obtain ⟨op, ho, hs⟩ := hasStep_isStep (ops := t) h; exact ⟨op, by simp [ho], hs⟩
    | memUsage => obtain ⟨op, ho, hs⟩ := hasStep_isStep (ops := t) h; exact ⟨op, by simp [ho], hs⟩
    | save f => obtain ⟨op, ho, hs⟩ := hasStep_isStep (ops := t) h; exact ⟨op, by simp [ho], hs⟩
    | saveLoad f ci => obtain ⟨op, ho, hs⟩ := hasStep_isStep (ops := t) h; exact ⟨op, by simp [ho], hs⟩
    | setHyper hy => obtain ⟨op, ho, hs⟩ := hasStep_isStep (ops := t) h; exact ⟨op, by simp [ho], hs⟩

/-! ### who holds second-order data -/

theorem only_workers (c : Cfg) (hc : AsgOK c) (h : Hyper) (ops : List Op) (hn : noLoad ops)
    (r l : Nat) (hh : holdsSecondOrder c (run c (St.init c h) ops) r l = true) :
    r ∈ c.asg.workers l := by
  have rr := HR.R.run_noload hc.toH.invMem (St.init c h) ops (noLoad_isLoad hn)
  have h0 : HR.NW c (St.init c h) := by
    intro r' l' _
    rw [HR.getL_init]
    exact HR.soNone_empty
  have hfin : HR.NW c (run c (St.init c h) ops) := rr.inv _ (fun _ _ p => p.nw) h0
  apply Classical.byContradiction
  intro hr
  obtain ⟨a1, a2, a3, a4, a5, a6, a7⟩ := hfin r l hr
  unfold holdsSecondOrder at hh
  cases hm : c.method <;> simp [hm, a1, a2, a3, a4, a5, a6, a7] at hh

theorem workers_hold (c : Cfg) (hc : AsgOK c) (h : Hyper) (ops : List Op) (hn : noLoad ops)
    (hs : hasStep ops = true) (hne : (run c (St.init c h) ops).err = none)
    (r l : Nat) (hl : l < c.layers.length) (hr : r ∈ c.asg.workers l) :
    holdsSecondOrder c (run c (St.init c h) ops) r l = true := by
  have := HR.est_run hc.toH hl r hr ops (St.init c h) (HR.Shape.init c h) rfl (noLoad_isLoad hn)
    (hasStep_isStep hs) hne
  unfold HR.hq at this
  unfold holdsSecondOrder
  cases hm : c.method <;> simp [hm] at this ⊢ <;> simp [this]

/-! ### traffic -/

theorem mem_acts {s : St} {a : GAct} : a ∈ s.acts ↔ a ∈ s.script := by simp [St.acts]

/-- every issue of any history comes from one of the four issuing sites; when no bucket can be
    open (un-bucketed, or a world of one) the flush site is never reached with a non-empty bucket -/
theorem issue_sites (c : Cfg) (h : Hyper) (ops : List Op) (Q : List Nat → Desc → Prop)
    (hQ : ∀ b m d, HR.IssueOK c b m d → (HR.NB c → b = []) → Q m d)
    (m : List Nat) (d : Desc) (hm : GAct.issue m d ∈ (run c (St.init c h) ops).acts) : Q m d := by
  have h0 : HR.BInv c Q (St.init c h) := ⟨fun _ => rfl, fun m d hm => by simp [St.init] at hm⟩
  exact ((HR.R.run_any (St.init c h) ops).binv hQ h0).2 m d (mem_acts.mp hm)

theorem classified (c : Cfg) (h : Hyper) (ops : List Op) (m : List Nat) (d : Desc)
    (hm : GAct.issue m d ∈ (run c (St.init c h) ops).acts) :
    isFactorTraffic c m d ∨ isInverseTraffic c m d ∨ isGradTraffic c m d := by
  refine issue_sites c h ops
    (fun m d => isFactorTraffic c m d ∨ isInverseTraffic c m d ∨ isGradTraffic c m d) ?_ m d hm
  intro b m d hi _
  cases hi with
  | flush _ => exact Or.inl ⟨rfl, rfl, rfl⟩
  | red l isA _ _ _ => exact Or.inl ⟨rfl, rfl, rfl⟩
  | inv l src elems _ _ hsrc => exact Or.inr (Or.inl ⟨rfl, rfl, l, rfl, hsrc⟩)
  | grad r0 l _ _ _ => exact Or.inr (Or.inr ⟨rfl, rfl, r0, l, rfl, rfl, rfl⟩)

theorem no_inverse (c : Cfg) (hb : c.asg.bcastInv = false) (h : Hyper) (ops : List Op)
    (m : List Nat) (d : Desc) (hm : GAct.issue m d ∈ (run c (St.init c h) ops).acts) :
    isFactorTraffic c m d ∨ isGradTraffic c m d := by
  refine issue_sites c h ops (fun m d => isFactorTraffic c m d ∨ isGradTraffic c m d) ?_ m d hm
  intro b m d hi _
  cases hi with
  | flush _ => exact Or.inl ⟨rfl, rfl, rfl⟩
  | red l isA _ _ _ => exact Or.inl ⟨rfl, rfl, rfl⟩
  | inv l src elems hb' _ _ => rw [hb] at hb'; cases hb'
  | grad r0 l _ _ _ => exact Or.inr ⟨rfl, rfl, r0, l, rfl, rfl, rfl⟩

theorem no_gradient (c : Cfg) (hb : c.asg.bcastGrad = false) (h : Hyper) (ops : List Op)
    (m : List Nat) (d : Desc) (hm : GAct.issue m d ∈ (run c (St.init c h) ops).acts) :
    isFactorTraffic c m d ∨ isInverseTraffic c m d := by
  refine issue_sites c h ops (fun m d => isFactorTraffic c m d ∨ isInverseTraffic c m d) ?_ m d hm
  intro b m d hi _
  cases hi with
  | flush _ => exact Or.inl ⟨rfl, rfl, rfl⟩
  | red l isA _ _ _ => exact Or.inl ⟨rfl, rfl, rfl⟩
  | inv l src elems _ _ hsrc => exact Or.inr ⟨rfl, rfl, l, rfl, hsrc⟩
  | grad r0 l hb' _ _ => rw [hb] at hb'; cases hb'

theorem allreduce_elems (c : Cfg) (hu : c.bucketed = false) (h : Hyper) (ops : List Op)
    (m : List Nat) (d : Desc) (hm : GAct.issue m d ∈ (run c (St.init c h) ops).acts)
    (hk : d.kind = .allreduce) :
    ∃ l, l < c.layers.length ∧
      (d.elems = triElems (c.layers.getD l ⟨0, 0⟩).aDim c.symAware ∨
       d.elems = triElems (c.layers.getD l ⟨0, 0⟩).gDim c.symAware) := by
  refine issue_sites c h ops (fun m d => d.kind = .allreduce → ∃ l, l < c.layers.length ∧
      (d.elems = triElems (c.layers.getD l ⟨0, 0⟩).aDim c.symAware ∨
       d.elems = triElems (c.layers.getD l ⟨0, 0⟩).gDim c.symAware)) ?_ m d hm hk
  intro b m d hi hb
  cases hi with
  | flush hne => exact absurd (hb (Or.inl hu)) hne
  | red l isA _ _ hl =>
    intro _
    cases isA
    · exact ⟨l, hl, Or.inr rfl⟩
    · exact ⟨l, hl, Or.inl rfl⟩
  | inv l src elems _ _ _ => intro hk; cases hk
  | grad r0 l _ _ _ => intro hk; cases hk

/-- `world_one_silent` with the hypothesis on the gradient-worker groups strengthened from
    `length ≤ 1` to `length = 1` (an EMPTY group does issue a broadcast: `bcastField` only skips
    groups of exactly one member) -/
theorem world_one_silent' (c : Cfg) (hw : c.world = 1) (hwk : ∀ l, (c.asg.workers l).length = 1)
    (hrv : ∀ r, (c.asg.recv r).length ≤ 1) (h : Hyper) (ops : List Op) :
    ∀ a ∈ (run c (St.init c h) ops).acts, ∀ m d, a ≠ GAct.issue m d := by
  intro a ha m d e
  subst e
  refine issue_sites c h ops (fun _ _ => False) ?_ m d ha
  intro b m d hi hb
  cases hi with
  | flush hne => exact absurd (hb (Or.inr hw)) hne
  | red l isA _ hw' _ => exact hw' hw
  | inv l src elems _ hlen _ => exact hlen (hwk l)
  | grad r0 l _ hlen hhead =>
    have h1 := hrv r0
    cases hrc : c.asg.recv r0 with
    | nil => rw [hrc] at hhead; cases hhead
    | cons x t => rw [hrc] at hlen h1; simp only [List.length_cons] at hlen h1; omega

/-! ### sizes -/

theorem tri (n : Nat) : triElems n true = n * (n + 1) / 2 ∧ triElems n false = n * n := ⟨rfl, rfl⟩

theorem mem_total' (c : Cfg) (s : St) (r : Nat) :
    ((memBytes c s r).find? (·.1 == "total")).map (·.2) =
      some ((((memBytes c s r).filter (·.1 != "total")).map (·.2)).sum) := by
  unfold memBytes
  simp [List.find?, List.filter]
  omega

end KV.C13
