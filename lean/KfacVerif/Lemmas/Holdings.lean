/-
Invariants of M-Precond used by C13 (who holds second-order data; which groups carry traffic).
(Single Mathlib modules may be imported; never `import Mathlib`.)
-/
import KfacVerif.Lemmas.SchedBase

