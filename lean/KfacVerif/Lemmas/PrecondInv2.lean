/-
Invariants of the M-Precond state machine, part 2: `Good` is preserved by every operation
(any history).  Core Lean only.
-/
import KfacVerif.Lemmas.PrecondInv1

namespace KV.PI
open KV KV.Precond
open KV.Sched2 (eventsOf wfAux wf Events)

/-- the facts about the assignment that the script check needs (`KV.C03.CfgOK` minus `accum_pos`) -/
structure AsgOK (c : Cfg) : Prop where
  workers_lt : ∀ l r, r ∈ c.asg.workers l → r < c.world
  invA_mem : ∀ l, c.asg.invA l ∈ c.asg.workers l
  invG_mem : ∀ l, c.asg.invG l ∈ c.asg.workers l
  recv_lt : ∀ r r', r' ∈ c.asg.recv r → r' < c.world
  src_recv : ∀ r l, r < c.world → c.asg.src r l ∈ c.asg.recv r

theorem AsgOK.world_pos {c} (ha : AsgOK c) : 0 < c.world :=
  Nat.lt_of_le_of_lt (Nat.zero_le _) (ha.workers_lt 0 _ (ha.invA_mem 0))

theorem two_le_length_of_mem {α} {m : List α} {a : α} (ha : a ∈ m) (h1 : ¬ (m.length == 1) = true) :
    2 ≤ m.length := by
  have h0 : m.length ≠ 0 := by
    intro h0; rw [List.length_eq_zero_iff.mp h0] at ha; simp at ha
  have : m.length ≠ 1 := by simpa using h1
  omega

/-! ### reading relative to a fixed event list `E` -/

theorem Good.lokE {st c s E} (h : Good st c μ s) (hE : evs s = E) (r l : Nat) : LOK st E r (getL s r l) :=
  hE ▸ h.lok r l

theorem Good.setLE {st c s E} (h : Good st c μ s) (hE : evs s = E) {r l : Nat} {x : LState}
    (hx : LOK st E r x) : Good st c μ (Precond.setL s r l x) ∧ evs (Precond.setL s r l x) = E :=
  ⟨h.setL (hE ▸ hx), hE⟩

theorem Good.failE {st c s E} (h : Good st c μ s) (hE : evs s = E) (r : Nat) (w : String) :
    Good st c μ (Precond.fail s r w) ∧ evs (Precond.fail s r w) = E := by
  refine ⟨h.fail r w, ?_⟩
  unfold Precond.fail
  split <;> exact hE

theorem readE {st c s E r sl s1 f} (h : Good st c μ s) (hE : evs s = E) (hsl : SlotOK st E r sl)
    (e : readSlot s r sl = (s1, f)) : Good st c μ s1 ∧ evs s1 = E ∧ SlotOK st E r f := by
  subst hE
  obtain ⟨h1, hf, he, -, -⟩ := readSlot_spec h hsl e
  exact ⟨h1, he, he ▸ hf⟩

/-- conditional getter reads (definitionally the `if` expressions of the model) -/
def readIf (b : Bool) (s : St) (r : Nat) (sl : Option Slot) : St × Option Slot :=
  if b then readSlot s r sl else (s, sl)

def readUnless (b : Bool) (s : St) (r : Nat) (sl : Option Slot) : St × Option Slot :=
  if b then (s, sl) else readSlot s r sl

theorem readIfE {st c s E r sl s1 f} {b : Bool} (h : Good st c μ s) (hE : evs s = E)
    (hsl : SlotOK st E r sl) (e : readIf b s r sl = (s1, f)) :
    Good st c μ s1 ∧ evs s1 = E ∧ SlotOK st E r f := by
  unfold readIf at e
  split at e
  · exact readE h hE hsl e
  · simp only [Prod.mk.injEq] at e
    obtain ⟨rfl, rfl⟩ := e
    exact ⟨h, hE, hsl⟩

theorem readUnlessE {st c s E r sl s1 f} {b : Bool} (h : Good st c μ s) (hE : evs s = E)
    (hsl : SlotOK st E r sl) (e : readUnless b s r sl = (s1, f)) :
    Good st c μ s1 ∧ evs s1 = E ∧ SlotOK st E r f := by
  unfold readUnless at e
  split at e
  · simp only [Prod.mk.injEq] at e
    obtain ⟨rfl, rfl⟩ := e
    exact ⟨h, hE, hsl⟩
  · exact readE h hE hsl e

/-- `rd h hE hsl => s1 f h1 hE1 hf`: split the outermost `match readSlot .. with | (s1, f) => ..`
    of the goal and apply `readE` -/
syntax "rd " ident term:max term:max " => " ident ident ident ident ident : tactic
macro_rules
  | `(tactic| rd $h $hE $hsl => $s1 $f $h1 $hE1 $hf) => `(tactic|
      (try extract_lets
       split
       rename_i _ $s1:ident $f:ident heq__
       obtain ⟨$h1:ident, $hE1:ident, $hf:ident⟩ := readE $h $hE $hsl heq__
       try extract_lets))

/-- variant of `rd` for goals in projection form (after `simp only`) -/
syntax "rdp " ident term:max term:max " => " ident ident ident ident ident : tactic
macro_rules
  | `(tactic| rdp $h $hE $hsl => $s1 $f $h1 $hE1 $hf) => `(tactic|
      (generalize hrs__ : readSlot _ _ _ = p__
       obtain ⟨$s1:ident, $f:ident⟩ := p__
       obtain ⟨$h1:ident, $hE1:ident, $hf:ident⟩ := readE $h $hE $hsl hrs__
       simp only []))

/-- the same for `match readIf b s r sl with | (s1, f) => ..` -/
syntax "rdif " ident term:max term:max " => " ident ident ident ident ident : tactic
macro_rules
  | `(tactic| rdif $h $hE $hsl => $s1 $f $h1 $hE1 $hf) => `(tactic|
      (try extract_lets
       split
       rename_i _ $s1:ident $f:ident heq__
       obtain ⟨$h1:ident, $hE1:ident, $hf:ident⟩ := readIfE $h $hE $hsl heq__
       try extract_lets))

/-- the same for `match readUnless b s r sl with | (s1, f) => ..` -/
syntax "rdun " ident term:max term:max " => " ident ident ident ident ident : tactic
macro_rules
  | `(tactic| rdun $h $hE $hsl => $s1 $f $h1 $hE1 $hf) => `(tactic|
      (try extract_lets
       split
       rename_i _ $s1:ident $f:ident heq__
       obtain ⟨$h1:ident, $hE1:ident, $hf:ident⟩ := readUnlessE $h $hE $hsl heq__
       try extract_lets))

/-- beta-reduce the goal, keeping `let`s and `match`es -/
macro "beta_goal" : tactic => `(tactic| try dsimp -zeta -iota only)

/-! ### factor bookkeeping -/

theorem Good.saveBatch {st c s} (h : Good st c μ s) (r l : Nat) (isA : Bool) :
    Good st c μ (saveBatch s r l isA) := by
  unfold Precond.saveBatch
  have hl := h.lok r l
  simp only []
  apply h.setL
  split
  · split <;> lok_from hl
  · split <;> lok_from hl

theorem Good.updateFactor {st c s} (h : Good st c μ s) (r l : Nat) (isA : Bool) (α : Rat) :
    Good st c μ (updateFactor s r l isA α) := by
  unfold Precond.updateFactor
  cases isA
  · simp only [Bool.false_eq_true, if_false]
    split
    · exact h
    · rdp h rfl (h.lok r l).gFactor => s1 f h1 hE1 hf
      have hl := h1.lokE hE1 r l
      refine (h1.setLE hE1 ?_).1
      lok_from hl
      rcases f with _ | ⟨fv, _ | id | q⟩ <;> first | trivial | exact hf
  · simp only [if_true]
    split
    · exact h
    · rdp h rfl (h.lok r l).aFactor => s1 f h1 hE1 hf
      have hl := h1.lokE hE1 r l
      refine (h1.setLE hE1 ?_).1
      lok_from hl
      rcases f with _ | ⟨fv, _ | id | q⟩ <;> first | trivial | exact hf

/-! ### buckets and reductions -/

theorem getD_map_map (rk : List (List LState)) (G : LState → LState) (hG : G {} = {}) (r l : Nat) :
    ((rk.map fun ls => ls.map G).getD r []).getD l {} = G ((rk.getD r []).getD l {}) := by
  simp only [List.getD, List.getElem?_map]
  cases rk[r]? with
  | none => simp [hG]
  | some ls =>
    simp only [Option.map_some, Option.getD_some, List.getElem?_map]
    cases ls[l]? with
    | none => simp [hG]
    | some x => simp

theorem getL_oob (s : St) (r l : Nat) (h : s.ranks.length ≤ r) : getL s r l = {} := by
  simp [getL, List.getD, List.getElem?_eq_none h]

theorem mem_worldRanks {c : Cfg} {r : Nat} : r ∈ worldRanks c ↔ r < c.world := by
  simp [worldRanks]

/-- the slot rewrite of `flushBucket` -/
def flushFix (b : List BItem) (id : Nat) (sl : Option Slot) : Option Slot := sl.map fun x =>
  match x.pend with
  | .queued q => if b.any (·.req == q) then { x with pend := .issued id } else x
  | _ => x

theorem flushBucket_eq (c : Cfg) (s : St) : flushBucket c s =
    if s.bucket.isEmpty then s else
    { (issue s (worldRanks c) { kind := .allreduce, elems := (s.bucket.map (·.elems)).sum,
                                esize := c.fe, root := 0 }).1 with
      bucket := [],
      ranks := s.ranks.map fun ls => ls.map fun x =>
        { x with aFactor := flushFix s.bucket s.nIssued x.aFactor,
                 gFactor := flushFix s.bucket s.nIssued x.gFactor } } := rfl

theorem flushFix_ok {ev : Events} {r : Nat} (b : List BItem) (id : Nat) (o : Option Slot)
    (ho : SlotOK false ev r o) (hid : id < ev.length) (hr : r ∈ ev.getD id []) :
    SlotOK false ev r (flushFix b id o) := by
  match o, ho with
  | .none, _ => trivial
  | some ⟨v, .ready⟩, _ => trivial
  | some ⟨v, .issued i⟩, ho => exact ho
  | some ⟨v, .queued q⟩, _ =>
    simp only [flushFix, Option.map_some]
    split
    · exact ⟨hid, hr⟩
    · rfl

theorem Good.flushBucket {c s} (h : Good false c μ s) : Good false c μ (flushBucket c s) := by
  rw [flushBucket_eq]
  split
  · exact h
  · rename_i hne
    have hne' : s.bucket ≠ [] := by simpa using hne
    have h2 := h.bkt hne'
    generalize hiss : issue _ _ _ = p
    obtain ⟨s1, id⟩ := p
    obtain ⟨h1, he, hid, hrk, -⟩ := issue_spec h (m := worldRanks c) (fun x hx => mem_worldRanks.mp hx)
      (by simpa [worldRanks] using h2) (by intro hk; simp at hk) hiss
    have hid' : id = s.nIssued := by
      unfold issue at hiss; simp only [Prod.mk.injEq] at hiss; exact hiss.2.symm
    have hscr : ∀ x : St, x.script = s1.script → evs x = evs s1 := by
      intro x hx; simp [evs, St.acts, hx]
    refine ⟨h1.nIss, h1.wfs, ?_, ?_, by simp, by simp, by simp, h1.mini⟩
    · intro r l
      show LOK false (evs s1) r (getL _ r l)
      simp only [getL]
      rw [getD_map_map _ _ rfl]
      have hl : LOK false (evs s1) r (getL s r l) := by
        have := h1.lok r l; simpa only [getL, hrk] using this
      by_cases hr : r < c.world
      · have hmem : r ∈ (evs s1).getD s.nIssued [] := by
          rw [he, ← hid', hid]
          simp [List.getD, mem_worldRanks.mpr hr]
        have hlt : s.nIssued < (evs s1).length := by rw [he, ← hid', hid]; simp
        refine ⟨flushFix_ok _ _ _ hl.aFactor hlt hmem, flushFix_ok _ _ _ hl.gFactor hlt hmem,
          hl.qa, hl.da, hl.qg, hl.dg, hl.dgda, hl.aInv, hl.gInv, hl.grad⟩
      · have : getL s r l = {} := getL_oob s r l (by rw [h.shape]; omega)
        simp only [getL] at this
        rw [this]
        exact LOK.empty
    · show (List.map _ s.ranks).length = c.world
      simp [h.shape]

theorem put_good {st c s} (h : Good st c μ s) (rs : List Nat) (l : Nat) (upd : LState → LState)
    (hupd : ∀ r, r ∈ rs → ∀ x, LOK st (evs s) r x → LOK st (evs s) r (upd x)) :
    Good st c μ (rs.foldl (fun s r => Precond.setL s r l (upd (getL s r l))) s) := by
  refine (foldl_inv (fun s' => Good st c μ s' ∧ evs s' = evs s) _ _ _ ⟨h, rfl⟩ ?_).1
  intro s' r hr ⟨hs', he'⟩
  exact hs'.setLE he' (hupd r hr _ (hs'.lokE he' r l))

theorem Good.addBucket {c s} (h : Good false c μ s) (hw2 : 2 ≤ c.world) (b : BItem) (n : Nat) :
    Good false c μ { s with bucket := s.bucket ++ [b], nextReq := n } :=
  ⟨h.nIss, h.wfs, h.lok, h.shape, fun _ => hw2, by simp, by simp, h.mini⟩

/-- the getter reads at the head of `reduceFactor` -/
theorem Good.reduceReads {st c s} (h : Good st c μ s) (l : Nat) (isA : Bool) :
    Good st c μ (forRanks c s fun s r =>
      let x := getL s r l
      let (s, f) := readSlot s r (if isA then x.aFactor else x.gFactor)
      Precond.setL s r l (if isA then { getL s r l with aFactor := f }
                          else { getL s r l with gFactor := f })) := by
  apply forRanks_inv (Good st c μ) c _ s h
  intro s r _ hs
  cases isA <;> simp only [Bool.false_eq_true, if_false, if_true]
  · rdp hs rfl (hs.lok r l).gFactor => s1 f h1 hE1 hf
    have hl := h1.lokE hE1 r l
    exact (h1.setLE hE1 (by lok_from hl)).1
  · rdp hs rfl (hs.lok r l).aFactor => s1 f h1 hE1 hf
    have hl := h1.lokE hE1 r l
    exact (h1.setLE hE1 (by lok_from hl)).1

theorem Good.reduceFactor {c s} (hw : 0 < c.world) (h : Good false c μ s) (l : Nat) (isA : Bool) :
    Good false c μ (reduceFactor c s l isA) := by
  cases isA
  all_goals
    unfold Precond.reduceFactor
    simp only [Bool.false_eq_true, if_false, if_true]
    split
    · exact h.fail _ _
    generalize hs' : forRanks c s _ = s'
    have h' : Good false c μ s' := by
      first
        | (rw [← hs']; exact h.reduceReads l false)
        | (rw [← hs']; exact h.reduceReads l true)
    split
    · exact h'
    rename_i hw1
    have hw2 : 2 ≤ c.world := by
      have : c.world ≠ 1 := by simpa using hw1
      omega
    split
    · -- bucketed
      first
        | refine put_good (upd := fun x => { x with gFactor := some ⟨_, _⟩ }) ?_ _ _ ?_
        | refine put_good (upd := fun x => { x with aFactor := some ⟨_, _⟩ }) ?_ _ _ ?_
      · apply Good.addBucket _ hw2
        split
        · exact Good.flushBucket (h'.congr rfl rfl rfl rfl rfl)
        · exact h'.congr rfl rfl rfl rfl rfl
      · intro r _ x hl; lok_from hl
    · generalize hiss : issue _ _ _ = p
      obtain ⟨s1, id⟩ := p
      obtain ⟨h1, he, hid, -, -⟩ := issue_spec (h := by exact h'.congr rfl rfl rfl rfl rfl) (m := worldRanks c)
        (fun x hx => mem_worldRanks.mp hx)
        (by simpa [worldRanks] using hw2) (by intro hk; simp at hk) hiss
      simp only []
      first
        | refine put_good (upd := fun x => { x with gFactor := some ⟨_, _⟩ }) h1 _ _ ?_
        | refine put_good (upd := fun x => { x with aFactor := some ⟨_, _⟩ }) h1 _ _ ?_
      intro r hr x hl
      have : SlotOK false (evs s1) r (some ⟨V.ref s'.defs.length, .issued id⟩) := by
        show id < _ ∧ r ∈ _
        rw [he, hid]
        refine ⟨by simp, ?_⟩
        simpa [List.getD] using hr
      lok_from hl

theorem Good.setPass {st c s} (h : Good st c μ s) (n : Nat) : Good st c μ { s with pass := n } :=
  h.congr rfl rfl rfl rfl rfl

theorem Good.setMini {st c μ s} (h : Good st c μ s) (m : List Nat) : Good st c m { s with mini := m } :=
  ⟨h.nIss, h.wfs, h.lok, h.shape, h.bkt, h.sB, h.sF, rfl⟩

/-- `Good` for some value of the `mini` counters -/
def GoodE (st : Bool) (c : Cfg) (s : St) : Prop := ∃ μ, Good st c μ s

theorem Good.forUpdate {st c s} (h : Good st c μ s) (l : Nat) (isA : Bool) (α : Rat) :
    Good st c μ (forRanks c s fun s r => Precond.updateFactor s r l isA α) :=
  forRanks_inv _ c _ s h fun _ r _ hs => hs.updateFactor r l isA α

theorem Good.forSave {st c s} (h : Good st c μ s) (l : Nat) (isA : Bool) :
    Good st c μ (forRanks c s fun s r => Precond.saveBatch s r l isA) :=
  forRanks_inv _ c _ s h fun _ r _ hs => hs.saveBatch r l isA

theorem Good.fwdBwd {c μ s} (hw : 0 < c.world) (h : Good false c μ s) (train : Bool) :
    GoodE false c (Precond.fwdBwd c s train) := by
  unfold Precond.fwdBwd
  simp only []
  split
  · exact ⟨_, h⟩
  split
  · exact ⟨_, h.setPass _⟩
  suffices hh : GoodE false c _ by
    obtain ⟨μ', hh⟩ := hh
    exact ⟨μ', hh.setPass _⟩
  refine foldl_inv (GoodE false c) _ _ _ (foldl_inv (GoodE false c) _ _ _ ⟨_, h⟩ ?_) ?_
  · rintro s l _ ⟨μ', hs⟩
    have h1 := hs.forSave l true
    generalize forRanks c s _ = s1 at h1 ⊢
    have h2 := h1.setMini (s1.mini.set l (s1.mini.getD l 0 + 1))
    split
    · exact ⟨_, (h2.forUpdate l true _).reduceFactor hw l true⟩
    · exact ⟨_, h2⟩
  · rintro s l _ ⟨μ', hs⟩
    have h1 := hs.forSave l false
    generalize forRanks c s _ = s1 at h1 ⊢
    split
    · exact ⟨_, (h1.forUpdate l false _).reduceFactor hw l false⟩
    · exact ⟨_, h1⟩

end KV.PI
