/-
Every operation of M-Precond is a sequence of primitive moves (`KV.HR.Reach`).  Core Lean only.
-/
import KfacVerif.Lemmas.HoldingsReach
import KfacVerif.Lemmas.PrecondInv6

namespace KV.HR
open KV KV.Precond
variable {c : Cfg} {ld bp : Bool} {s0 s : St}
set_option linter.unusedSimpArgs false

theorem Reach.rdSt (h : Reach c ld bp s0 s) (r : Nat) (sl : Option Slot) : Reach c ld bp s0 (rdSt s r sl) := by
  unfold HR.rdSt
  cases sl with
  | none => exact h
  | some x =>
    obtain ⟨v, p⟩ := x
    cases p with
    | ready => exact h
    | issued id => exact h.tail (.emit _ _ (by intro m d; simp))
    | queued q => exact h.tail (.emit _ _ (by intro m d; simp))

theorem Reach.rdStIf (h : Reach c ld bp s0 s) (b : Prop) [Decidable b] (r : Nat) (sl : Option Slot) :
    Reach c ld bp s0 (if b then HR.rdSt s r sl else s) := by
  split
  · exact h.rdSt r sl
  · exact h

theorem Reach.rdStIf' (h : Reach c ld bp s0 s) (b : Prop) [Decidable b] (r : Nat) (sl : Option Slot) :
    Reach c ld bp s0 (if b then s else HR.rdSt s r sl) := by
  split
  · exact h
  · exact h.rdSt r sl

theorem Reach.failR (h : Reach c ld bp s0 s) (r : Nat) (w : String) : Reach c ld bp s0 (Precond.fail s r w) :=
  h.tail (.fail _ _ _)

theorem Reach.setLR (h : Reach c ld bp s0 s) {r l : Nat} {x : LState}
    (h1 : r ∈ c.asg.workers l ∨ ld = true ∨ sameSO (getL s r l) x) (h2 : monoSO (getL s r l) x) :
    Reach c ld bp s0 (Precond.setL s r l x) :=
  h.tail (.setL _ _ _ _ h1 h2)

/-- a write that keeps the second-order signature -/
theorem Reach.setSame (h : Reach c ld bp s0 s) {r l : Nat} {x : LState} (h1 : sameSO (getL s r l) x) :
    Reach c ld bp s0 (Precond.setL s r l x) :=
  h.setLR (Or.inr (Or.inr h1)) ⟨fun a => h1.1 ▸ a, fun a => h1.2.2.2.2.2.1 ▸ a⟩

theorem Reach.miscR (h : Reach c ld bp s0 s) {s' : St} (h1 : s'.script = s.script) (h2 : s'.ranks = s.ranks)
    (h3 : s'.err = s.err) (h4 : s'.bucket = s.bucket) (h5 : s'.steps = s.steps) : Reach c ld bp s0 s' :=
  h.tail (.misc _ _ h1 h2 h3 h4 (fun _ => h5))

theorem Reach.foldl {α : Type} (f : St → α → St) (ls : List α)
    (hf : ∀ t a, a ∈ ls → Reach c ld bp t (f t a)) (h : Reach c ld bp s0 s) :
    Reach c ld bp s0 (ls.foldl f s) :=
  PI.foldl_inv (Reach c ld bp s0) f ls s h (fun t a ha ht => ht.trans (hf t a ha))

theorem Reach.forRanks (f : St → Nat → St) (hf : ∀ t r, r < c.world → Reach c ld bp t (f t r))
    (h : Reach c ld bp s0 s) : Reach c ld bp s0 (forRanks c s f) :=
  PI.forRanks_inv (Reach c ld bp s0) c f s h (fun t r hr ht => ht.trans (hf t r hr))

theorem Reach.ite (b : Prop) [Decidable b] {t u : St} (h1 : b → Reach c ld bp s0 t) (h2 : ¬ b → Reach c ld bp s0 u) :
    Reach c ld bp s0 (if b then t else u) := by
  split
  · exact h1 ‹_›
  · exact h2 ‹_›

/-- discharge `sameSO` / `monoSO` side goals -/
macro "so_simp" : tactic => `(tactic| (simp [sameSO, monoSO]))

/-- split the outermost `if` of the reached state -/
macro "rsplit" : tactic => `(tactic| (apply Reach.ite <;> intro _))

/-- chain of reads back to the start -/
macro "rd_chain" : tactic => `(tactic|
  (repeat (first | exact Reach.refl _ | assumption | apply Reach.rdSt | apply Reach.rdStIf | apply Reach.rdStIf')))

theorem R.saveBatch (s : St) (r l : Nat) (isA : Bool) : Reach c ld bp s (saveBatch s r l isA) := by
  unfold Precond.saveBatch
  apply Reach.setSame (Reach.refl _)
  cases isA <;> simp only [Bool.false_eq_true, if_false, if_true] <;> split <;> so_simp

theorem R.updateFactor (s : St) (r l : Nat) (isA : Bool) (α : Rat) :
    Reach c ld bp s (updateFactor s r l isA α) := by
  unfold Precond.updateFactor
  cases isA <;> simp only [readSlot_eq, Bool.false_eq_true, if_false, if_true]
  · split
    · exact Reach.refl _
    · apply Reach.setSame (by rd_chain); so_simp
  · split
    · exact Reach.refl _
    · apply Reach.setSame (by rd_chain); so_simp

/-! ### factors -/

theorem R.flushBucket (s : St) : Reach c ld bp s (flushBucket c s) := by
  rw [PI.flushBucket_eq]
  split
  · exact Reach.refl _
  · rename_i hne
    have hne' : s.bucket ≠ [] := by simpa using hne
    exact ((Reach.refl s).tail (.issue _ _ _ (.flush hne'))).tail (.flushMap _ s.bucket s.nIssued)

theorem R.put (isA : Bool) (l : Nat) (v : Slot) (rs : List Nat) (s : St) :
    Reach c ld bp s (rs.foldl (fun s r =>
      let x := getL s r l
      Precond.setL s r l (if isA then { x with aFactor := some v } else { x with gFactor := some v })) s) := by
  apply Reach.foldl _ _ _ (Reach.refl _)
  intro t r _
  apply Reach.setSame (Reach.refl _)
  cases isA <;> so_simp

theorem R.reduceFactor (s : St) (l : Nat) (isA : Bool) (hl : l < c.layers.length) :
    Reach c ld bp s (reduceFactor c s l isA) := by
  rw [PI.reduceFactor_eq]
  extract_lets missing
  split
  · exact (Reach.refl _).failR _ _
  · have h1 : Reach c ld bp s (PI.reduceReadsF c s l isA) := by
      unfold PI.reduceReadsF
      apply Reach.forRanks _ _ (Reach.refl _)
      intro t r _
      cases isA <;> simp only [readSlot_eq, Bool.false_eq_true, if_false, if_true]
      · apply Reach.setSame (by rd_chain); so_simp
      · apply Reach.setSame (by rd_chain); so_simp
    refine h1.trans ?_
    generalize PI.reduceReadsF c s l isA = t
    unfold PI.reduceTail
    split
    · exact Reach.refl _
    · rename_i hw1
      have hw : c.world ≠ 1 := by simpa using hw1
      extract_lets dim n elems vals avg s0 put size s1 req s2
      have h0 : Reach c ld bp t s0 := (Reach.refl t).miscR rfl rfl rfl rfl rfl
      split
      · rename_i hb
        have h1 : Reach c ld bp t s1 := by
          show Reach c ld bp t (if _ then _ else _)
          split
          · exact h0.trans (R.flushBucket _)
          · exact h0
        have h2 : Reach c ld bp t s2 := h1.tail (.addB _ _ hb hw rfl rfl rfl rfl)
        exact h2.trans (R.put isA l _ _ _)
      · rename_i hb
        have hb' : c.bucketed = false := by simpa using hb
        split
        rename_i _ s3 id hiss
        have h3 : Reach c ld bp t s3 := by
          have : s3 = (Precond.issue s0 (worldRanks c)
              { kind := .allreduce, elems := elems, esize := c.fe, root := 0 }).1 := by rw [hiss]
          rw [this]
          exact h0.tail (.issue _ _ _ (.red l isA hb' hw hl))
        exact h3.trans (R.put isA l _ _ _)

theorem R.forUpdate (s : St) (l : Nat) (isA : Bool) (α : Rat) :
    Reach c ld bp s (forRanks c s fun s r => Precond.updateFactor s r l isA α) :=
  Reach.forRanks _ (fun t r _ => R.updateFactor t r l isA α) (Reach.refl _)

theorem R.forSave (s : St) (l : Nat) (isA : Bool) :
    Reach c ld bp s (forRanks c s fun s r => Precond.saveBatch s r l isA) :=
  Reach.forRanks _ (fun t r _ => R.saveBatch t r l isA) (Reach.refl _)

theorem R.fwdBody (α : Rat) (s : St) (l : Nat) (hl : l < c.layers.length) :
    Reach c ld bp s (PI.fwdBody c α s l) := by
  unfold PI.fwdBody
  extract_lets s1 m s2
  have h1 : Reach c ld bp s s1 := R.forSave s l true
  have h2 : Reach c ld bp s s2 := h1.miscR rfl rfl rfl rfl rfl
  split
  · exact (h2.trans (R.forUpdate _ l true α)).trans (R.reduceFactor _ l true hl)
  · exact h2

theorem R.bwdBody (α : Rat) (s : St) (l : Nat) (hl : l < c.layers.length) :
    Reach c ld bp s (PI.bwdBody c α s l) := by
  unfold PI.bwdBody
  extract_lets s1 m
  have h1 : Reach c ld bp s s1 := R.forSave s l false
  split
  · exact (h1.trans (R.forUpdate _ l false α)).trans (R.reduceFactor _ l false hl)
  · exact h1

theorem R.fwdBwd (s : St) (train : Bool) : Reach c ld bp s (fwdBwd c s train) := by
  rw [PI.fwdBwd_eq]
  split
  · exact Reach.refl _
  split
  · exact (Reach.refl s).miscR rfl rfl rfl rfl rfl
  · extract_lets s1 s2
    have h1 : Reach c ld bp s s1 :=
      Reach.foldl _ _ (fun t l hl => R.fwdBody _ t l (PI.mem_layerIdxs.mp hl)) (Reach.refl _)
    have h2 : Reach c ld bp s s2 :=
      Reach.foldl _ _ (fun t l hl => R.bwdBody _ t l (PI.mem_revLayers.mp hl)) h1
    exact h2.miscR rfl rfl rfl rfl rfl

/-! ### second-order phase -/

theorem side_of {P Q R : Prop} (h : P ∨ Q) : P ∨ Q ∨ R := h.elim Or.inl (fun h => Or.inr (Or.inl h))

theorem R.bcastField (s : St) (l src elems : Nat) (hb : c.asg.bcastInv = true)
    (hsrc : src = c.asg.invA l ∨ src = c.asg.invG l)
    (get : LState → Option Slot) (set : LState → Option Slot → LState)
    (hset : ∀ x o, o.isSome = true → monoSO x (set x o)) :
    Reach c ld bp s (bcastField c s l src elems get set) := by
  unfold Precond.bcastField
  extract_lets members
  split
  · exact Reach.refl _
  · rename_i hlen
    have hlen' : (c.asg.workers l).length ≠ 1 := by simpa [members] using hlen
    split
    rename_i _ s1 id hiss
    have h1 : Reach c ld bp s s1 := by
      have : s1 = (Precond.issue s members
          { kind := .broadcast, elems := elems, esize := c.ie, root := src }).1 := by rw [hiss]
      rw [this]
      exact (Reach.refl s).tail (.issue _ _ _ (.inv l src elems hb hlen' hsrc))
    apply Reach.foldl _ _ _ h1
    intro t r hr
    exact (Reach.refl t).setLR (Or.inl hr) (hset _ _ rfl)

theorem R.computeAInv (s : St) (r l : Nat) (d : Rat) (hw : r ∈ c.asg.workers l ∨ ld = true) :
    Reach c ld bp s (computeAInv c s r l d) := by
  unfold Precond.computeAInv
  cases hm : c.method <;> simp only [readSlot_eq, ite_pair, getL_rdSt, getL_ite_rdSt, getL_ite_rdSt'] <;> rsplit
  · exact (Reach.refl _).failR _ _
  · exact Reach.setLR (by rd_chain) (side_of hw) (by so_simp)
  · exact (Reach.refl _).failR _ _
  · exact Reach.setLR (by rd_chain) (side_of hw) (by so_simp)

theorem R.computeGInv (s : St) (r l : Nat) (d : Rat) (hw : r ∈ c.asg.workers l ∨ ld = true) :
    Reach c ld bp s (computeGInv c s r l d) := by
  unfold Precond.computeGInv
  cases hm : c.method <;> simp only [readSlot_eq, ite_pair, getL_rdSt, getL_ite_rdSt, getL_ite_rdSt'] <;> rsplit
  · exact (Reach.refl _).failR _ _
  · rsplit
    · exact Reach.failR (by rd_chain) _ _
    · rsplit
      · exact Reach.setLR (by rd_chain) (side_of hw) (by so_simp)
      · exact Reach.setLR (by rd_chain) (side_of hw) (by so_simp)
  · exact (Reach.refl _).failR _ _
  · exact Reach.setLR (by rd_chain) (side_of hw) (by so_simp)

theorem R.bcastA_eigen_body (l : Nat) (s : St) (r : Nat) (hw : r ∈ c.asg.workers l ∨ ld = true) :
    Reach c ld bp s (
      let src := c.asg.invA l
      let x := getL s r l
      let (s, qa) := readSlot s r x.qa
      let x := { getL s r l with qa := qa }
      let (s, da) := if qa.isSome && !c.prediv then readSlot s r x.da else (s, x.da)
      let x := { getL s r l with qa := qa, da := da }
      if qa.isNone || (!c.prediv && da.isNone) then
        if r == src then Precond.fail s r "broadcast A inv from src that has not computed it" else
        let (s, af) := readSlot s r x.aFactor
        let x := { getL s r l with qa := qa, da := da, aFactor := af }
        if af.isNone then Precond.fail s r "a_factor is None when allocating the receive buffer" else
        Precond.setL s r l { x with qa := some ⟨.garbage, .ready⟩, da := some ⟨.garbage, .ready⟩ }
      else Precond.setL s r l x) := by
  simp only [readSlot_eq, ite_pair, getL_rdSt, getL_ite_rdSt, getL_ite_rdSt']
  rsplit
  · rsplit
    · exact Reach.failR (by rd_chain) _ _
    · rsplit
      · exact Reach.failR (by rd_chain) _ _
      · exact Reach.setLR (by rd_chain) (side_of hw) (by so_simp)
  · exact Reach.setLR (by rd_chain) (side_of hw) (by so_simp)

theorem R.bcastA_inv_body (l : Nat) (s : St) (r : Nat) (hw : r ∈ c.asg.workers l ∨ ld = true) :
    Reach c ld bp s (
      let src := c.asg.invA l
      let x := getL s r l
      let (s, ai) := readSlot s r x.aInv
      let x := { getL s r l with aInv := ai }
      if ai.isNone then
        if r == src then Precond.fail s r "broadcast A inv from src that has not computed it" else
        let (s, af) := readSlot s r x.aFactor
        let x := { getL s r l with aInv := ai, aFactor := af }
        if af.isNone then Precond.fail s r "a_factor is None when allocating the receive buffer" else
        Precond.setL s r l { x with aInv := some ⟨.garbage, .ready⟩ }
      else Precond.setL s r l x) := by
  simp only [readSlot_eq, ite_pair, getL_rdSt, getL_ite_rdSt, getL_ite_rdSt']
  rsplit
  · rsplit
    · exact Reach.failR (by rd_chain) _ _
    · rsplit
      · exact Reach.failR (by rd_chain) _ _
      · exact Reach.setLR (by rd_chain) (side_of hw) (by so_simp)
  · exact Reach.setLR (by rd_chain) (side_of hw) (by so_simp)

theorem R.broadcastAInv (s : St) (l : Nat) (hb : c.asg.bcastInv = true) :
    Reach c ld bp s (broadcastAInv c s l) := by
  unfold Precond.broadcastAInv
  split
  · have h1 := Reach.foldl (c := c) (ld := ld) (bp := bp) _ (c.asg.workers l)
      (fun t r hr => R.bcastA_eigen_body l t r (Or.inl hr)) (Reach.refl s)
    have h2 := h1.trans (R.bcastField _ l (c.asg.invA l)
      ((c.layers.getD l ⟨0, 0⟩).aDim * (c.layers.getD l ⟨0, 0⟩).aDim) hb (Or.inl rfl)
      (·.qa) (fun x v => { x with qa := v }) (fun x o ho => by simp [monoSO, ho]))
    split
    · exact h2
    · exact h2.trans (R.bcastField _ l (c.asg.invA l) _ hb (Or.inl rfl)
        (·.da) (fun x v => { x with da := v }) (fun x o ho => by simp [monoSO]))
  · have h1 := Reach.foldl (c := c) (ld := ld) (bp := bp) _ (c.asg.workers l)
      (fun t r hr => R.bcastA_inv_body l t r (Or.inl hr)) (Reach.refl s)
    exact h1.trans (R.bcastField _ l (c.asg.invA l) _ hb (Or.inl rfl)
      (·.aInv) (fun x v => { x with aInv := v }) (fun x o ho => by simp [monoSO, ho]))

theorem R.bcastG_eigen_body (l : Nat) (s : St) (r : Nat) (hw : r ∈ c.asg.workers l ∨ ld = true) :
    Reach c ld bp s (
      let src := c.asg.invG l
      let x := getL s r l
      let (s, qg) := readSlot s r x.qg
      let x := { getL s r l with qg := qg }
      let (s, dg) := if qg.isSome && !c.prediv then readSlot s r x.dg else (s, x.dg)
      let x := { getL s r l with qg := qg, dg := dg }
      let (s, dgda) := if qg.isSome && c.prediv then readSlot s r x.dgda else (s, x.dgda)
      let x := { getL s r l with qg := qg, dg := dg, dgda := dgda }
      if qg.isNone || (!c.prediv && dg.isNone) || (c.prediv && dgda.isNone) then
        if r == src then Precond.fail s r "broadcast G inv from src that has not computed it" else
        let (s, gf) := readSlot s r x.gFactor
        let x := { getL s r l with qg := qg, dg := dg, dgda := dgda, gFactor := gf }
        if gf.isNone then Precond.fail s r "g_factor is None when allocating the receive buffer" else
        if c.prediv then
          let (s, af) := readSlot s r x.aFactor
          let x := { getL s r l with qg := qg, dg := dg, dgda := dgda, gFactor := gf, aFactor := af }
          if af.isNone then Precond.fail s r "a_factor is None when allocating the receive buffer" else
          Precond.setL s r l { x with qg := some ⟨.garbage, .ready⟩, dgda := some ⟨.garbage, .ready⟩ }
        else Precond.setL s r l { x with qg := some ⟨.garbage, .ready⟩, dg := some ⟨.garbage, .ready⟩ }
      else Precond.setL s r l x) := by
  simp only [readSlot_eq, ite_pair, getL_rdSt, getL_ite_rdSt, getL_ite_rdSt']
  rsplit
  · rsplit
    · exact Reach.failR (by rd_chain) _ _
    · rsplit
      · exact Reach.failR (by rd_chain) _ _
      · rsplit
        · rsplit
          · exact Reach.failR (by rd_chain) _ _
          · exact Reach.setLR (by rd_chain) (side_of hw) (by so_simp)
        · exact Reach.setLR (by rd_chain) (side_of hw) (by so_simp)
  · exact Reach.setLR (by rd_chain) (side_of hw) (by so_simp)

theorem R.bcastG_inv_body (l : Nat) (s : St) (r : Nat) (hw : r ∈ c.asg.workers l ∨ ld = true) :
    Reach c ld bp s (
      let src := c.asg.invG l
      let x := getL s r l
      let (s, gi) := readSlot s r x.gInv
      let x := { getL s r l with gInv := gi }
      if gi.isNone then
        if r == src then Precond.fail s r "broadcast G inv from src that has not computed it" else
        let (s, gf) := readSlot s r x.gFactor
        let x := { getL s r l with gInv := gi, gFactor := gf }
        if gf.isNone then Precond.fail s r "g_factor is None when allocating the receive buffer" else
        Precond.setL s r l { x with gInv := some ⟨.garbage, .ready⟩ }
      else Precond.setL s r l x) := by
  simp only [readSlot_eq, ite_pair, getL_rdSt, getL_ite_rdSt, getL_ite_rdSt']
  rsplit
  · rsplit
    · exact Reach.failR (by rd_chain) _ _
    · rsplit
      · exact Reach.failR (by rd_chain) _ _
      · exact Reach.setLR (by rd_chain) (side_of hw) (by so_simp)
  · exact Reach.setLR (by rd_chain) (side_of hw) (by so_simp)

theorem R.broadcastGInv (s : St) (l : Nat) (hb : c.asg.bcastInv = true) :
    Reach c ld bp s (broadcastGInv c s l) := by
  unfold Precond.broadcastGInv
  split
  · extract_lets src dims g s1 s2
    have h1 : Reach c ld bp s s1 := Reach.foldl _ (c.asg.workers l)
      (fun t r hr => R.bcastG_eigen_body l t r (Or.inl hr)) (Reach.refl s)
    have h2 : Reach c ld bp s s2 := h1.trans (R.bcastField _ l (c.asg.invG l) _ hb (Or.inr rfl)
      (·.qg) (fun x v => { x with qg := v }) (fun x o ho => by simp [monoSO]))
    clear_value s2 s1
    split
    · exact h2.trans (R.bcastField _ l (c.asg.invG l) _ hb (Or.inr rfl)
        (·.dgda) (fun x v => { x with dgda := v }) (fun x o ho => by simp [monoSO]))
    · exact h2.trans (R.bcastField _ l (c.asg.invG l) _ hb (Or.inr rfl)
        (·.dg) (fun x v => { x with dg := v }) (fun x o ho => by simp [monoSO]))
  · have h1 := Reach.foldl (c := c) (ld := ld) (bp := bp) _ (c.asg.workers l)
      (fun t r hr => R.bcastG_inv_body l t r (Or.inl hr)) (Reach.refl s)
    exact h1.trans (R.bcastField _ l (c.asg.invG l) _ hb (Or.inr rfl)
      (·.gInv) (fun x v => { x with gInv := v }) (fun x o ho => by simp [monoSO]))

theorem R.precondGrad (s : St) (r l : Nat) (d : Rat) : Reach c ld bp s (precondGrad c s r l d) := by
  unfold Precond.precondGrad
  cases hm : c.method <;> simp only [readSlot_eq, ite_pair, getL_rdSt, getL_ite_rdSt, getL_ite_rdSt'] <;> rsplit
  · exact Reach.failR (by rd_chain) _ _
  · exact Reach.setSame (by rd_chain) (by so_simp)
  · exact Reach.failR (by rd_chain) _ _
  · exact Reach.setSame (by rd_chain) (by so_simp)

theorem R.bgrad_body (l src : Nat) (s : St) (r : Nat) :
    Reach c ld bp s (
      let x := getL s r l
      let (s, gr) := readSlot s r x.grad
      let x := { getL s r l with grad := gr }
      if gr.isNone && r == src then
        Precond.fail s r "broadcast gradient from src that has not preconditioned it" else
      Precond.setL s r l (if gr.isNone then { x with grad := some ⟨.garbage, .ready⟩ } else x)) := by
  simp only [readSlot_eq, ite_pair, getL_rdSt, getL_ite_rdSt, getL_ite_rdSt']
  rsplit
  · exact Reach.failR (by rd_chain) _ _
  · apply Reach.setSame (by rd_chain)
    split <;> so_simp

theorem R.broadcastGrad (s : St) (l : Nat) (hb : c.asg.bcastGrad = true) :
    Reach c ld bp s (broadcastGrad c s l) := by
  unfold Precond.broadcastGrad
  extract_lets dims elems rows
  apply Reach.foldl _ _ _ (Reach.refl _)
  intro s r0 hr0
  have hhead : (c.asg.recv r0).head? = some r0 := by
    have := (List.mem_filter.mp hr0).2
    simpa using this
  extract_lets members src s1 rootVal
  split
  · exact Reach.refl _
  · rename_i hlen
    have hlen' : (c.asg.recv r0).length ≠ 1 := by simpa [members] using hlen
    have h1 : Reach c ld bp s s1 := Reach.foldl _ members
      (fun t r _ => R.bgrad_body l src t r) (Reach.refl s)
    split
    rename_i _ s2 id hiss
    have h2 : Reach c ld bp s s2 := by
      have : s2 = (Precond.issue s1 members
          { kind := .broadcast, elems := elems, esize := c.ge, root := src }).1 := by rw [hiss]
      rw [this]
      exact h1.tail (.issue _ _ _ (.grad r0 l hb hlen' hhead))
    apply Reach.foldl _ _ _ h2
    intro t r _
    apply Reach.setSame (Reach.refl _)
    so_simp

/-! ### `step()` -/

/-- the inverse workers are gradient workers (or loads are allowed anyway) -/
def InvMem (c : Cfg) (ld : Bool) : Prop :=
  ∀ l, (c.asg.invA l ∈ c.asg.workers l ∨ ld = true) ∧ (c.asg.invG l ∈ c.asg.workers l ∨ ld = true)

/-- the per-layer body of the inverse phase -/
def invBody (c : Cfg) (d : Rat) (s : St) (l : Nat) : St :=
  let s := Precond.computeAInv c s (c.asg.invA l) l d
  let s := if c.asg.bcastInv then Precond.broadcastAInv c s l else s
  let s := Precond.computeGInv c s (c.asg.invG l) l d
  if c.asg.bcastInv then Precond.broadcastGInv c s l else s

theorem stepInv_eq (c : Cfg) (ius : Nat) (d : Rat) (s : St) : PI.stepInv c ius d s =
    if s.steps % ius == 0 then Precond.flushBucket c ((revLayers c).foldl (invBody c d) s) else s := rfl

theorem R.iteBA (s : St) (l : Nat) :
    Reach c ld bp s (if c.asg.bcastInv then Precond.broadcastAInv c s l else s) := by
  split
  · exact R.broadcastAInv s l ‹_›
  · exact Reach.refl _

theorem R.iteBG (s : St) (l : Nat) :
    Reach c ld bp s (if c.asg.bcastInv then Precond.broadcastGInv c s l else s) := by
  split
  · exact R.broadcastGInv s l ‹_›
  · exact Reach.refl _

theorem R.invBody (hm : InvMem c ld) (d : Rat) (s : St) (l : Nat) : Reach c ld bp s (invBody c d s l) := by
  unfold HR.invBody
  exact (((R.computeAInv s _ l d (hm l).1).trans (R.iteBA _ l)).trans
    (R.computeGInv _ _ l d (hm l).2)).trans (R.iteBG _ l)

theorem R.stepInv (hm : InvMem c ld) (ius : Nat) (d : Rat) (s : St) :
    Reach c ld bp s (PI.stepInv c ius d s) := by
  rw [stepInv_eq]
  split
  · exact (Reach.foldl _ _ (fun t l _ => R.invBody hm d t l) (Reach.refl _)).trans (R.flushBucket _)
  · exact Reach.refl _

theorem R.stepGrad (d : Rat) (s : St) : Reach c ld bp s (PI.stepGrad c d s) := by
  unfold PI.stepGrad
  apply Reach.foldl _ _ _ (Reach.refl _)
  intro t l _
  have h1 : Reach c ld bp t ((c.asg.workers l).foldl (fun s r => Precond.precondGrad c s r l d) t) :=
    Reach.foldl _ _ (fun u r _ => R.precondGrad u r l d) (Reach.refl _)
  show Reach c ld bp t (if _ then _ else _)
  split
  · exact h1.trans (R.broadcastGrad _ l ‹_›)
  · exact h1

theorem R.stepClip (s : St) : Reach c ld bp s (PI.stepClip c s) := by
  unfold PI.stepClip
  apply Reach.forRanks _ _ (Reach.refl _)
  intro t r _
  apply Reach.foldl _ _ _ (Reach.refl _)
  intro u l _
  simp only [readSlot_eq, ite_pair, getL_rdSt, getL_ite_rdSt, getL_ite_rdSt']
  rsplit
  · exact Reach.failR (by rd_chain) _ _
  · exact Reach.setSame (by rd_chain) (by so_simp)

theorem R.stepClear (s : St) : Reach c ld bp s (PI.stepClear c s) := by
  unfold PI.stepClear
  apply Reach.forRanks _ _ (Reach.refl _)
  intro t r _
  apply Reach.foldl _ _ _ (Reach.refl _)
  intro u l _
  exact Reach.setSame (Reach.refl _) (by so_simp)

theorem R.headBody (α : Rat) (s : St) (l : Nat) (hl : l < c.layers.length) :
    Reach c ld bp s (PI.headBody c α s l) := by
  unfold PI.headBody
  extract_lets s1 s2 s3 s4
  have h1 : Reach c ld bp s s1 := (Reach.refl s).miscR rfl rfl rfl rfl rfl
  have h2 : Reach c ld bp s s2 := h1.trans (R.forUpdate _ l true α)
  have h3 : Reach c ld bp s s3 := h2.trans (R.reduceFactor _ l true hl)
  have h4 : Reach c ld bp s s4 := h3.trans (R.forUpdate _ l false α)
  exact h4.trans (R.reduceFactor _ l false hl)

theorem R.stepHead (s : St) : Reach c ld bp s (PI.stepHead c s) := by
  rw [PI.stepHead_eq]
  split
  · exact Reach.foldl _ _ (fun t l hl => R.headBody _ t l (PI.mem_revLayers.mp hl)) (Reach.refl _)
  · exact Reach.refl _

/-- `step()` up to (excluding) the final counter update -/
def stepPre (c : Cfg) (s : St) : St :=
  PI.stepClear c (PI.stepClip c (Precond.flushBucket c (PI.stepGrad c (s.hyper.damping.val s.steps)
    (PI.stepInv c (s.hyper.ius.val s.steps) (s.hyper.damping.val s.steps)
      (Precond.flushBucket c (PI.stepHead c s))))))

theorem R.stepPre (hm : InvMem c ld) (s : St) : Reach c ld bp s (stepPre c s) := by
  unfold HR.stepPre
  exact ((((((R.stepHead s).trans (R.flushBucket _)).trans (R.stepInv hm _ _ _)).trans
    (R.stepGrad _ _)).trans (R.flushBucket _)).trans (R.stepClip _)).trans (R.stepClear _)

theorem stepAll_pre (c : Cfg) (s : St) : ∃ n m o, stepAll c s =
    { stepPre c s with steps := n, mini := m, outGrads := o } := ⟨_, _, _, rfl⟩

theorem R.stepAll (hm : InvMem c ld) (s : St) : Reach c ld true s (stepAll c s) := by
  obtain ⟨n, m, o, e⟩ := stepAll_pre c s
  rw [e]
  exact (R.stepPre hm s).tail (.misc _ _ rfl rfl rfl rfl (fun h => by cases h))

/-! ### queries and checkpoints -/

theorem R.resetBatch (s : St) : Reach c ld bp s (resetBatch c s) := by
  unfold Precond.resetBatch
  apply Reach.forRanks _ _ (Reach.refl _)
  intro t r _
  apply Reach.foldl _ _ _ (Reach.refl _)
  intro u l _
  exact Reach.setSame (Reach.refl _) (by so_simp)

theorem R.memRd (s : St) (r l : Nat) (get : LState → Option Slot) (set : LState → Option Slot → LState)
    (hset : ∀ x o, o.isSome = (get x).isSome → sameSO x (set x o)) :
    Reach c ld bp s (PI.memRd r l s get set) := by
  unfold PI.memRd
  simp only [readSlot_eq]
  apply Reach.setSame (by rd_chain)
  apply hset
  simp

theorem R.memUsage (s : St) : Reach c ld bp s (memUsage c s) := by
  unfold Precond.memUsage
  extract_lets s0
  have h0 : Reach c ld bp s s0 := R.flushBucket s
  apply Reach.forRanks _ _ h0
  intro t r _
  apply Reach.foldl _ _ _ (Reach.refl _)
  intro u l _
  try dsimp -zeta -iota only
  extract_lets rd
  have hrd : ∀ (s : St) (get : LState → Option Slot) (set : LState → Option Slot → LState),
      (∀ x o, o.isSome = (get x).isSome → sameSO x (set x o)) → Reach c ld bp s (rd s get set) :=
    fun s get set hs => R.memRd s r l get set hs
  clear_value rd
  have a1 := hrd u (·.aFactor) (fun x v => { x with aFactor := v }) (fun x o ho => by so_simp)
  have a2 := a1.trans (hrd _ (·.gFactor) (fun x v => { x with gFactor := v }) (fun x o ho => by so_simp))
  split
  · have b1 := a2.trans (hrd _ (·.qa) (fun x v => { x with qa := v }) (fun x o ho => by simpa [sameSO] using ho.symm))
    have b2 := b1.trans (hrd _ (·.da) (fun x v => { x with da := v }) (fun x o ho => by simpa [sameSO] using ho.symm))
    have b3 := b2.trans (hrd _ (·.qg) (fun x v => { x with qg := v }) (fun x o ho => by simpa [sameSO] using ho.symm))
    have b4 := b3.trans (hrd _ (·.dg) (fun x v => { x with dg := v }) (fun x o ho => by simpa [sameSO] using ho.symm))
    exact b4.trans (hrd _ (·.dgda) (fun x v => { x with dgda := v }) (fun x o ho => by simpa [sameSO] using ho.symm))
  · have b1 := a2.trans (hrd _ (·.aInv) (fun x v => { x with aInv := v }) (fun x o ho => by simpa [sameSO] using ho.symm))
    exact b1.trans (hrd _ (·.gInv) (fun x v => { x with gInv := v }) (fun x o ho => by simpa [sameSO] using ho.symm))

theorem R.saveState (s : St) (inclF : Bool) : Reach c ld bp s (saveState c s inclF) := by
  unfold Precond.saveState
  split
  · exact Reach.refl _
  · apply Reach.forRanks _ _ (Reach.refl _)
    intro t r _
    apply Reach.foldl _ _ _ (Reach.refl _)
    intro u l _
    have a1 : Reach c ld bp u (PI.memRd r l u (·.aFactor) (fun x v => { x with aFactor := v })) :=
      R.memRd u r l _ _ (fun x o ho => by so_simp)
    exact a1.trans (R.memRd _ r l (·.gFactor) (fun x v => { x with gFactor := v }) (fun x o ho => by so_simp))

theorem R.saveLoad (s : St) (inclF compInv : Bool) : Reach c true bp s (saveLoad c s inclF compInv) := by
  unfold Precond.saveLoad
  extract_lets s1 src0 fresh strip s2 damping
  have h1 : Reach c true bp s s1 := R.saveState s inclF
  have hf : Reach c true bp s fresh := h1.tail (.reset _ _ rfl rfl rfl)
  have h2 : Reach c true bp s s2 := by
    apply Reach.forRanks _ _ hf
    intro t r _
    apply Reach.foldl _ _ _ (Reach.refl _)
    intro u l _
    exact Reach.setSame (Reach.refl _) (by so_simp)
  clear_value s2 strip fresh src0 s1
  split
  · exact hf
  · split
    · exact h2
    · apply Reach.foldl _ _ _ h2
      intro t l _
      have a1 : Reach c true bp t (forRanks c t fun t r =>
          Precond.computeGInv c (Precond.computeAInv c t r l damping) r l damping) :=
        Reach.forRanks _ (fun u r _ => (R.computeAInv u r l damping (Or.inr rfl)).trans
          (R.computeGInv _ r l damping (Or.inr rfl))) (Reach.refl _)
      show Reach c true bp t (if _ then _ else _)
      split
      · exact (a1.trans (R.broadcastAInv _ l ‹_›)).trans (R.broadcastGInv _ l ‹_›)
      · exact a1

/-! ### histories -/

def isLoad : Op → Bool
  | .saveLoad _ _ => true
  | _ => false

def isStep : Op → Bool
  | .step => true
  | _ => false

/-- any operation, with loads and counter moves allowed -/
theorem R.exec_any (s : St) (op : Op) : Reach c true true s (exec c s op) := by
  have hm : InvMem c true := fun _ => ⟨Or.inr rfl, Or.inr rfl⟩
  unfold Precond.exec
  split
  · exact Reach.refl _
  · cases op with
    | fwdBwd t => exact R.fwdBwd s t
    | step => exact R.stepAll hm s
    | resetBatch => exact R.resetBatch s
    | memUsage => exact R.memUsage s
    | save f => exact R.saveState s f
    | saveLoad f ci => exact R.saveLoad s f ci
    | setHyper hy => exact (Reach.refl s).miscR rfl rfl rfl rfl rfl

/-- no checkpoint load -/
theorem R.exec_noload (hm : InvMem c false) (s : St) (op : Op) (hl : isLoad op = false) :
    Reach c false true s (exec c s op) := by
  unfold Precond.exec
  split
  · exact Reach.refl _
  · cases op with
    | fwdBwd t => exact R.fwdBwd s t
    | step => exact R.stepAll hm s
    | resetBatch => exact R.resetBatch s
    | memUsage => exact R.memUsage s
    | save f => exact R.saveState s f
    | saveLoad f ci => cases hl
    | setHyper hy => exact (Reach.refl s).miscR rfl rfl rfl rfl rfl

/-- neither a load nor a step: the step counter stands still -/
theorem R.exec_quiet (s : St) (op : Op) (hl : isLoad op = false) (hs : isStep op = false) :
    Reach c false false s (exec c s op) := by
  unfold Precond.exec
  split
  · exact Reach.refl _
  · cases op with
    | fwdBwd t => exact R.fwdBwd s t
    | step => cases hs
    | resetBatch => exact R.resetBatch s
    | memUsage => exact R.memUsage s
    | save f => exact R.saveState s f
    | saveLoad f ci => cases hl
    | setHyper hy => exact (Reach.refl s).miscR rfl rfl rfl rfl rfl

theorem R.run_any (s : St) (ops : List Op) : Reach c true true s (run c s ops) := by
  unfold Precond.run
  exact Reach.foldl _ _ (fun t op _ => R.exec_any t op) (Reach.refl _)

theorem R.run_noload (hm : InvMem c false) (s : St) (ops : List Op) (hl : ∀ op ∈ ops, isLoad op = false) :
    Reach c false true s (run c s ops) := by
  unfold Precond.run
  exact Reach.foldl _ _ (fun t op ho => R.exec_noload hm t op (hl op ho)) (Reach.refl _)

end KV.HR
