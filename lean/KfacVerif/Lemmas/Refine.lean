/-
Refinement of the reference machine (KV.Spec) by the distributed state machine (KV.Precond).
(Single Mathlib modules may be imported; never `import Mathlib`.)
-/
import KfacVerif.Model.Spec
import KfacVerif.Model.PrecondExt
import KfacVerif.Lemmas.Refine9

namespace KV.Refine
open KV KV.Precond KV.Spec

/-- what C06 proves of every KAISA assignment (and `KFACPreconditioner.__init__` enforces about
    pre-division), restated for the abstract `Assign` -/
structure CfgOK2 (c : Cfg) : Prop where
  world_pos : 0 < c.world
  accum_pos : 0 < c.accum
  workers_lt : ∀ l r, r ∈ c.asg.workers l → r < c.world
  invA_mem : ∀ l, c.asg.invA l ∈ c.asg.workers l
  invG_mem : ∀ l, c.asg.invG l ∈ c.asg.workers l
  /-- pre-divided eigenvalues require co-located factors -/
  prediv_coloc : c.prediv = true → ∀ l, c.asg.invA l = c.asg.invG l
  /-- without inverse broadcasts (MEM-OPT) the inverse worker is the only gradient worker -/
  nobi_single : c.asg.bcastInv = false → ∀ l, c.asg.workers l = [c.asg.invA l]
  /-- without gradient broadcasts (COMM-OPT) every rank is a gradient worker -/
  nobg_all : c.asg.bcastGrad = false → ∀ l r, r < c.world → r ∈ c.asg.workers l
  recv_lt : ∀ r r', r' ∈ c.asg.recv r → r' < c.world
  src_recv : ∀ r l, r < c.world → c.asg.src r l ∈ c.asg.recv r
  src_worker : ∀ r l, r < c.world → c.asg.src r l ∈ c.asg.workers l
  /-- receiver groups cover the world; each is represented by its first member -/
  rows : ∀ r, r < c.world → ∃ r0, r0 < c.world ∧ (c.asg.recv r0).head? = some r0 ∧ r ∈ c.asg.recv r0

/-- MAIN THEOREM: for every configuration, hyper-parameter schedule and history on which the real
    code raises no exception, every rank of the distributed machine ends with the step count, the
    registered factor values, the factors and the gradients of the reference machine. -/
theorem refines (c : Cfg) (hc : CfgOK2 c) (h : Hyper) (ops : List Op)
    (hne : (Precond.run c (St.init c h) ops).err = none) :
    let s := Precond.run c (St.init c h) ops
    let t := Spec.run (ofCfg c) (SSt.init (ofCfg c) h) ops
    s.steps = t.steps ∧ s.defs = t.defs ∧
    (∀ r, r < c.world → s.outGrads.getD r [] = t.out) ∧
    (∀ r l, r < c.world → l < c.layers.length →
      ((getL s r l).aFactor.map (·.val)) = (getS t l).aFactor ∧
      ((getL s r l).gFactor.map (·.val)) = (getS t l).gFactor) := by
  have hc' : CfgOK c :=
    ⟨hc.world_pos, hc.accum_pos, hc.workers_lt, hc.invA_mem, hc.invG_mem, hc.prediv_coloc, hc.nobi_single,
     hc.nobg_all, hc.recv_lt, hc.src_recv, hc.src_worker, hc.rows⟩
  have hrel := refines_aux c hc' h ops hne
  refine ⟨hrel.steps, hrel.defs, hrel.out, fun r l hr hl => ?_⟩
  have cr := (hrel.lay l hl).2 r hr
  exact ⟨cr.aFactor, cr.gFactor⟩

end KV.Refine
