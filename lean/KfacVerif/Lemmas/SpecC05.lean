/-
Facts behind C05: gating of factor updates / refreshes by the intervals, schedules read at the
current step.  Core Lean only.
-/
import KfacVerif.Lemmas.SpecFrames

namespace KV.Spec
open KV KV.Precond

/-! ### `refresh` as a layer function -/

def rfL (c : SCfg) (d : Rat) (x : SLayer) : SLayer :=
  let fa := x.aFactor.getD .zero
  let fg := x.gFactor.getD .zero
  match c.method with
  | .eigen =>
    if c.prediv then
      { x with qa := some (.eigQ fa), qg := some (.eigQ fg),
               dgda := some (.outerInv (.eigD fg) (.eigD fa) d), da := none, dg := none }
    else
      { x with qa := some (.eigQ fa), da := some (.eigD fa), qg := some (.eigQ fg), dg := some (.eigD fg) }
  | .inverse => { x with aInv := some (.inv fa d), gInv := some (.inv fg d) }

theorem refresh_eq (c : SCfg) (s : SSt) (l : Nat) (d : Rat) :
    refresh c s l d = setS s l (rfL c d (getS s l)) := by
  unfold refresh rfL
  cases c.method
  · cases c.prediv <;> rfl
  · rfl

/-- layer `x` carries second-order data computed from its own factors with damping `d` -/
def Refreshed (c : SCfg) (d : Rat) (x : SLayer) : Prop :=
  match c.method with
  | .inverse => x.aInv = some (.inv (x.aFactor.getD .zero) d) ∧ x.gInv = some (.inv (x.gFactor.getD .zero) d)
  | .eigen =>
    x.qa = some (.eigQ (x.aFactor.getD .zero)) ∧ x.qg = some (.eigQ (x.gFactor.getD .zero)) ∧
    (if c.prediv then x.dgda = some (.outerInv (.eigD (x.gFactor.getD .zero)) (.eigD (x.aFactor.getD .zero)) d)
     else x.da = some (.eigD (x.aFactor.getD .zero)) ∧ x.dg = some (.eigD (x.gFactor.getD .zero)))

theorem Refreshed_rfL (c : SCfg) (d : Rat) (x : SLayer) : Refreshed c d (rfL c d x) := by
  unfold Refreshed rfL
  cases c.method
  · cases c.prediv <;> simp
  · simp

theorem refresh_keep (c : SCfg) (d : Rat) (s : SSt) (l l' : Nat) (h : Refreshed c d (getS s l)) :
    Refreshed c d (getS (refresh c s l' d) l) := by
  rw [refresh_eq, getS_setS]
  split
  · exact Refreshed_rfL _ _ _
  · exact h

theorem refresh_est (c : SCfg) (d : Rat) (s : SSt) (l : Nat) (hl : l < s.layers.length) :
    Refreshed c d (getS (refresh c s l d) l) := by
  rw [refresh_eq, getS_setS_self _ _ _ hl]
  exact Refreshed_rfL _ _ _

theorem mem_revIdxs {c : SCfg} {l : Nat} : l ∈ revIdxs c ↔ l < c.nLayers := by
  simp [revIdxs, idxs]

theorem mem_idxs {c : SCfg} {l : Nat} : l ∈ idxs c ↔ l < c.nLayers := by
  simp [idxs]

theorem stepB_refreshed (c : SCfg) (d : Rat) (s : SSt) (l : Nat) (hl : l < c.nLayers)
    (hlen : s.layers.length = c.nLayers) : Refreshed c d (getS (stepB c true d s) l) := by
  unfold stepB
  simp only [if_true]
  refine foldl_estab (fun t => l < t.layers.length) (fun t => Refreshed c d (getS t l)) _ l
    (fun t a ht => ?_) (fun t a _ hp => refresh_keep c d t l a hp) (fun t ht => refresh_est c d t l ht)
    _ _ (by omega) (Or.inr (mem_revIdxs.mpr hl))
  rw [fr_len (fr_refresh c t a d)]; exact ht

/-! ### `fwdBwd` frames -/

theorem fwdBwd_off (c : SCfg) (s : SSt) (h : s.steps % s.hyper.fus.val s.steps ≠ 0) :
    fwdBwd c s true = { s with pass := s.pass + 1 } := by
  unfold fwdBwd
  simp [h]

theorem fwdBwd_steps (c : SCfg) (s : SSt) (t : Bool) : (fwdBwd c s t).steps = s.steps := by
  rw [fwdBwd_eq]
  split
  · rfl
  · split
    · rfl
    · show (passBody c _ s).steps = _; exact fr_steps (fr_passBody c _ s)

theorem resetBatch_fr (c : SCfg) (s : SSt) : fr (resetBatch c s) = fr s := by
  unfold resetBatch
  exact foldl_pres fr _ (fun t l => fr_setS _ _ _) _ _

/-- the scalar fields -/
def sc (s : SSt) : Nat × Hyper × List V × Nat × List Nat × Nat :=
  (s.steps, s.hyper, s.defs, s.pass, s.mini, s.layers.length)

theorem sc_setS (s : SSt) (l x) : sc (setS s l x) = sc s := by simp [sc]

theorem sc_refresh (c : SCfg) (s : SSt) (l : Nat) (d : Rat) : sc (refresh c s l d) = sc s := by
  rw [refresh_eq, sc_setS]

theorem sc_slCopy (c : SCfg) (s : SSt) : sc (slCopy c s) = sc (slFresh c s) :=
  foldl_pres sc _ (fun _ _ => sc_setS _ _ _) _ _

theorem sc_slFresh (c : SCfg) (s : SSt) :
    sc (slFresh c s) = (s.steps, s.hyper, s.defs, s.pass, List.replicate c.nLayers 0, c.nLayers) := by
  simp [sc, slFresh, SSt.init]

theorem sc_saveLoad (c : SCfg) (s : SSt) (f ci : Bool) :
    sc (saveLoad c s f ci) = (s.steps, s.hyper, s.defs, s.pass, List.replicate c.nLayers 0, c.nLayers) := by
  rw [saveLoad_eq]
  split
  · exact sc_slFresh c s
  · split
    · rw [sc_slCopy, sc_slFresh]
    · rw [foldl_pres sc _ (fun t l => sc_refresh c t l _), sc_slCopy, sc_slFresh]

/-- the scalar fields of a checkpoint round trip -/
theorem saveLoad_scalars (c : SCfg) (s : SSt) (f ci : Bool) :
    (saveLoad c s f ci).steps = s.steps ∧ (saveLoad c s f ci).hyper = s.hyper ∧
    (saveLoad c s f ci).defs = s.defs ∧ (saveLoad c s f ci).pass = s.pass ∧
    (saveLoad c s f ci).mini = List.replicate c.nLayers 0 ∧
    (saveLoad c s f ci).layers.length = c.nLayers := by
  have h := sc_saveLoad c s f ci
  simp only [sc, Prod.mk.injEq] at h
  exact h

theorem exec_steps (c : SCfg) (s : SSt) (op : Op) :
    (exec c s op).steps = if (match op with | .step => true | _ => false) then s.steps + 1 else s.steps := by
  cases op with
  | fwdBwd t => exact fwdBwd_steps c s t
  | step => simp only [exec, step_eq]; rfl
  | resetBatch => exact fr_steps (resetBatch_fr c s)
  | memUsage => rfl
  | save f => rfl
  | saveLoad f ci => exact (saveLoad_scalars c s f ci).1
  | setHyper h => rfl

/-! ### gating by the intervals -/

def facOf (x : SLayer) : Option V × Option V := (x.aFactor, x.gFactor)

theorem step_layers (c : SCfg) (s : SSt) (l : Nat) :
    getS (step c s) l =
      getS (stepB c (s.steps % s.hyper.ius.val s.steps == 0) (s.hyper.damping.val s.steps)
        (stepA c (!c.hook && s.steps % s.hyper.fus.val s.steps == 0) (s.hyper.decay.val s.steps) s)) l := by
  rw [step_eq]; rfl

theorem step_fac_off (c : SCfg) (s : SSt) (hoff : s.steps % s.hyper.fus.val s.steps ≠ 0) (l : Nat) :
    facOf (getS (step c s) l) = facOf (getS s l) ∧ (step c s).defs = s.defs := by
  have hb : (!c.hook && s.steps % s.hyper.fus.val s.steps == 0) = false := by simp [hoff]
  constructor
  · rw [step_layers, hb, stepB_proj facOf (fun _ _ _ _ _ _ _ _ => rfl)]
    rfl
  · rw [step_eq, hb]
    show (stepB _ _ _ _).defs = _
    rw [stepB_defs]; rfl

theorem step_so_off (c : SCfg) (s : SSt) (hoff : s.steps % s.hyper.ius.val s.steps ≠ 0) (l : Nat) :
    C05.soOf (getS (step c s) l) = C05.soOf (getS s l) := by
  have hb : (s.steps % s.hyper.ius.val s.steps == 0) = false := by simp [hoff]
  rw [step_layers, hb]
  show C05.soOf (getS (stepA _ _ _ _) l) = _
  exact stepA_proj C05.soOf (fun _ _ _ _ _ => rfl) _ _ _ _ _

theorem step_refreshed (c : SCfg) (s : SSt) (hon : s.steps % s.hyper.ius.val s.steps = 0)
    (l : Nat) (hl : l < c.nLayers) (hlen : s.layers.length = c.nLayers) :
    Refreshed c (s.hyper.damping.val s.steps) (getS (step c s) l) := by
  have hb : (s.steps % s.hyper.ius.val s.steps == 0) = true := by simp [hon]
  rw [step_layers, hb]
  exact stepB_refreshed c _ _ l hl ((fr_len (fr_stepA c _ _ s)).trans hlen)

/-! ### schedules -/

/-- replace the hyper-parameters -/
def wh (h : Hyper) (s : SSt) : SSt := { s with hyper := h }

theorem updateReduce_wh (c : SCfg) (h : Hyper) (s : SSt) (l : Nat) (isA : Bool) (α : Rat) :
    updateReduce c (wh h s) l isA α = wh h (updateReduce c s l isA α) := by
  rw [updateReduce_eq, updateReduce_eq]
  have e : getS (wh h s) l = getS s l := rfl
  rw [e]
  cases urVals c (getS s l) l isA α with
  | none => rfl
  | some v =>
    dsimp only
    split <;> rfl

theorem refresh_wh (c : SCfg) (h : Hyper) (s : SSt) (l : Nat) (d : Rat) :
    refresh c (wh h s) l d = wh h (refresh c s l d) := by
  rw [refresh_eq, refresh_eq]; rfl

theorem stepA_wh (c : SCfg) (h : Hyper) (b : Bool) (α : Rat) (s : SSt) :
    stepA c b α (wh h s) = wh h (stepA c b α s) := by
  unfold stepA
  split
  · refine foldl_comm (wh h) _ (fun t l => ?_) _ _
    dsimp only
    rw [← updateReduce_wh, ← updateReduce_wh]; rfl
  · rfl

theorem stepB_wh (c : SCfg) (h : Hyper) (b : Bool) (d : Rat) (s : SSt) :
    stepB c b d (wh h s) = wh h (stepB c b d s) := by
  unfold stepB
  split
  · exact foldl_comm (wh h) _ (fun t l => refresh_wh c h t l d) _ _
  · rfl

theorem stepOut_wh (c : SCfg) (h : Hyper) (d : Rat) (kl : Option Rat) (lr : Rat) (s : SSt) :
    stepOut c d kl lr (wh h s) = stepOut c d kl lr s := rfl

theorem step_wh (c : SCfg) (s : SSt) (h' : Hyper)
    (e1 : h'.fus.val s.steps = s.hyper.fus.val s.steps) (e2 : h'.ius.val s.steps = s.hyper.ius.val s.steps)
    (e3 : h'.damping.val s.steps = s.hyper.damping.val s.steps) (e4 : h'.decay.val s.steps = s.hyper.decay.val s.steps)
    (e5 : h'.kl.val s.steps = s.hyper.kl.val s.steps) (e6 : h'.lr.val s.steps = s.hyper.lr.val s.steps) :
    step c (wh h' s) = wh h' (step c s) := by
  rw [step_eq, step_eq]
  show _ = wh h' _
  have p1 : (wh h' s).steps = s.steps := rfl
  have p2 : (wh h' s).hyper = h' := rfl
  simp only [p1, p2, e1, e2, e3, e4, e5, e6, stepA_wh, stepB_wh, stepOut_wh]
  rfl

theorem step_sched (c : SCfg) (s : SSt) (h' : Hyper)
    (e1 : h'.fus.val s.steps = s.hyper.fus.val s.steps) (e2 : h'.ius.val s.steps = s.hyper.ius.val s.steps)
    (e3 : h'.damping.val s.steps = s.hyper.damping.val s.steps) (e4 : h'.decay.val s.steps = s.hyper.decay.val s.steps)
    (e5 : h'.kl.val s.steps = s.hyper.kl.val s.steps) (e6 : h'.lr.val s.steps = s.hyper.lr.val s.steps) :
    (step c s).out = (step c { s with hyper := h' }).out ∧ (step c s).layers = (step c { s with hyper := h' }).layers ∧
    (step c s).defs = (step c { s with hyper := h' }).defs ∧ (step c s).steps = (step c { s with hyper := h' }).steps := by
  have h := step_wh c s h' e1 e2 e3 e4 e5 e6
  unfold wh at h
  rw [h]
  exact ⟨rfl, rfl, rfl, rfl⟩

theorem precond_damping (c : SCfg) (s : SSt) (l : Nat) (d d' : Rat)
    (hm : c.method = .inverse ∨ c.prediv = true) : precond c s l d = precond c s l d' := by
  unfold precond
  rcases hm with hm | hm
  · simp [hm]
  · cases c.method <;> simp [hm]

end KV.Spec
