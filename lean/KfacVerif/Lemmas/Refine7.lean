/-
Refinement Precond ⟶ Spec, part 7: `KFACPreconditioner.step()` ⟷ `Spec.step`.  Core Lean only.
-/
import KfacVerif.Lemmas.Refine6
namespace KV.Refine
open KV KV.Precond

theorem foldl_setL_err' (r : Nat) (F : St → Nat → LState) (xs : List Nat) (s : St) :
    (xs.foldl (fun s l => setL s r l (F s l)) s).err = s.err :=
  foldl_err_eq (fun s l => setL s r l (F s l)) (fun _ _ => rfl) xs s

def facStep (c : Cfg) (alpha : Rat) (s : St) (l : Nat) : St :=
  let s := { s with mini := s.mini.set l 0 }
  let s := forRanks c s fun s r => updateFactor s r l true alpha
  let s := reduceFactor c s l true
  let s := forRanks c s fun s r => updateFactor s r l false alpha
  reduceFactor c s l false

def clipStep (r : Nat) (s : St) (l : Nat) : St :=
  let x := getL s r l
  let (s, gr) := readSlot s r x.grad
  if gr.isNone then fail s r "layer gradient has not been preconditioned" else
  setL s r l { getL s r l with grad := gr }

def clipRead (c : Cfg) (s : St) : St :=
  forRanks c s fun s r => (revLayers c).foldl (clipStep r) s

def outsOf (c : Cfg) (s : St) (kl : Option Rat) (lr : Rat) : List (List V) :=
  (worldRanks c).map fun r =>
    let vs := (layerIdxs c).map fun l => (((getL s r l).grad).map (·.val)).getD .garbage
    match kl with
    | none => vs
    | some k =>
      let sum := (revLayers c).foldl (fun acc l =>
        let v := vs.getD l .garbage
        let t := V.inner v (.rawGrad l s.steps)
        match acc with | none => some t | some a => some (V.add a t)) (none : Option V)
      let n := V.nu k lr (sum.getD .zero)
      vs.map fun v => V.scale n v

def clearGrads (c : Cfg) (s : St) : St :=
  forRanks c s fun s r => (layerIdxs c).foldl (fun s l => setL s r l { getL s r l with grad := none }) s

theorem stepAll_eq (c : Cfg) (s : St) :
    stepAll c s =
      let fus := s.hyper.fus.val s.steps
      let ius := s.hyper.ius.val s.steps
      let damping := s.hyper.damping.val s.steps
      let alpha := s.hyper.decay.val s.steps
      let s1 := if !c.hook && s.steps % fus == 0 then (revLayers c).foldl (facStep c alpha) s else s
      let s2 := flushBucket c s1
      let s3 := if s2.steps % ius == 0 then flushBucket c ((revLayers c).foldl (invStep c damping) s2) else s2
      let s4 := flushBucket c ((revLayers c).foldl (gradStep c damping) s3)
      let s5 := clipRead c s4
      let s6 := clearGrads c s5
      { s6 with steps := s6.steps + 1, mini := List.replicate c.layers.length 0, outGrads := outsOf c s5 (s4.hyper.kl.val s4.steps) (s4.hyper.lr.val s4.steps) } := rfl

def sFacStep (c : Spec.SCfg) (alpha : Rat) (t : Spec.SSt) (l : Nat) : Spec.SSt :=
  let t := { t with mini := t.mini.set l 0 }
  Spec.updateReduce c (Spec.updateReduce c t l true alpha) l false alpha

def sOut (c : Spec.SCfg) (t : Spec.SSt) (d : Rat) : List V :=
  let vs := (Spec.idxs c).map fun l => Spec.precond c t l d
  match t.hyper.kl.val t.steps with
  | none => vs
  | some k =>
    let sum := (Spec.revIdxs c).foldl (fun acc l =>
      let t' := V.inner (vs.getD l .garbage) (.rawGrad l t.steps)
      match acc with | none => some t' | some a => some (V.add a t')) (none : Option V)
    let n := V.nu k (t.hyper.lr.val t.steps) (sum.getD .zero)
    vs.map fun v => V.scale n v

theorem sStep_eq (c : Spec.SCfg) (t : Spec.SSt) :
    Spec.step c t =
      let fus := t.hyper.fus.val t.steps
      let ius := t.hyper.ius.val t.steps
      let damping := t.hyper.damping.val t.steps
      let alpha := t.hyper.decay.val t.steps
      let t1 := if !c.hook && t.steps % fus == 0 then (Spec.revIdxs c).foldl (sFacStep c alpha) t else t
      let t2 := if t1.steps % ius == 0 then (Spec.revIdxs c).foldl (fun t l => Spec.refresh c t l damping) t1 else t1
      { t2 with steps := t2.steps + 1, mini := List.replicate c.nLayers 0, out := sOut c t2 damping } := rfl

/-! ### the factor phase of `step()` -/

theorem facStep_ok {c α s l} (he : OK (facStep c α s l)) : OK s := by
  unfold facStep at he
  simp only [] at he
  have h1 := reduceFactor_ok he
  rw [OK, updateAll_err] at h1
  have h2 := reduceFactor_ok h1
  rw [OK, updateAll_err] at h2
  exact h2

theorem facStep_rel {c s t} (hw0 : 0 < c.world) (α : Rat) {l : Nat} (hl : l < c.layers.length)
    (h : Rel c s t) (he : OK (facStep c α s l)) :
    Rel c (facStep c α s l) (sFacStep (Spec.ofCfg c) α t l) := by
  unfold facStep at he ⊢
  unfold sFacStep
  simp only [] at he ⊢
  have h0 := h.setMini (s.mini.set l 0)
  rw [← h.mini]
  have o1 : OK (reduceFactor c (forRanks c { s with mini := s.mini.set l 0 }
      fun s r => updateFactor s r l true α) l true) := by
    have h1 := reduceFactor_ok he
    rw [OK, updateAll_err] at h1
    exact h1
  have h1 := updRed_rel hw0 h0 hl true α o1
  exact updRed_rel hw0 h1 hl false α he

/-! ### gradients do not matter for the relation -/

theorem CellRel.of_noGrad {c r l v v' y} (h : CellRel c r l v y) (e : noGrad v' = noGrad v) :
    CellRel c r l v' y := by
  obtain ⟨a1, a2, a3, a4, a5, a6, a7, a8, a9, a10, a11, a12, a13, a14⟩ := v
  obtain ⟨b1, b2, b3, b4, b5, b6, b7, b8, b9, b10, b11, b12, b13, b14⟩ := v'
  simp only [noGrad, LV.mk.injEq, and_true] at e
  obtain ⟨rfl, rfl, rfl, rfl, rfl, rfl, rfl, rfl, rfl, rfl, rfl, rfl, rfl⟩ := e
  exact ⟨h.aBatch, h.aCount, h.gBatch, h.gCount, h.aFactor, h.gFactor, h.so⟩

theorem Rel.noGrad {c s s' t} (h : Rel c s t) (hsm : Same s s') (hsh : Shape c s')
    (hng : ∀ r l, noGrad (cell s' r l) = noGrad (cell s r l)) : Rel c s' t :=
  ⟨hsm.steps.trans h.steps, hsm.mini.trans h.mini, hsm.pass.trans h.pass, hsm.hyper.trans h.hyper,
   hsm.defs.trans h.defs, fun r hr => by rw [hsm.outGrads]; exact h.out r hr, hsh, h.tlen,
   fun l hl => ⟨(h.lay l hl).1, fun r hr => ((h.lay l hl).2 r hr).of_noGrad (hng r l)⟩⟩

theorem pgOf_noGrad (m p l steps d) {v v' : LV} (e : noGrad v' = noGrad v) :
    pgOf m p l steps d v' = pgOf m p l steps d v := by
  obtain ⟨a1, a2, a3, a4, a5, a6, a7, a8, a9, a10, a11, a12, a13, a14⟩ := v
  obtain ⟨b1, b2, b3, b4, b5, b6, b7, b8, b9, b10, b11, b12, b13, b14⟩ := v'
  simp only [noGrad, LV.mk.injEq, and_true] at e
  obtain ⟨rfl, rfl, rfl, rfl, rfl, rfl, rfl, rfl, rfl, rfl, rfl, rfl, rfl⟩ := e
  rfl

theorem pgOf_SO {c : Cfg} {v : LV} {t : Spec.SSt} {l : Nat} (d : Rat) (h : SO c v (Spec.getS t l)) :
    pgOf c.method c.prediv l t.steps d v = Spec.precond (Spec.ofCfg c) t l d := by
  unfold pgOf Spec.precond SO at *
  simp only [Spec.ofCfg]
  cases hm : c.method <;> simp only [hm] at h ⊢
  · by_cases hp : c.prediv = true
    · simp only [hp, if_true] at h ⊢
      rw [h.1, h.2.1, h.2.2]
    · simp only [hp, if_false, Bool.false_eq_true] at h ⊢
      rw [h.1, h.2.1, h.2.2.1, h.2.2.2]
  · rw [h.1, h.2]

/-! ### the gradient phase over all layers -/

theorem gradPhase {c s t} (hc : CfgOK c) (h : Rel c s t) (d : Rat)
    (he : OK ((revLayers c).foldl (gradStep c d) s)) :
    Same s ((revLayers c).foldl (gradStep c d) s) ∧ Shape c ((revLayers c).foldl (gradStep c d) s) ∧
    (∀ r l, noGrad (cell ((revLayers c).foldl (gradStep c d) s) r l) = noGrad (cell s r l)) ∧
    ∀ l, l < c.layers.length → ∀ r, r < c.world →
      (cell ((revLayers c).foldl (gradStep c d) s) r l).grad = some (Spec.precond (Spec.ofCfg c) t l d) := by
  let Inv : St → Prop := fun s' => Same s s' ∧ Shape c s' ∧ ∀ r l, noGrad (cell s' r l) = noGrad (cell s r l)
  have hstep : ∀ s' l, l ∈ revLayers c → Inv s' → OK (gradStep c d s' l) →
      GradEff c s' (gradStep c d s' l) l (Spec.precond (Spec.ofCfg c) t l d) := by
    intro s' l hl ⟨i1, i2, i3⟩ hok
    have hl' := mem_revLayers.mp hl
    refine gradStep_eff hc i2 hl' d _ (fun r hr => ?_) hok
    rw [pgOf_noGrad _ _ _ _ _ (i3 r l), i1.steps, h.steps]
    exact pgOf_SO d (((h.lay l hl').2 r (hc.workers_lt l r hr)).so hr)
  have hinv : ∀ s' l, l ∈ revLayers c → Inv s' → OK (gradStep c d s' l) → Inv (gradStep c d s' l) := by
    intro s' l hl hi hok
    have ge := hstep s' l hl hi hok
    obtain ⟨i1, i2, i3⟩ := hi
    exact ⟨i1.trans ge.same, ge.shape, fun r l' => (ge.ng r l').trans (i3 r l')⟩
  have hinv0 : Inv s := ⟨Same.refl _, h.shape, fun _ _ => rfl⟩
  have hfin := foldl_inv Inv (gradStep c d) (revLayers c) s (fun s l => gradStep_ok) hinv hinv0 he
  refine ⟨hfin.1, hfin.2.1, hfin.2.2, fun l hl r hr => ?_⟩
  exact (foldl_est Inv (fun s' => ∀ r, r < c.world → (cell s' r l).grad = some (Spec.precond (Spec.ofCfg c) t l d))
    (gradStep c d) (revLayers c) l (mem_revLayers.mpr hl) (fun s l => gradStep_ok) hinv
    (fun s' l' hl' hi hg hok r hr => by
      have ge := hstep s' l' hl' hi hok
      by_cases e : l = l'
      · subst e; exact ge.grad r hr
      · rw [ge.other r l e]; exact hg r hr)
    (fun s' hi hok => (hstep s' l (mem_revLayers.mpr hl) hi hok).grad) s hinv0 he).2 r hr

/-! ### reading and clearing the gradients -/

theorem clipStep_ok {r s l} (he : OK (clipStep r s l)) : OK s := by
  unfold clipStep at he
  norm_reads at he
  step_ok he

theorem clipStep_neutral {c s} (hs : Shape c s) {r l : Nat} (hr : r < c.world) (hl : l < c.layers.length)
    (he : OK (clipStep r s l)) : Neutral c s (clipStep r s l) := by
  have e : Eff c s (clipStep r s l) (fun r' l' => r' = r ∧ l' = l) (fun _ _ v => v) := by
    revert he
    unfold clipStep
    norm_reads
    step_leaves hs hr hl []
  exact e.neutral

theorem clipRead_ok {c s} (he : OK (clipRead c s)) : OK s := by
  unfold clipRead forRanks at he
  exact foldl_ok _ (fun s r h => foldl_ok _ (fun s l => clipStep_ok) _ _ h) _ _ he

theorem clipRead_neutral {c s} (hs : Shape c s) (he : OK (clipRead c s)) : Neutral c s (clipRead c s) := by
  unfold clipRead forRanks at he ⊢
  refine foldl_neutral c (fun s r => (revLayers c).foldl (clipStep r) s) (worldRanks c) s
    (fun s r h => foldl_ok _ (fun s l => clipStep_ok) _ _ h) (fun s' r hr hsh hok => ?_) hs he
  exact foldl_neutral c (clipStep r) (revLayers c) s' (fun s l => clipStep_ok)
    (fun s'' l hl hsh' hok' => clipStep_neutral hsh' (mem_worldRanks.mp hr) (mem_revLayers.mp hl) hok') hsh hok

theorem clearGrads_err (c : Cfg) (s : St) : (clearGrads c s).err = s.err := by
  unfold clearGrads forRanks
  exact foldl_err_eq _ (fun s r => foldl_setL_err' r _ _ s) _ _

theorem clearGrads_eff {c s} (hs : Shape c s) :
    Same s (clearGrads c s) ∧ Shape c (clearGrads c s) ∧
    ∀ r l, noGrad (cell (clearGrads c s) r l) = noGrad (cell s r l) := by
  let P : St → Prop := fun s' => Same s s' ∧ Shape c s' ∧ ∀ r l, noGrad (cell s' r l) = noGrad (cell s r l)
  have hstep : ∀ s' r l, r < c.world → l < c.layers.length → P s' →
      P (setL s' r l { getL s' r l with grad := none }) := by
    intro s' r l hr hl ⟨p1, p2, p3⟩
    have e := Eff.setL p2 hr hl { getL s' r l with grad := none } (fun _ _ v => noGrad v) rfl
    refine ⟨p1.trans e.same, e.shape, fun r' l' => ?_⟩
    by_cases k : r' = r ∧ l' = l
    · rw [e.hit r' l' k]; exact p3 r' l'
    · rw [e.miss r' l' k]; exact p3 r' l'
  unfold clearGrads forRanks
  have hT : ∀ (f : St → Nat → St) (xs : List Nat) (s0 : St), P s0 →
      (∀ s' x, x ∈ xs → P s' → P (f s' x)) → P (xs.foldl f s0) := by
    intro f xs
    induction xs with
    | nil => intro s0 h _; exact h
    | cons a t ih =>
      intro s0 h hs'
      exact ih _ (hs' s0 a (by simp) h) (fun s' x hx => hs' s' x (by simp [hx]))
  exact hT _ _ s ⟨Same.refl _, hs, fun _ _ => rfl⟩
    (fun s' r hr hp => hT _ _ s' hp
      (fun s'' l hl hp' => hstep s'' r l (mem_worldRanks.mp hr) (mem_layerIdxs.mp hl) hp'))

/-- every rank computes the reference machine's output -/
theorem outs_eq {c : Cfg} {s : St} {t : Spec.SSt} (kl : Option Rat) (lr d : Rat)
    (hsteps : s.steps = t.steps) (hkl : kl = t.hyper.kl.val t.steps) (hlr : lr = t.hyper.lr.val t.steps)
    (hg : ∀ l, l < c.layers.length → ∀ r, r < c.world →
      (cell s r l).grad = some (Spec.precond (Spec.ofCfg c) t l d))
    (r : Nat) (hr : r < c.world) :
    (outsOf c s kl lr).getD r [] = sOut (Spec.ofCfg c) t d := by
  unfold outsOf
  rw [show worldRanks c = List.range c.world from rfl, getD_map_range _ _ _ _ hr]
  have hvs : ((layerIdxs c).map fun l => (((getL s r l).grad).map (·.val)).getD .garbage) =
      (Spec.idxs (Spec.ofCfg c)).map fun l => Spec.precond (Spec.ofCfg c) t l d := by
    show ((layerIdxs c).map _) = ((layerIdxs c).map _)
    apply List.map_congr_left
    intro l hl
    have := hg l (mem_layerIdxs.mp hl) r hr
    show ((cell s r l).grad).getD .garbage = _
    rw [this]; rfl
  simp only []
  rw [hvs, hkl, hlr, hsteps]
  rfl

/-! ### `step()` -/

def gradTail (c : Cfg) (d : Rat) (s3 : St) : St :=
  let s4 := flushBucket c ((revLayers c).foldl (gradStep c d) s3)
  let s5 := clipRead c s4
  let s6 := clearGrads c s5
  { s6 with steps := s6.steps + 1, mini := List.replicate c.layers.length 0,
            outGrads := outsOf c s5 (s4.hyper.kl.val s4.steps) (s4.hyper.lr.val s4.steps) }

def sTail (c : Spec.SCfg) (d : Rat) (t2 : Spec.SSt) : Spec.SSt :=
  { t2 with steps := t2.steps + 1, mini := List.replicate c.nLayers 0, out := sOut c t2 d }

def stepWith (c : Cfg) (s : St) (b1 : Bool) (ius : Nat) (d α : Rat) : St :=
  let s1 := if b1 then (revLayers c).foldl (facStep c α) s else s
  let s2 := flushBucket c s1
  let s3 := if s2.steps % ius == 0 then flushBucket c ((revLayers c).foldl (invStep c d) s2) else s2
  gradTail c d s3

def sStepWith (c : Spec.SCfg) (t : Spec.SSt) (b1 : Bool) (ius : Nat) (d α : Rat) : Spec.SSt :=
  let t1 := if b1 then (Spec.revIdxs c).foldl (sFacStep c α) t else t
  let t2 := if t1.steps % ius == 0 then (Spec.revIdxs c).foldl (fun t l => Spec.refresh c t l d) t1 else t1
  sTail c d t2

theorem stepAll_eq' (c : Cfg) (s : St) :
    stepAll c s = stepWith c s (!c.hook && s.steps % s.hyper.fus.val s.steps == 0) (s.hyper.ius.val s.steps)
      (s.hyper.damping.val s.steps) (s.hyper.decay.val s.steps) := rfl

theorem sStep_eq' (c : Spec.SCfg) (t : Spec.SSt) :
    Spec.step c t = sStepWith c t (!c.hook && t.steps % t.hyper.fus.val t.steps == 0) (t.hyper.ius.val t.steps)
      (t.hyper.damping.val t.steps) (t.hyper.decay.val t.steps) := rfl

theorem gradTail_ok {c d s3} (he : OK (gradTail c d s3)) :
    OK (clipRead c (flushBucket c ((revLayers c).foldl (gradStep c d) s3))) := by
  unfold gradTail at he
  simp only [] at he
  have : OK (clearGrads c (clipRead c (flushBucket c ((revLayers c).foldl (gradStep c d) s3)))) := he
  rwa [OK, clearGrads_err] at this

theorem gradTail_rel {c s t} (hc : CfgOK c) (h : Rel c s t) (d : Rat) (he : OK (gradTail c d s)) :
    Rel c (gradTail c d s) (sTail (Spec.ofCfg c) d t) := by
  have o5 := gradTail_ok he
  have o4 := clipRead_ok o5
  have o3 : OK ((revLayers c).foldl (gradStep c d) s) := by rwa [OK, flushBucket_err] at o4
  obtain ⟨g1, g2, g3, g4⟩ := gradPhase hc h d o3
  unfold gradTail sTail
  simp only []
  generalize (revLayers c).foldl (gradStep c d) s = s3' at *
  have n4 := flushBucket_neutral g2
  generalize flushBucket c s3' = s4 at *
  have n5 := clipRead_neutral n4.2.1 o5
  generalize clipRead c s4 = s5 at *
  obtain ⟨k1, k2, k3⟩ := clearGrads_eff n5.2.1
  generalize clearGrads c s5 = s6 at *
  -- globals
  have hsame : Same s s6 := ((g1.trans n4.1).trans n5.1).trans k1
  have hng : ∀ r l, noGrad (cell s6 r l) = noGrad (cell s r l) := by
    intro r l
    rw [k3, n5.2.2, n4.2.2]; exact g3 r l
  have hrel := h.noGrad hsame k2 hng
  have h4s : s4.steps = t.steps := (g1.trans n4.1).steps.trans h.steps
  have h4h : s4.hyper = t.hyper := (g1.trans n4.1).hyper.trans h.hyper
  have h5s : s5.steps = t.steps := n5.1.steps.trans h4s
  have hgr : ∀ l, l < c.layers.length → ∀ r, r < c.world →
      (cell s5 r l).grad = some (Spec.precond (Spec.ofCfg c) t l d) := by
    intro l hl r hr
    rw [n5.2.2, n4.2.2]; exact g4 l hl r hr
  refine ⟨?_, rfl, hrel.pass, hrel.hyper, hrel.defs, fun r hr => ?_, k2.of_ranks rfl, hrel.tlen, hrel.lay⟩
  · show s6.steps + 1 = t.steps + 1
    rw [hrel.steps]
  · show (outsOf c s5 _ _).getD r [] = sOut (Spec.ofCfg c) t d
    exact outs_eq _ _ d h5s (by rw [h4s, h4h]) (by rw [h4s, h4h]) hgr r hr

theorem invPhase_ok {c : Cfg} {b : Bool} {d : Rat} {s2 : St}
    (h : OK (if b = true then flushBucket c ((revLayers c).foldl (invStep c d) s2) else s2)) : OK s2 := by
  cases b
  · exact h
  · simp only [if_true] at h
    rw [OK, flushBucket_err] at h
    exact foldl_ok _ (fun s l => invStep_ok) _ _ h

theorem facPhase_ok {c : Cfg} {b : Bool} {α : Rat} {s : St}
    (h : OK (if b = true then (revLayers c).foldl (facStep c α) s else s)) : OK s := by
  cases b
  · exact h
  · simp only [if_true] at h
    exact foldl_ok _ (fun s l => facStep_ok) _ _ h

theorem stepWith_ok {c s b1 ius d α} (he : OK (stepWith c s b1 ius d α)) : OK s := by
  unfold stepWith at he
  simp only [] at he
  have o5 := gradTail_ok he
  have o4 := clipRead_ok o5
  rw [OK, flushBucket_err] at o4
  have o3 := foldl_ok _ (fun s l => gradStep_ok) _ _ o4
  have o2 : OK (flushBucket c (if b1 = true then (revLayers c).foldl (facStep c α) s else s)) :=
    invPhase_ok o3
  rw [OK, flushBucket_err] at o2
  exact facPhase_ok o2

theorem stepWith_rel {c s t} (hc : CfgOK c) (h : Rel c s t) (b1 : Bool) (ius : Nat) (d α : Rat)
    (he : OK (stepWith c s b1 ius d α)) :
    Rel c (stepWith c s b1 ius d α) (sStepWith (Spec.ofCfg c) t b1 ius d α) := by
  unfold stepWith at he ⊢
  unfold sStepWith
  simp only [] at he ⊢
  have e1 : Spec.revIdxs (Spec.ofCfg c) = revLayers c := rfl
  rw [e1]
  -- OK of the prefixes
  have o5 := gradTail_ok he
  have o4 := clipRead_ok o5
  rw [OK, flushBucket_err] at o4
  have o3 := foldl_ok _ (fun s l => gradStep_ok) _ _ o4
  have o2 : OK (flushBucket c (if b1 = true then (revLayers c).foldl (facStep c α) s else s)) :=
    invPhase_ok o3
  have o1 : OK (if b1 = true then (revLayers c).foldl (facStep c α) s else s) := by
    rwa [OK, flushBucket_err] at o2
  -- factor phase
  have h1 : Rel c (if b1 = true then (revLayers c).foldl (facStep c α) s else s)
      (if b1 = true then (revLayers c).foldl (sFacStep (Spec.ofCfg c) α) t else t) := by
    cases b1
    · exact h
    · simp only [if_true] at o1 ⊢
      exact foldl_rel (Rel c) (facStep c α) (sFacStep (Spec.ofCfg c) α) (revLayers c)
        (fun s l => facStep_ok)
        (fun s t l hl h he => facStep_rel hc.world_pos α (mem_revLayers.mp hl) h he) s t h o1
  generalize (if b1 = true then (revLayers c).foldl (facStep c α) s else s) = s1 at *
  generalize (if b1 = true then (revLayers c).foldl (sFacStep (Spec.ofCfg c) α) t else t) = t1 at *
  have h2 := h1.neutral (flushBucket_neutral h1.shape)
  generalize flushBucket c s1 = s2 at *
  -- inverse phase
  rw [← h2.steps]
  have h3 : Rel c (if (s2.steps % ius == 0) = true then flushBucket c ((revLayers c).foldl (invStep c d) s2) else s2)
      (if (s2.steps % ius == 0) = true then (revLayers c).foldl (fun t l => Spec.refresh (Spec.ofCfg c) t l d) t1
       else t1) := by
    by_cases hb : (s2.steps % ius == 0) = true
    · rw [if_pos hb] at o3
      rw [if_pos hb, if_pos hb]
      rw [OK, flushBucket_err] at o3
      have := foldl_rel (Rel c) (invStep c d) (fun t l => Spec.refresh (Spec.ofCfg c) t l d) (revLayers c)
        (fun s l => invStep_ok)
        (fun s t l hl h he => invStep_rel hc h (mem_revLayers.mp hl) d he) s2 t1 h2 o3
      exact this.neutral (flushBucket_neutral this.shape)
    · rw [if_neg hb, if_neg hb]
      exact h2
  exact gradTail_rel hc h3 d he

theorem stepAll_rel {c s t} (hc : CfgOK c) (h : Rel c s t) (he : OK (stepAll c s)) :
    Rel c (stepAll c s) (Spec.step (Spec.ofCfg c) t) := by
  rw [stepAll_eq'] at he ⊢
  rw [sStep_eq']
  have e1 : (!(Spec.ofCfg c).hook && t.steps % t.hyper.fus.val t.steps == 0) =
      (!c.hook && s.steps % s.hyper.fus.val s.steps == 0) := by rw [h.steps, h.hyper]; rfl
  have e2 : t.hyper.ius.val t.steps = s.hyper.ius.val s.steps := by rw [h.steps, h.hyper]
  have e3 : t.hyper.damping.val t.steps = s.hyper.damping.val s.steps := by rw [h.steps, h.hyper]
  have e4 : t.hyper.decay.val t.steps = s.hyper.decay.val s.steps := by rw [h.steps, h.hyper]
  rw [e1, e2, e3, e4]
  exact stepWith_rel hc h _ _ _ _ he

theorem stepAll_ok {c s} (he : OK (stepAll c s)) : OK s := by
  rw [stepAll_eq'] at he
  exact stepWith_ok he

end KV.Refine
