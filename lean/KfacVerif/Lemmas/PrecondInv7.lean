/-
Invariants of the M-Precond state machine, part 7: iteration blocks and boundaries; the script of a
history of whole iterations is stall-free.  Core Lean only.
-/
import KfacVerif.Lemmas.PrecondInv6

namespace KV.PI
open KV KV.Precond
open KV.Sched2 (eventsOf wfAux wf Events)

/-- the counters right after `step()` -/
def Z (c : Cfg) : List Nat := List.replicate c.layers.length 0

theorem MiniIs_Z (c : Cfg) : MiniIs c (Z c) 0 :=
  ⟨by simp [Z], fun l _ => getD_replicate_zero _ l⟩

/-- inside an iteration, after at most `k` training passes -/
def Pk (c : Cfg) (k : Nat) (s : St) : Prop :=
  ∃ μ, Good false c μ s ∧ stallFree s ∧
    (s.err = none → ∃ b, QB b s ∧ ∃ j, j ≤ k ∧ MiniIs c μ j ∧ ((j < c.accum ∨ c.hook = false) → b = []))

/-- at an iteration boundary -/
def Bd (c : Cfg) (s : St) : Prop :=
  ∃ μ, Good false c μ s ∧ stallFree s ∧ (s.err = none → Good true c (Z c) s)

theorem Bd.ofStrict {c s} (g : Good true c (Z c) s) : Bd c s :=
  ⟨Z c, g.weaken false, g.sF rfl, fun _ => g⟩

theorem Bd.init (c : Cfg) (h : Hyper) : Bd c (St.init c h) := Bd.ofStrict (Good.init c h)

theorem Bd.toP0 {c s} (h : Bd c s) : Pk c 0 s := by
  obtain ⟨μ, g, sf, hs⟩ := h
  cases he : s.err with
  | some e => exact ⟨μ, g, sf, fun h => by rw [he] at h; cases h⟩
  | none =>
    have g' := hs he
    exact ⟨Z c, g'.weaken false, sf, fun _ => ⟨[], g'.toQB, 0, Nat.le_refl 0, MiniIs_Z c, fun _ => rfl⟩⟩

theorem exec_err (c : Cfg) (s : St) (op : Op) (h : s.err.isSome = true) : Precond.exec c s op = s := by
  unfold Precond.exec
  simp [h]

theorem fires_false {c : Cfg} {j1 : Nat} (hj : 0 < j1) (h : j1 < c.accum ∨ c.hook = false) :
    fires c j1 = false := by
  unfold fires
  rcases h with h | h
  · have : j1 % c.accum = j1 := Nat.mod_eq_of_lt h
    have h0 : (j1 == 0) = false := by
      cases hb : (j1 == 0)
      · rfl
      · have := beq_iff_eq.mp hb; omega
    rw [this, h0, Bool.and_false]
  · rw [h, Bool.false_and]

theorem pass_step {c s} (hw : 0 < c.world) (k : Nat) (hk : k < c.accum) (h : Pk c k s) :
    Pk c (k + 1) (Precond.exec c s (.fwdBwd true)) := by
  obtain ⟨μ, g, sf, hs⟩ := h
  cases he : s.err with
  | some e =>
    rw [exec_err c s _ (by simp [he])]
    exact ⟨μ, g, sf, fun h => by rw [he] at h; cases h⟩
  | none =>
    obtain ⟨b, hq, j, hj, hμ, hb⟩ := hs he
    have hb0 : b = [] := hb (Or.inl (by omega))
    subst hb0
    have hexec : Precond.exec c s (.fwdBwd true) = Precond.fwdBwd c s true := by
      unfold Precond.exec
      simp [he]
    rw [hexec]
    obtain ⟨μ', b', g', q', hcase⟩ := pass_ok hw j g hq hμ
    refine ⟨μ', g', q'.sf, fun _ => ⟨b', q', ?_⟩⟩
    rcases hcase with ⟨hμ', hb'⟩ | ⟨hμ', hb'⟩
    · exact ⟨j, by omega, hμ', fun _ => hb'⟩
    · exact ⟨j + 1, by omega, hμ', fun hh => hb' (fires_false (by omega) hh)⟩

theorem run_cons (c : Cfg) (s : St) (op : Op) (ops : List Op) :
    Precond.run c s (op :: ops) = Precond.run c (Precond.exec c s op) ops := rfl

theorem run_append (c : Cfg) (s : St) (a b : List Op) :
    Precond.run c s (a ++ b) = Precond.run c (Precond.run c s a) b := by
  simp [Precond.run, List.foldl_append]

theorem passes {c} (hw : 0 < c.world) (n : Nat) :
    ∀ (k : Nat) (s : St), k + n ≤ c.accum → Pk c k s →
      Pk c (k + n) (Precond.run c s (List.replicate n (.fwdBwd true))) := by
  induction n with
  | zero => intro k s _ h; exact h
  | succ n ih =>
    intro k s hk h
    rw [List.replicate_succ, run_cons]
    have := ih (k + 1) _ (by omega) (pass_step hw k (by omega) h)
    rw [show k + (n + 1) = k + 1 + n by omega]
    exact this

theorem step_ok {c s} (ha : AsgOK c) (h : Pk c c.accum s) : Bd c (Precond.exec c s .step) := by
  obtain ⟨μ, g, sf, hs⟩ := h
  cases he : s.err with
  | some e =>
    rw [exec_err c s _ (by simp [he])]
    exact ⟨μ, g, sf, fun h => by rw [he] at h; cases h⟩
  | none =>
    obtain ⟨b, hq, j, hj, hμ, hb⟩ := hs he
    have hexec : Precond.exec c s .step = Precond.stepAll c s := by
      unfold Precond.exec
      simp [he]
    rw [hexec, stepAll_eq]
    obtain ⟨μ1, b1, g1, q1⟩ := stepHead_ok ha.world_pos g hq (fun h => hb (Or.inr h))
    have g2 := (g1.flushBucket).strict (q1.flushBucket (c := c))
    exact Bd.ofStrict (g2.stepTail ha _ _)

/-- an iteration block -/
theorem block_ok {c s} (ha : AsgOK c) (h : Bd c s) :
    Bd c (Precond.exec c (Precond.run c s (List.replicate c.accum (.fwdBwd true))) .step) := by
  have := passes ha.world_pos c.accum 0 s (by omega) h.toP0
  rw [Nat.zero_add] at this
  exact step_ok ha this

theorem fwdBwd_eval (c : Cfg) (s : St) : Precond.fwdBwd c s false = s := rfl

/-- everything else happens at a boundary -/
theorem other_ok {c s} (ha : AsgOK c) (op : Op) (h1 : op ≠ .step) (h2 : op ≠ .fwdBwd true) (h : Bd c s) :
    Bd c (Precond.exec c s op) := by
  obtain ⟨μ, g, sf, hs⟩ := h
  cases he : s.err with
  | some e =>
    rw [exec_err c s _ (by simp [he])]
    exact ⟨μ, g, sf, fun h => by rw [he] at h; cases h⟩
  | none =>
    have g' := hs he
    unfold Precond.exec
    simp only [he, Option.isSome_none, Bool.false_eq_true, if_false]
    cases op with
    | fwdBwd t =>
      cases t
      · exact Bd.ofStrict g'
      · exact absurd rfl h2
    | step => exact absurd rfl h1
    | resetBatch => exact Bd.ofStrict g'.resetBatch
    | memUsage => exact Bd.ofStrict g'.memUsage
    | save f => exact Bd.ofStrict (g'.saveState f)
    | saveLoad f ci => exact Bd.ofStrict (g'.saveLoad ha f ci)
    | setHyper hy => exact Bd.ofStrict (g'.congr rfl rfl rfl rfl rfl)

theorem Bd.wf {c s} (h : Bd c s) : wf c.world s.acts = true := by
  obtain ⟨μ, g, sf, _⟩ := h
  unfold KV.Sched2.wf
  rw [wfAux_eq, g.wfs, Bool.true_and, List.all_eq_true]
  intro a ha
  have : a ∈ s.script := by simpa [St.acts] using ha
  simp [sf a this]

end KV.PI
