/- Helper lemmas about KV.Alg (single Mathlib modules may be imported; never `import Mathlib`). -/
import KfacVerif.Model.Alg
import Mathlib.Data.List.GetD
import Mathlib.Algebra.Order.Field.Rat
import Mathlib.Tactic.Ring
import Mathlib.Tactic.Linarith

namespace KV.Alg

/-! ### feature index arithmetic -/

theorem inner_lt {kh kw i j : Nat} (hi : i < kh) (hj : j < kw) : i * kw + j < kh * kw :=
  calc i * kw + j < (i + 1) * kw := by rw [Nat.succ_mul]; omega
    _ ≤ kh * kw := Nat.mul_le_mul_right _ hi

theorem featIdx_eq (cv : Conv) (c i j : Nat) :
    featIdx cv c i j = c * (cv.kh * cv.kw) + (i * cv.kw + j) := by
  simp [featIdx, Nat.add_assoc]

theorem featC_featIdx (cv : Conv) {c i j : Nat} (hi : i < cv.kh) (hj : j < cv.kw) :
    featC cv (featIdx cv c i j) = c := by
  have ht := inner_lt hi hj
  have hK : 0 < cv.kh * cv.kw := by omega
  rw [featIdx_eq, featC, Nat.add_comm, Nat.add_mul_div_right _ _ hK, Nat.div_eq_of_lt ht]
  omega

theorem featI_featIdx (cv : Conv) {c i j : Nat} (hi : i < cv.kh) (hj : j < cv.kw) :
    featI cv (featIdx cv c i j) = i := by
  have ht := inner_lt hi hj
  have hkw : 0 < cv.kw := by omega
  rw [featIdx_eq, featI, Nat.add_comm, Nat.add_mul_mod_self_right, Nat.mod_eq_of_lt ht,
    Nat.add_comm, Nat.add_mul_div_right _ _ hkw, Nat.div_eq_of_lt hj]
  omega

theorem featJ_featIdx (cv : Conv) {c i j : Nat} (hj : j < cv.kw) :
    featJ cv (featIdx cv c i j) = j := by
  have : featIdx cv c i j = j + (c * cv.kh + i) * cv.kw := by
    simp [featIdx, Nat.add_mul, Nat.mul_assoc]; omega
  rw [this, featJ, Nat.add_mul_mod_self_right, Nat.mod_eq_of_lt hj]

theorem featIdx_decode (cv : Conv) (f : Nat) :
    featIdx cv (featC cv f) (featI cv f) (featJ cv f) = f := by
  have h1 : f % cv.kw = (f % (cv.kh * cv.kw)) % cv.kw :=
    (Nat.mod_mod_of_dvd f (Dvd.intro_left cv.kh rfl)).symm
  rw [featIdx_eq, featC, featI, featJ, h1, Nat.div_add_mod' (f % (cv.kh * cv.kw)) cv.kw,
    Nat.div_add_mod']

theorem featI_lt (cv : Conv) (hkh : 0 < cv.kh) (hkw : 0 < cv.kw) (f : Nat) : featI cv f < cv.kh := by
  rw [featI]
  apply Nat.div_lt_of_lt_mul
  rw [Nat.mul_comm cv.kw cv.kh]
  exact Nat.mod_lt _ (Nat.mul_pos hkh hkw)

theorem featIdx_lt (cv : Conv) {c i j : Nat} (hc : c < cv.cin) (hi : i < cv.kh) (hj : j < cv.kw) :
    featIdx cv c i j < cv.cin * cv.kh * cv.kw := by
  have ht := inner_lt hi hj
  rw [featIdx_eq, Nat.mul_assoc]
  calc c * (cv.kh * cv.kw) + (i * cv.kw + j) < (c + 1) * (cv.kh * cv.kw) := by
        rw [Nat.succ_mul]; omega
    _ ≤ cv.cin * (cv.kh * cv.kw) := Nat.mul_le_mul_right _ hc

/-! ### flatMap over a range of equal-length blocks -/

theorem flatMap_range_length {α} (A B : Nat) (h : Nat → List α) (hl : ∀ a < A, (h a).length = B) :
    ((List.range A).flatMap h).length = A * B := by
  induction A with
  | zero => simp
  | succ A ih =>
    rw [List.range_succ, List.flatMap_append, List.length_append, ih (fun a ha => hl a (by omega))]
    simp [hl A (by omega), Nat.succ_mul]

theorem flatMap_range_getD {α} (A B : Nat) (h : Nat → List α) (hl : ∀ a < A, (h a).length = B)
    {a b : Nat} (ha : a < A) (hb : b < B) (d : α) :
    ((List.range A).flatMap h).getD (a * B + b) d = (h a).getD b d := by
  induction A with
  | zero => omega
  | succ A ih =>
    have hlen := flatMap_range_length A B h (fun a ha => hl a (by omega))
    rw [List.range_succ, List.flatMap_append]
    by_cases haA : a < A
    · rw [List.getD_append _ _ _ _ (by rw [hlen]; exact inner_lt haA hb)]
      exact ih (fun a ha => hl a (by omega)) haA
    · have : a = A := by omega
      subst this
      rw [List.getD_append_right _ _ _ _ (by rw [hlen]; omega), hlen]
      simp

theorem mem_flatMap_range_map {α} {A B : Nat} {g : Nat → Nat → α} {r : α}
    (hr : r ∈ (List.range A).flatMap fun a => (List.range B).map (g a)) :
    ∃ a b, r = g a b := by
  simp only [List.mem_flatMap, List.mem_map, List.mem_range] at hr
  obtain ⟨a, _, b, _, rfl⟩ := hr
  exact ⟨a, b, rfl⟩

/-! ### sumTo -/

theorem sumTo_succ' (n : Nat) (f : Nat → Rat) : sumTo (n + 1) f = sumTo n f + f n := by
  simp [sumTo, List.range_succ]

theorem sumTo_zero' (f : Nat → Rat) : sumTo 0 f = 0 := by simp [sumTo]

theorem sumTo_congr' {n : Nat} {f g : Nat → Rat} (h : ∀ k < n, f k = g k) : sumTo n f = sumTo n g := by
  induction n with
  | zero => simp [sumTo_zero']
  | succ n ih => rw [sumTo_succ', sumTo_succ', ih (fun k hk => h k (by omega)), h n (by omega)]

theorem sumTo_add' (m n : Nat) (f : Nat → Rat) :
    sumTo (m + n) f = sumTo m f + sumTo n (fun k => f (m + k)) := by
  induction n with
  | zero => simp [sumTo_zero']
  | succ n ih => rw [← Nat.add_assoc, sumTo_succ', sumTo_succ', ih]; ring

theorem sumTo_mul' (A B : Nat) (f : Nat → Rat) :
    sumTo (A * B) f = sumTo A fun a => sumTo B fun b => f (a * B + b) := by
  induction A with
  | zero => simp [sumTo_zero']
  | succ A ih => rw [Nat.succ_mul, sumTo_add', sumTo_succ', ih]

/-! ### patches -/

theorem patches_length (cv : Conv) (H W : Nat) (x : List (List (List (List Rat)))) :
    (patches cv H W x).length = x.length * outDim H cv.kh cv.sh cv.ph * outDim W cv.kw cv.sw cv.pw := by
  unfold patches
  simp only []
  rw [flatMap_range_length _ (outDim H cv.kh cv.sh cv.ph * outDim W cv.kw cv.sw cv.pw), Nat.mul_assoc]
  intro b _
  apply flatMap_range_length
  intro y _
  simp

theorem patches_row_length (cv : Conv) (H W : Nat) (x : List (List (List (List Rat)))) :
    ∀ r ∈ patches cv H W x, r.length = cv.cin * cv.kh * cv.kw := by
  intro r hr
  unfold patches at hr
  simp only [List.mem_flatMap, List.mem_map, List.mem_range] at hr
  obtain ⟨b, _, y, _, z, _, rfl⟩ := hr
  simp

theorem patches_getD (cv : Conv) (H W : Nat) (x : List (List (List (List Rat)))) {b y z : Nat}
    (hb : b < x.length) (hy : y < outDim H cv.kh cv.sh cv.ph) (hz : z < outDim W cv.kw cv.sw cv.pw) :
    (patches cv H W x).getD
        ((b * outDim H cv.kh cv.sh cv.ph + y) * outDim W cv.kw cv.sw cv.pw + z) [] =
      (List.range (cv.cin * cv.kh * cv.kw)).map fun f =>
        padded x cv b (featC cv f) (y * cv.sh + featI cv f) (z * cv.sw + featJ cv f) := by
  unfold patches
  simp only []
  have e : (b * outDim H cv.kh cv.sh cv.ph + y) * outDim W cv.kw cv.sw cv.pw + z =
      b * (outDim H cv.kh cv.sh cv.ph * outDim W cv.kw cv.sw cv.pw) +
        (y * outDim W cv.kw cv.sw cv.pw + z) := by ring
  rw [e, flatMap_range_getD _ (outDim H cv.kh cv.sh cv.ph * outDim W cv.kw cv.sw cv.pw) _ _ hb
    (inner_lt hy hz)]
  · rw [flatMap_range_getD _ (outDim W cv.kw cv.sw cv.pw) _ _ hy hz]
    · simp [List.getD_eq_getElem?_getD, hz]
    · intro _ _; simp
  · intro b _
    apply flatMap_range_length
    intro y _
    simp

theorem patches_ent (cv : Conv) (H W : Nat) (x : List (List (List (List Rat)))) {b y z c i j : Nat}
    (hb : b < x.length) (hy : y < outDim H cv.kh cv.sh cv.ph) (hz : z < outDim W cv.kw cv.sw cv.pw)
    (hc : c < cv.cin) (hi : i < cv.kh) (hj : j < cv.kw) :
    ent (patches cv H W x)
        ((b * outDim H cv.kh cv.sh cv.ph + y) * outDim W cv.kw cv.sw cv.pw + z) (featIdx cv c i j)
      = padded x cv b c (y * cv.sh + i) (z * cv.sw + j) := by
  rw [ent, patches_getD cv H W x hb hy hz]
  have hf := featIdx_lt cv hc hi hj
  simp [List.getD_eq_getElem?_getD, hf, featC_featIdx cv hi hj, featI_featIdx cv hi hj,
    featJ_featIdx cv hj]

theorem row_decode {oh ow b y z : Nat} (hy : y < oh) (hz : z < ow) :
    ((b * oh + y) * ow + z) / (oh * ow) = b ∧ (((b * oh + y) * ow + z) / ow) % oh = y ∧
      ((b * oh + y) * ow + z) % ow = z := by
  have how : 0 < ow := by omega
  have hoh : 0 < oh := by omega
  have ht := inner_lt hy hz
  refine ⟨?_, ?_, ?_⟩
  · have e : (b * oh + y) * ow + z = (y * ow + z) + b * (oh * ow) := by ring
    rw [e, Nat.add_mul_div_right _ _ (by omega), Nat.div_eq_of_lt ht]; omega
  · rw [Nat.add_comm, Nat.add_mul_div_right _ _ how, Nat.div_eq_of_lt hz, Nat.zero_add,
      Nat.add_comm, Nat.add_mul_mod_self_right, Nat.mod_eq_of_lt hy]
  · rw [Nat.add_comm, Nat.add_mul_mod_self_right, Nat.mod_eq_of_lt hz]

/-! ### shapes -/

theorem ofFn_length (m n : Nat) (f : Nat → Nat → Rat) : (ofFn m n f).length = m := by simp [ofFn]

theorem ofFn_row_length (m n : Nat) (f : Nat → Nat → Rat) : ∀ r ∈ ofFn m n f, r.length = n := by
  intro r hr
  simp only [ofFn, List.mem_map] at hr
  obtain ⟨_, _, rfl⟩ := hr
  simp

theorem cov_length (rows n : Nat) (a : Mat) : (cov rows n a).length = n := by
  simp [cov, smul, ofFn_length]

theorem cov_row_length (rows n : Nat) (a : Mat) : ∀ r ∈ cov rows n a, r.length = n := by
  simp only [cov, smul]; exact ofFn_row_length _ _ _

/-! ### layout lists -/

theorem getGrad_some_getD (w : Mat) (b : List Rat) (hb : b.length = w.length) {o : Nat} (ho : o < w.length) :
    (getGrad w (some b)).getD o [] = w.getD o [] ++ [b.getD o 0] := by
  have ho' : o < b.length := by omega
  simp [getGrad, List.getD_eq_getElem?_getD, ho, ho']

theorem appendOnes_getD (a : Mat) {i : Nat} (hi : i < a.length) :
    (appendOnes a).getD i [] = a.getD i [] ++ [1] := by
  simp [appendOnes, List.getD_eq_getElem?_getD, hi]

theorem clamp0_getD_nonneg (d : List Rat) (i : Nat) : 0 ≤ (clamp0 d).getD i 0 := by
  rw [clamp0, List.getD_eq_getElem?_getD]
  by_cases hi : i < d.length
  · simp only [List.getElem?_map, List.getElem?_eq_getElem hi, Option.map_some, Option.getD_some]
    split
    · exact le_refl _
    · linarith
  · simp [List.getElem?_eq_none (Nat.le_of_not_lt hi)]

end KV.Alg
