/- Helper lemmas (single Mathlib modules may be imported; never `import Mathlib`). -/
import KfacVerif.Model.Comm
import KfacVerif.Model.Misc
import Mathlib.Data.Rat.Floor
import Mathlib.Algebra.BigOperators.Group.List.Basic
import Mathlib.Algebra.Order.Field.Basic
import Mathlib.Tactic.Linarith
import Mathlib.Tactic.Positivity

/-! ## C19 — scheduler -/

namespace KV.Sched

/-- one scheduler update of a float parameter -/
def stepR (o : Option (Nat → Rat)) (v : Rat) (s : Nat) : Rat :=
  match o with | some f => v * f s | none => v

/-- one scheduler update of an interval parameter -/
def stepI (o : Option (Nat → Rat)) (v : Int) (s : Nat) : Int :=
  match o with | some f => truncRat ((v : Rat) * f s) | none => v

theorem schedRun_nil (l : Lambdas) (p : Params) : schedRun l p [] = p := rfl

theorem schedRun_cons (l : Lambdas) (p : Params) (c : Nat × Option Nat)
    (cs : List (Nat × Option Nat)) :
    schedRun l p (c :: cs) = schedRun l (schedStep l p c.1 c.2) cs := rfl

theorem schedStep_fus (l : Lambdas) (p : Params) (s : Nat) (a : Option Nat) :
    (schedStep l p s a).fus = stepI l.fus p.fus (a.getD s) := by
  unfold schedStep stepI; cases l.fus <;> rfl

theorem schedStep_ius (l : Lambdas) (p : Params) (s : Nat) (a : Option Nat) :
    (schedStep l p s a).ius = stepI l.ius p.ius (a.getD s) := by
  unfold schedStep stepI; cases l.ius <;> rfl

theorem schedStep_damping (l : Lambdas) (p : Params) (s : Nat) (a : Option Nat) :
    (schedStep l p s a).damping = stepR l.damping p.damping (a.getD s) := by
  unfold schedStep stepR; cases l.damping <;> rfl

theorem schedStep_decay (l : Lambdas) (p : Params) (s : Nat) (a : Option Nat) :
    (schedStep l p s a).decay = stepR l.decay p.decay (a.getD s) := by
  unfold schedStep stepR; cases l.decay <;> rfl

theorem schedStep_kl (l : Lambdas) (p : Params) (s : Nat) (a : Option Nat) :
    (schedStep l p s a).kl = stepR l.kl p.kl (a.getD s) := by
  unfold schedStep stepR; cases l.kl <;> rfl

theorem schedStep_lr (l : Lambdas) (p : Params) (s : Nat) (a : Option Nat) :
    (schedStep l p s a).lr = stepR l.lr p.lr (a.getD s) := by
  unfold schedStep stepR; cases l.lr <;> rfl

/-! each field of `schedRun` is a fold over the calls that looks at its own factor function only -/

theorem run_fus (l : Lambdas) (calls : List (Nat × Option Nat)) : ∀ p : Params,
    (schedRun l p calls).fus = calls.foldl (fun v c => stepI l.fus v (c.2.getD c.1)) p.fus := by
  induction calls with
  | nil => intro p; rfl
  | cons c cs ih => intro p; rw [schedRun_cons, ih, schedStep_fus]; rfl

theorem run_ius (l : Lambdas) (calls : List (Nat × Option Nat)) : ∀ p : Params,
    (schedRun l p calls).ius = calls.foldl (fun v c => stepI l.ius v (c.2.getD c.1)) p.ius := by
  induction calls with
  | nil => intro p; rfl
  | cons c cs ih => intro p; rw [schedRun_cons, ih, schedStep_ius]; rfl

theorem run_damping (l : Lambdas) (calls : List (Nat × Option Nat)) : ∀ p : Params,
    (schedRun l p calls).damping
      = calls.foldl (fun v c => stepR l.damping v (c.2.getD c.1)) p.damping := by
  induction calls with
  | nil => intro p; rfl
  | cons c cs ih => intro p; rw [schedRun_cons, ih, schedStep_damping]; rfl

theorem run_decay (l : Lambdas) (calls : List (Nat × Option Nat)) : ∀ p : Params,
    (schedRun l p calls).decay
      = calls.foldl (fun v c => stepR l.decay v (c.2.getD c.1)) p.decay := by
  induction calls with
  | nil => intro p; rfl
  | cons c cs ih => intro p; rw [schedRun_cons, ih, schedStep_decay]; rfl

theorem run_kl (l : Lambdas) (calls : List (Nat × Option Nat)) : ∀ p : Params,
    (schedRun l p calls).kl = calls.foldl (fun v c => stepR l.kl v (c.2.getD c.1)) p.kl := by
  induction calls with
  | nil => intro p; rfl
  | cons c cs ih => intro p; rw [schedRun_cons, ih, schedStep_kl]; rfl

theorem run_lr (l : Lambdas) (calls : List (Nat × Option Nat)) : ∀ p : Params,
    (schedRun l p calls).lr = calls.foldl (fun v c => stepR l.lr v (c.2.getD c.1)) p.lr := by
  induction calls with
  | nil => intro p; rfl
  | cons c cs ih => intro p; rw [schedRun_cons, ih, schedStep_lr]; rfl

theorem foldl_stepR_some {γ : Type} (f : Nat → Rat) (g : γ → Nat) (cs : List γ) : ∀ v : Rat,
    cs.foldl (fun v c => stepR (some f) v (g c)) v = v * (cs.map fun c => f (g c)).prod := by
  induction cs with
  | nil => intro v; simp
  | cons c cs ih =>
    intro v
    simp only [List.foldl_cons, List.map_cons, List.prod_cons]
    rw [ih]; simp only [stepR]; rw [mul_assoc]

theorem foldl_stepR_none {γ : Type} (g : γ → Nat) (cs : List γ) : ∀ v : Rat,
    cs.foldl (fun v c => stepR none v (g c)) v = v := by
  induction cs with
  | nil => intro v; rfl
  | cons c cs ih => intro v; simp only [List.foldl_cons]; rw [ih]; rfl

theorem foldl_stepI_none {γ : Type} (g : γ → Nat) (cs : List γ) : ∀ v : Int,
    cs.foldl (fun v c => stepI none v (g c)) v = v := by
  induction cs with
  | nil => intro v; rfl
  | cons c cs ih => intro v; simp only [List.foldl_cons]; rw [ih]; rfl

theorem truncRat_of_nonneg (q : Rat) (h : 0 ≤ q) : truncRat q = ⌊q⌋ := by
  have hn : 0 ≤ q.num := Rat.num_nonneg.mpr h
  unfold truncRat
  rw [Rat.floor_def', Int.tdiv_eq_ediv_of_nonneg hn]

theorem truncRat_of_nonpos (q : Rat) (h : q ≤ 0) : truncRat q = ⌈q⌉ := by
  have hn : q.num ≤ 0 := Rat.num_nonpos.mpr h
  have hn' : 0 ≤ -q.num := by omega
  unfold truncRat
  rw [Rat.ceil_def', ← Int.tdiv_eq_ediv_of_nonneg hn', Int.neg_tdiv, neg_neg]

theorem trace_getLast? (l : Lambdas) (calls : List (Nat × Option Nat)) : ∀ p : Params,
    (schedTrace l p calls).getLast? = if calls = [] then none else some (schedRun l p calls) := by
  induction calls with
  | nil => intro p; simp [schedTrace]
  | cons c t ih =>
    intro p
    obtain ⟨s, a⟩ := c
    cases t with
    | nil => simp [schedTrace, schedRun]
    | cons d t' =>
      have h := ih (schedStep l p s a)
      obtain ⟨s', a'⟩ := d
      simp only [schedTrace, schedRun_cons] at h ⊢
      rw [List.getLast?_cons_cons, h]
      simp

theorem ctorOk_iff : ∀ (scheduled callable : List Bool), scheduled.length = callable.length →
    (ctorOk scheduled callable = true ↔
      ∀ i, i < scheduled.length →
        ¬ (scheduled.getD i false = true ∧ callable.getD i false = true)) := by
  intro scheduled
  induction scheduled with
  | nil => intro callable _; simp [ctorOk]
  | cons s ss ih =>
    intro callable h
    cases callable with
    | nil => simp at h
    | cons c cs =>
      have h' : ss.length = cs.length := by simpa using h
      have ih' := ih cs h'
      have hc : ctorOk (s :: ss) (c :: cs) = (!(s && c) && ctorOk ss cs) := by
        simp [ctorOk]
      rw [hc, Bool.and_eq_true, ih']
      constructor
      · rintro ⟨h0, hr⟩ i hi
        cases i with
        | zero =>
          simp only [List.getD_cons_zero]
          cases s <;> cases c <;> simp_all
        | succ j =>
          have := hr j (by simpa using hi)
          simpa using this
      · intro hall
        refine ⟨?_, ?_⟩
        · have := hall 0 (by simp)
          simp only [List.getD_cons_zero] at this
          cases s <;> cases c <;> simp_all
        · intro j hj
          have := hall (j + 1) (by simpa using hj)
          simpa using this

theorem expDecay_eq (cap : Rat) (k : Nat) (hk : 1 ≤ k) :
    expDecay cap k = min (1 - 1 / (k : Rat)) cap := by
  unfold expDecay; rw [Nat.max_eq_left hk]

theorem expDecay_zero_eq (cap : Rat) : expDecay cap 0 = expDecay cap 1 := by
  simp [expDecay]

theorem expDecay_mono (cap : Rat) {k k' : Nat} (h : k ≤ k') :
    expDecay cap k ≤ expDecay cap k' := by
  unfold expDecay
  apply min_le_min _ le_rfl
  have h1 : (1 : Rat) ≤ ((max k 1 : Nat) : Rat) := by exact_mod_cast Nat.le_max_right k 1
  have h2 : ((max k 1 : Nat) : Rat) ≤ ((max k' 1 : Nat) : Rat) := by
    exact_mod_cast max_le_max h le_rfl
  have h3 : (0 : Rat) < ((max k 1 : Nat) : Rat) := by linarith
  have := one_div_le_one_div_of_le h3 h2
  linarith

theorem expDecay_bounds (cap : Rat) (hc : 0 < cap) (k : Nat) :
    0 ≤ expDecay cap k ∧ expDecay cap k ≤ cap := by
  unfold expDecay
  refine ⟨le_min ?_ hc.le, min_le_right _ _⟩
  have h1 : (1 : Rat) ≤ ((max k 1 : Nat) : Rat) := by exact_mod_cast Nat.le_max_right k 1
  have h3 : (0 : Rat) < ((max k 1 : Nat) : Rat) := by linarith
  have : 1 / ((max k 1 : Nat) : Rat) ≤ 1 := by
    rw [div_le_one h3]; exact h1
  linarith

end KV.Sched

/-! ## C20 — trace table -/

namespace KV

theorem assocGet?_assocSet_self {β} (k : String) (v : β) : ∀ t : List (String × β),
    assocGet? k (assocSet k v t) = some v := by
  intro t
  induction t with
  | nil => simp [assocSet, assocGet?]
  | cons p t ih =>
    obtain ⟨k', v'⟩ := p
    by_cases h : k' = k
    · simp [assocSet, assocGet?, h]
    · simp [assocSet, assocGet?, h, ih]

theorem assocGet?_assocSet_ne {β} (k m : String) (v : β) (hm : m ≠ k) :
    ∀ t : List (String × β), assocGet? m (assocSet k v t) = assocGet? m t := by
  intro t
  induction t with
  | nil => simp [assocSet, assocGet?, Ne.symm hm]
  | cons p t ih =>
    obtain ⟨k', v'⟩ := p
    by_cases h : k' = k
    · subst h; simp [assocSet, assocGet?, Ne.symm hm]
    · by_cases h2 : k' = m
      · subst h2; simp [assocSet, assocGet?, h]
      · simp [assocSet, assocGet?, h, h2, ih]

theorem assocGet?_append_singleton {β} (k m : String) (v : β) : ∀ t : List (String × β),
    assocGet? m (t ++ [(k, v)]) =
      match assocGet? m t with
      | some x => some x
      | none => if k = m then some v else none := by
  intro t
  induction t with
  | nil => simp [assocGet?]
  | cons p t ih =>
    obtain ⟨k', v'⟩ := p
    by_cases h2 : k' = m
    · simp [assocGet?, h2]
    · simp [assocGet?, h2, ih]

theorem assocGet?_eq_none_iff {β} (k : String) : ∀ t : List (String × β),
    assocGet? k t = none ↔ k ∉ t.map (·.1) := by
  intro t
  induction t with
  | nil => simp [assocGet?]
  | cons p t ih =>
    obtain ⟨k', v'⟩ := p
    by_cases h : k' = k
    · simp [assocGet?, h]
    · simp [assocGet?, h, ih, Ne.symm h]

theorem assocSet_keys_of_mem {β} (k : String) (v : β) : ∀ t : List (String × β),
    k ∈ t.map (·.1) → (assocSet k v t).map (·.1) = t.map (·.1) := by
  intro t
  induction t with
  | nil => simp
  | cons p t ih =>
    obtain ⟨k', v'⟩ := p
    intro hmem
    by_cases h : k' = k
    · simp [assocSet, h]
    · have : k ∈ t.map (·.1) := by
        simp only [List.map_cons, List.mem_cons] at hmem
        rcases hmem with hmem | hmem
        · exact absurd hmem.symm h
        · exact hmem
      simp [assocSet, h, ih this]

theorem mem_assocSet {β} (k : String) (v : β) : ∀ (t : List (String × β)) (p : String × β),
    p ∈ assocSet k v t → p ∈ t ∨ p.2 = v := by
  intro t
  induction t with
  | nil => intro p hp; simp [assocSet] at hp; right; simp [hp]
  | cons q t ih =>
    obtain ⟨k', v'⟩ := q
    intro p hp
    by_cases h : k' = k
    · simp only [assocSet, h, beq_self_eq_true, if_true, List.mem_cons] at hp
      rcases hp with hp | hp
      · right; simp [hp]
      · left; exact List.mem_cons_of_mem _ hp
    · simp only [assocSet, beq_iff_eq, h, if_false, List.mem_cons] at hp
      rcases hp with hp | hp
      · left; simp [hp]
      · rcases ih p hp with h1 | h1
        · left; exact List.mem_cons_of_mem _ h1
        · right; exact h1

end KV

namespace KV.C20
open KV KV.Trace

def samples (t : Table) (name : String) : List Rat := (assocGet? name t).getD []

/-- keys of the table are unique (it is a dict) -/
def KeysNodup (t : Table) : Prop := (t.map (·.1)).Nodup

/-- **history**: the samples of a name are exactly the durations of its completed calls since the
    last clear, in call order -/
def isClear : Op → Bool | .clear => true | _ => false

/-- the operations after the last `clear` -/
def since (ops : List Op) : List Op := (ops.reverse.takeWhile (fun o => !isClear o)).reverse

/-- the sample a single operation contributes to `name` -/
def contrib (name : String) : Op → Option Rat
  | .call n dt false => if n = name then some dt else none
  | _ => none

theorem samples_record_self (t : Table) (name : String) (dt : Rat) :
    samples (record t name dt) name = samples t name ++ [dt] := by
  unfold samples record
  cases h : assocGet? name t with
  | some l => simp [assocGet?_assocSet_self]
  | none => simp [assocGet?_append_singleton, h]

theorem samples_record_ne (t : Table) (name m : String) (dt : Rat) (hm : m ≠ name) :
    samples (record t name dt) m = samples t m := by
  unfold samples record
  cases h : assocGet? name t with
  | some l => simp [assocGet?_assocSet_ne _ _ _ hm]
  | none =>
    simp only [assocGet?_append_singleton]
    cases assocGet? m t with
    | some x => rfl
    | none => simp [Ne.symm hm]

theorem samples_nil (name : String) : samples [] name = [] := rfl

/-- table invariant -/
def Inv (t : Table) : Prop := KeysNodup t ∧ ∀ p ∈ t, p.2 ≠ []

theorem inv_nil : Inv [] := by
  refine ⟨?_, ?_⟩
  · simp [KeysNodup]
  · intro p hp; simp at hp

theorem inv_record (t : Table) (name : String) (dt : Rat) (h : Inv t) : Inv (record t name dt) := by
  obtain ⟨hk, hne⟩ := h
  unfold record
  cases hg : assocGet? name t with
  | some l =>
    have hmem : name ∈ t.map (·.1) := by
      by_contra hc
      rw [(assocGet?_eq_none_iff name t).mpr hc] at hg
      cases hg
    refine ⟨?_, ?_⟩
    · show KeysNodup (assocSet name (l ++ [dt]) t)
      unfold KeysNodup
      rw [assocSet_keys_of_mem _ _ _ hmem]; exact hk
    · intro p hp
      rcases mem_assocSet _ _ _ p hp with h1 | h1
      · exact hne p h1
      · rw [h1]; simp
  | none =>
    have hnm : name ∉ t.map (·.1) := (assocGet?_eq_none_iff name t).mp hg
    refine ⟨?_, ?_⟩
    · show KeysNodup (t ++ [(name, [dt])])
      unfold KeysNodup at hk ⊢
      rw [List.map_append, List.nodup_append]
      refine ⟨hk, by simp, ?_⟩
      intro a ha b hb
      simp only [List.map_cons, List.map_nil, List.mem_singleton] at hb
      rintro rfl
      exact hnm (hb ▸ ha)
    · intro p hp
      rw [List.mem_append] at hp
      rcases hp with hp | hp
      · exact hne p hp
      · simp only [List.mem_singleton] at hp; rw [hp]; simp

theorem inv_step (t : Table) (o : Op) (h : Inv t) : Inv (step t o) := by
  cases o with
  | clear => exact inv_nil
  | call n dt r =>
    cases r with
    | true => exact h
    | false => exact inv_record t n dt h

theorem inv_run (ops : List Op) : ∀ t : Table, Inv t → Inv (run t ops) := by
  induction ops with
  | nil => intro t h; exact h
  | cons o ops ih => intro t h; exact ih _ (inv_step t o h)

theorem run_append_singleton (t : Table) (ops : List Op) (o : Op) :
    run t (ops ++ [o]) = step (run t ops) o := by
  simp [run, List.foldl_append]

theorem since_append_singleton (ops : List Op) (o : Op) :
    since (ops ++ [o]) = if isClear o then [] else since ops ++ [o] := by
  unfold since
  rw [List.reverse_append]
  cases h : isClear o <;> simp [h]

theorem samples_history_rev (name : String) : ∀ r : List Op,
    samples (run [] r.reverse) name = (since r.reverse).filterMap (contrib name) := by
  intro r
  induction r with
  | nil => rfl
  | cons o r ih =>
    rw [List.reverse_cons, run_append_singleton, since_append_singleton]
    cases o with
    | clear => simp [isClear, step, samples_nil]
    | call n dt raises =>
      cases raises with
      | true => simp [isClear, step, ih, List.filterMap_append, contrib]
      | false =>
        simp only [isClear, step, Bool.false_eq_true, if_false, List.filterMap_append]
        by_cases hn : n = name
        · subst hn
          rw [samples_record_self, ih]; simp [contrib]
        · rw [samples_record_ne _ _ _ _ (Ne.symm hn), ih]; simp [contrib, hn]

theorem samples_history (ops : List Op) (name : String) :
    samples (run [] ops) name = (since ops).filterMap (contrib name) := by
  have := samples_history_rev name ops.reverse
  rwa [List.reverse_reverse] at this

theorem foldl_add_eq_sum (l : List Rat) : ∀ a : Rat, l.foldl (· + ·) a = a + l.sum := by
  induction l with
  | nil => intro a; simp
  | cons x l ih => intro a; simp only [List.foldl_cons, List.sum_cons]; rw [ih, add_assoc]

theorem stat_none (l : List Rat) (hl : l ≠ []) :
    stat false none l = .val l.sum ∧ stat true none l = .val (l.sum / l.length) := by
  simp [stat, window, foldl_add_eq_sum, hl]

theorem window_pos (l : List Rat) (m : Nat) (hm : 1 ≤ m) :
    window (some (m : Int)) l = l.drop (l.length - min m l.length) := by
  unfold window
  by_cases h : m < l.length
  · have h1 : (l.length : Int) > (m : Int) := by exact_mod_cast h
    have h2 : (m : Int) > 0 := by exact_mod_cast hm
    simp only [h1, h2, if_true, Int.toNat_natCast]
    rw [Nat.min_eq_left h.le]
  · have h1 : ¬ (l.length : Int) > (m : Int) := by
      intro hc; exact h (by exact_mod_cast hc)
    simp only [h1, if_false]
    rw [Nat.min_eq_right (Nat.le_of_not_lt h)]; simp

theorem stat_some (l : List Rat) (hl : l ≠ []) (m : Nat) (hm : 1 ≤ m) :
    let w := l.drop (l.length - min m l.length)
    w.length = min m l.length ∧
    stat false (some (m : Int)) l = .val w.sum ∧
    stat true (some (m : Int)) l = .val (w.sum / w.length) := by
  intro w
  have hlen : 1 ≤ l.length := by
    cases l with
    | nil => exact absurd rfl hl
    | cons _ _ => simp
  have hw : w.length = min m l.length := by
    show (l.drop _).length = _
    rw [List.length_drop]; omega
  have hwne : w.isEmpty = false := by
    cases hw' : w with
    | nil => rw [hw'] at hw; simp at hw; omega
    | cons _ _ => rfl
  refine ⟨hw, ?_, ?_⟩
  · simp only [stat, window_pos l m hm, foldl_add_eq_sum]
    simp [w]
  · simp only [stat, window_pos l m hm, foldl_add_eq_sum]
    simp only [w] at hwne
    simp [w, hwne]

theorem getTrace_map_fst (t : Table) (avg : Bool) (mh : Option Int) :
    (getTrace t avg mh).map (·.1) = t.map (·.1) := by
  simp [getTrace, List.map_map, Function.comp_def]

/-! ### re-entrant calls -/

/-- the abstraction from the implementation's state to the specification's: a start reading `t0`
    seen at clock `now` means `now - t0` has elapsed -/
def absN (s : NState) : SState :=
  { stack := s.stack.map fun (n, t0) => (n, s.now - t0), table := s.table }

theorem absN_step (s : NState) (e : Ev) : absN (nstep s e) = sstep (absN s) e := by
  cases e with
  | enter n => simp [nstep, sstep, absN]
  | leave =>
    cases hs : s.stack with
    | nil => simp [nstep, sstep, absN, hs]
    | cons f rest => obtain ⟨n, t0⟩ := f; simp [nstep, sstep, absN, hs]
  | tick dt =>
    simp only [nstep, sstep, absN, List.map_map, SState.mk.injEq, and_true]
    apply List.map_congr_left
    intro ⟨n, t0⟩ _
    simp only [Function.comp, Prod.mk.injEq, true_and]
    ring

theorem absN_run (evs : List Ev) (s : NState) : absN (nrun s evs) = srun (absN s) evs := by
  induction evs generalizing s with
  | nil => rfl
  | cons e t ih => simp only [nrun, srun, List.foldl_cons] at *; rw [ih, absN_step]

end KV.C20
