/-
Refinement Precond ⟶ Spec, part 6: the gradient phase of one layer (`precondGrad` on the
workers, `broadcastGrad` over the receiver rows).  Core Lean only.
-/
import KfacVerif.Lemmas.Refine5
namespace KV.Refine
open KV KV.Precond

def pgOf (m : Method) (p : Bool) (l steps : Nat) (d : Rat) (v : LV) : V :=
  match m with
  | .eigen =>
    if p then .pcEigPre (v.qa.getD .garbage) (v.qg.getD .garbage) (v.dgda.getD .garbage) (.rawGrad l steps)
    else .pcEig (v.qa.getD .garbage) (v.da.getD .garbage) (v.qg.getD .garbage) (v.dg.getD .garbage) d (.rawGrad l steps)
  | .inverse => .pcInv (v.aInv.getD .garbage) (v.gInv.getD .garbage) (.rawGrad l steps)

def gPG (m : Method) (p : Bool) (steps : Nat) (d : Rat) (l : Nat) (v : LV) : LV :=
  { v with grad := some (pgOf m p l steps d v) }

theorem precondGrad_ok {c s r l d} (he : OK (precondGrad c s r l d)) : OK s := by
  unfold precondGrad at he
  norm_reads at he
  step_ok he

theorem precondGrad_eff {c s} (hs : Shape c s) {r l : Nat} (hr : r < c.world) (hl : l < c.layers.length)
    (d : Rat) (he : OK (precondGrad c s r l d)) :
    Eff c s (precondGrad c s r l d) (fun r' l' => r' = r ∧ l' = l) (fun _ _ => gPG c.method c.prediv s.steps d l) := by
  revert he
  unfold precondGrad
  norm_reads
  step_leaves hs hr hl [gPG, pgOf]

/-! ### `broadcastGrad` -/

def allocGr (l src : Nat) (s : St) (r : Nat) : St :=
  let x := getL s r l
  let (s, gr) := readSlot s r x.grad
  let x := { getL s r l with grad := gr }
  if gr.isNone && r == src then fail s r "broadcast gradient from src that has not preconditioned it" else
  setL s r l (if gr.isNone then { x with grad := some ⟨.garbage, .ready⟩ } else x)

def rowStep (c : Cfg) (l : Nat) (s : St) (r0 : Nat) : St :=
  let members := c.asg.recv r0
  if members.length == 1 then s else
  let src := c.asg.src r0 l
  let s := members.foldl (allocGr l src) s
  let rootVal := (((getL s src l).grad).map (·.val)).getD .garbage
  let (s, id) := issue s members { kind := .broadcast, elems := (c.layers.getD l ⟨0, 0⟩).gDim * (c.layers.getD l ⟨0, 0⟩).aDim,
                                   esize := c.ge, root := src }
  members.foldl (fun s r => let x := getL s r l
                           setL s r l { x with grad := some ⟨rootVal, .issued id⟩ }) s

def gradRows (c : Cfg) : List Nat := (worldRanks c).filter fun r => (c.asg.recv r).head? == some r

theorem broadcastGrad_eq (c : Cfg) (s : St) (l : Nat) :
    broadcastGrad c s l = (gradRows c).foldl (rowStep c l) s := rfl

def gAllocGr (v : LV) : LV := if v.grad = none then { v with grad := some .garbage } else v

theorem gAllocGr_idem (v) : gAllocGr (gAllocGr v) = gAllocGr v := by
  unfold gAllocGr; split <;> simp_all

theorem allocGr_ok {l src s r} (he : OK (allocGr l src s r)) : OK s := by
  unfold allocGr at he
  norm_reads at he
  step_ok he

theorem allocGr_eff {c s} (hs : Shape c s) {r l : Nat} (hr : r < c.world) (hl : l < c.layers.length)
    (src : Nat) (he : OK (allocGr l src s r)) :
    Eff c s (allocGr l src s r) (fun r' l' => r' = r ∧ l' = l) (fun _ _ => gAllocGr) := by
  revert he
  unfold allocGr
  norm_reads
  step_leaves hs hr hl [gAllocGr]

theorem foldl_setL_err (l : Nat) (F : St → Nat → LState) (xs : List Nat) (s : St) :
    (xs.foldl (fun s r => setL s r l (F s r)) s).err = s.err :=
  foldl_err_eq (fun s r => setL s r l (F s r)) (fun _ _ => rfl) xs s

theorem rowStep_one {c : Cfg} {l r0 : Nat} (h1 : (c.asg.recv r0).length = 1) (s : St) : rowStep c l s r0 = s := by
  unfold rowStep
  simp [h1]

theorem rowStep_ok {c l s r0} (he : OK (rowStep c l s r0)) : OK s := by
  unfold rowStep at he
  simp only [issue_eq] at he
  split at he
  · exact he
  · rw [OK, foldl_setL_err] at he
    exact foldl_ok _ (fun s r => allocGr_ok) _ _ he

theorem rowStep_eff {c s} (hs : Shape c s) {l : Nat} (hl : l < c.layers.length) (r0 : Nat)
    (hmem : ∀ r, r ∈ c.asg.recv r0 → r < c.world) (hsrc : c.asg.src r0 l ∈ c.asg.recv r0)
    (hlen : (c.asg.recv r0).length ≠ 1) (he : OK (rowStep c l s r0)) :
    Eff c s (rowStep c l s r0) (fun r' l' => r' ∈ c.asg.recv r0 ∧ l' = l)
      (fun _ _ v => { v with grad := some ((cell s (c.asg.src r0 l) l).grad.getD .garbage) }) := by
  unfold rowStep at he ⊢
  simp only [issue_eq] at he ⊢
  have h1' : ¬ ((c.asg.recv r0).length == 1) = true := by simpa using hlen
  rw [if_neg h1'] at he ⊢
  have ho : OK ((c.asg.recv r0).foldl (allocGr l (c.asg.src r0 l)) s) := by
    rw [OK, foldl_setL_err] at he
    exact he
  have e1 := listFold_eff hs (c.asg.recv r0) hmem (allocGr l (c.asg.src r0 l)) gAllocGr gAllocGr_idem
    (fun s r => allocGr_ok) (fun s r _ hsh hr hk => allocGr_eff hsh hr hl _ hk) ho
  generalize (c.asg.recv r0).foldl (allocGr l (c.asg.src r0 l)) s = s1 at e1 ⊢
  have hsh := shape_tch e1.shape (GAct.issue (c.asg.recv r0)
      { kind := Kind.broadcast, elems := (c.layers.getD l ⟨0, 0⟩).gDim * (c.layers.getD l ⟨0, 0⟩).aDim,
        esize := c.ge, root := c.asg.src r0 l } :: s1.script) (s1.nIssued + 1)
  have e2 := foldl_effT c
    (fun s_1 r => setL s_1 r l { getL s_1 r l with
      grad := some { val := (Option.map (fun x => x.val) (getL s1 (c.asg.src r0 l) l).grad).getD V.garbage,
                     pend := Pend.issued s1.nIssued } })
    (fun x r' l' => r' = x ∧ l' = l)
    (fun _ _ v => { v with grad := some ((cell s1 (c.asg.src r0 l) l).grad.getD .garbage) })
    (c.asg.recv r0) _ (Or.inl (fun _ _ v => rfl))
    (fun s' x hx _ hsh' => by
      apply Eff.setL hsh' (hmem x hx) hl
      rfl) hsh
  refine ⟨e1.same.trans ((same_tch ..).trans e2.same), e2.shape, ?_, ?_⟩
  · rintro r' l' ⟨h1, h2⟩
    subst l'
    rw [e2.hit r' l ⟨r', h1, rfl, rfl⟩, cell_tch, e1.hit r' l ⟨h1, rfl⟩, e1.hit _ l ⟨hsrc, rfl⟩]
    unfold gAllocGr
    split <;> split <;> simp_all
  · intro r' l' hk
    rw [e2.miss r' l' (fun ⟨x, hx, h1, h2⟩ => hk ⟨h1 ▸ hx, h2⟩), cell_tch, e1.miss r' l' hk]

/-! ### the gradient phase of one layer -/

def noGrad (v : LV) : LV := { v with grad := none }

def gradStep (c : Cfg) (d : Rat) (s : St) (l : Nat) : St :=
  let s := (c.asg.workers l).foldl (fun s r => precondGrad c s r l d) s
  if c.asg.bcastGrad then broadcastGrad c s l else s

structure GradEff (c : Cfg) (s s' : St) (l : Nat) (pg : V) : Prop where
  same : Same s s'
  shape : Shape c s'
  ng : ∀ r l', noGrad (cell s' r l') = noGrad (cell s r l')
  other : ∀ r l', l' ≠ l → cell s' r l' = cell s r l'
  grad : ∀ r, r < c.world → (cell s' r l).grad = some pg

theorem broadcastGrad_ok {c s l} (he : OK (broadcastGrad c s l)) : OK s := by
  rw [broadcastGrad_eq] at he
  exact foldl_ok _ (fun s r => rowStep_ok) _ _ he

theorem gradStep_ok {c d s l} (he : OK (gradStep c d s l)) : OK s := by
  unfold gradStep at he
  simp only [] at he
  have h1 : OK ((c.asg.workers l).foldl (fun s r => precondGrad c s r l d) s) := by
    split at he
    · exact broadcastGrad_ok he
    · exact he
  exact foldl_ok _ (fun s r => precondGrad_ok) _ _ h1

theorem mem_gradRows {c : Cfg} {r0 : Nat} :
    r0 ∈ gradRows c ↔ r0 < c.world ∧ (c.asg.recv r0).head? = some r0 := by
  simp [gradRows, mem_worldRanks]

theorem gradStep_eff {c s} (hc : CfgOK c) (hs : Shape c s) {l : Nat} (hl : l < c.layers.length) (d : Rat)
    (pg : V) (hpg : ∀ r, r ∈ c.asg.workers l → pgOf c.method c.prediv l s.steps d (cell s r l) = pg)
    (he : OK (gradStep c d s l)) : GradEff c s (gradStep c d s l) l pg := by
  unfold gradStep at he ⊢
  simp only [] at he ⊢
  have h1 : OK ((c.asg.workers l).foldl (fun s r => precondGrad c s r l d) s) := by
    split at he
    · exact broadcastGrad_ok he
    · exact he
  have e1 := listFold_eff hs (c.asg.workers l) (hc.workers_lt l) (fun s r => precondGrad c s r l d)
    (gPG c.method c.prediv s.steps d l) (fun _ => rfl) (fun s r => precondGrad_ok)
    (fun s' r hsm hsh hr hk => by
      have := precondGrad_eff hsh hr hl d hk
      rw [hsm.steps] at this; exact this) h1
  generalize (c.asg.workers l).foldl (fun s r => precondGrad c s r l d) s = s1 at e1 he ⊢
  -- after the workers have preconditioned
  have hng1 : ∀ r l', noGrad (cell s1 r l') = noGrad (cell s r l') := by
    intro r l'
    by_cases k : r ∈ c.asg.workers l ∧ l' = l
    · rw [e1.hit r l' k]; rfl
    · rw [e1.miss r l' k]
  have hoth1 : ∀ r l', l' ≠ l → cell s1 r l' = cell s r l' := fun r l' hne => e1.miss r l' (fun k => hne k.2)
  have hw1 : ∀ r, r ∈ c.asg.workers l → (cell s1 r l).grad = some pg := by
    intro r hr
    rw [e1.hit r l ⟨hr, rfl⟩]
    show some _ = _
    rw [hpg r hr]
  cases hb : c.asg.bcastGrad <;> simp only [hb, Bool.false_eq_true, if_false, if_true] at he ⊢
  · exact ⟨e1.same, e1.shape, hng1, hoth1, fun r hr => hw1 r (hc.nobg_all hb l r hr)⟩
  · rw [broadcastGrad_eq] at he ⊢
    -- invariant of the loop over the receiver rows
    let Inv : St → Prop := fun s' => Same s1 s' ∧ Shape c s' ∧ (∀ r l', noGrad (cell s' r l') = noGrad (cell s1 r l')) ∧
      (∀ r l', l' ≠ l → cell s' r l' = cell s1 r l') ∧ ∀ r, r ∈ c.asg.workers l → (cell s' r l).grad = some pg
    have hinv0 : Inv s1 := ⟨Same.refl _, e1.shape, fun _ _ => rfl, fun _ _ _ => rfl, hw1⟩
    -- one row
    have hrow : ∀ s' r0, r0 ∈ gradRows c → Inv s' → OK (rowStep c l s' r0) →
        Inv (rowStep c l s' r0) ∧
        (∀ r, (cell s' r l).grad = some pg → (cell (rowStep c l s' r0) r l).grad = some pg) ∧
        ((c.asg.recv r0).length ≠ 1 → ∀ r, r ∈ c.asg.recv r0 → (cell (rowStep c l s' r0) r l).grad = some pg) := by
      intro s' r0 hr0 ⟨i1, i2, i3, i4, i5⟩ hok
      have hr0w := (mem_gradRows.mp hr0).1
      by_cases hlen : (c.asg.recv r0).length = 1
      · rw [rowStep_one hlen]
        exact ⟨⟨i1, i2, i3, i4, i5⟩, fun r h => h, fun h => absurd hlen h⟩
      · have e := rowStep_eff i2 hl r0 (hc.recv_lt r0) (hc.src_recv r0 l hr0w) hlen hok
        rw [i5 _ (hc.src_worker r0 l hr0w)] at e
        simp only [Option.getD_some] at e
        have hcell : ∀ r, (cell s' r l).grad = some pg → (cell (rowStep c l s' r0) r l).grad = some pg := by
          intro r h
          by_cases k : r ∈ c.asg.recv r0 ∧ l = l
          · rw [e.hit r l k]
          · rw [e.miss r l k]; exact h
        refine ⟨⟨i1.trans e.same, e.shape, ?_, ?_, fun r hr => hcell r (i5 r hr)⟩, hcell, ?_⟩
        · intro r l'
          by_cases k : r ∈ c.asg.recv r0 ∧ l' = l
          · rw [e.hit r l' k]; exact i3 r l'
          · rw [e.miss r l' k]; exact i3 r l'
        · intro r l' hne
          rw [e.miss r l' (fun k => hne k.2)]; exact i4 r l' hne
        · intro _ r hr
          rw [e.hit r l ⟨hr, rfl⟩]
    have hfin : Inv ((gradRows c).foldl (rowStep c l) s1) :=
      foldl_inv Inv (rowStep c l) (gradRows c) s1 (fun s r => rowStep_ok)
        (fun s' r0 hr0 hi hok => (hrow s' r0 hr0 hi hok).1) hinv0 he
    obtain ⟨f1, f2, f3, f4, f5⟩ := hfin
    refine ⟨e1.same.trans f1, f2, fun r l' => (f3 r l').trans (hng1 r l'),
      fun r l' hne => (f4 r l' hne).trans (hoth1 r l' hne), fun r hr => ?_⟩
    obtain ⟨r0, hr0w, hhead, hmem⟩ := hc.rows r hr
    have hr0 : r0 ∈ gradRows c := mem_gradRows.mpr ⟨hr0w, hhead⟩
    by_cases hlen : (c.asg.recv r0).length = 1
    · -- a row of its own: the rank is its own source, hence a worker
      have hrecv : c.asg.recv r0 = [r0] := by
        match hh : c.asg.recv r0, hlen, hhead with
        | [x], _, hx => simp at hx; rw [hx]
      have hrr : r = r0 := by rw [hrecv] at hmem; simpa using hmem
      have hsrc := hc.src_recv r0 l hr0w
      rw [hrecv] at hsrc
      have hs0 : c.asg.src r0 l = r0 := by simpa using hsrc
      have := hc.src_worker r0 l hr0w
      rw [hs0] at this
      exact f5 r (hrr ▸ this)
    · exact (foldl_est Inv (fun s' => (cell s' r l).grad = some pg) (rowStep c l) (gradRows c) r0 hr0
        (fun s r => rowStep_ok)
        (fun s' x hx hi hok => (hrow s' x hx hi hok).1)
        (fun s' x hx hi hg hok => (hrow s' x hx hi hok).2.1 r hg)
        (fun s' hi hok => (hrow s' r0 hr0 hi hok).2.2 hlen r hmem) s1 hinv0 he).2

end KV.Refine
