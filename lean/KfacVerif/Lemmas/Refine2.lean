/-
Refinement Precond ⟶ Spec, part 2: effects of the factor primitives
(`saveBatch`, `updateFactor`, `reduceFactor`, `flushBucket`).  Core Lean only.
-/
import KfacVerif.Lemmas.Refine1

namespace KV.Refine
open KV KV.Precond

theorem Eff.setL {c s} (h : Shape c s) {r l : Nat} (hr : r < c.world) (hl : l < c.layers.length)
    (x : LState) (G : Nat → Nat → LV → LV) (hx : lv x = G r l (cell s r l)) :
    Eff c s (setL s r l x) (fun r' l' => r' = r ∧ l' = l) G :=
  Eff.setL_tch h hr hl s.script s.nIssued x G hx

theorem Eff.id_of {c s} (hs : Shape c s) (K : Nat → Nat → Prop) (G : Nat → Nat → LV → LV)
    (h : ∀ r l, K r l → G r l (cell s r l) = cell s r l) : Eff c s s K G :=
  ⟨Same.refl s, hs, fun r l k => (h r l k).symm, fun _ _ _ => rfl⟩

theorem foldl_err_eq {α} (f : St → α → St) (h : ∀ s x, (f s x).err = s.err) (xs : List α) (s : St) :
    (xs.foldl f s).err = s.err := by
  induction xs generalizing s with
  | nil => rfl
  | cons a t ih => simp only [List.foldl_cons]; rw [ih, h]

theorem foldl_neutral {α} (c : Cfg) (f : St → α → St) (xs : List α) (s0 : St)
    (hmono : ∀ s x, OK (f s x) → OK s)
    (hstep : ∀ s x, x ∈ xs → Shape c s → OK (f s x) → Neutral c s (f s x))
    (hs : Shape c s0) (he : OK (xs.foldl f s0)) : Neutral c s0 (xs.foldl f s0) :=
  foldl_inv (fun s => Neutral c s0 s) f xs s0 hmono
    (fun s x hx hn hok => hn.trans (hstep s x hx hn.2.1 hok)) (Neutral.refl hs) he

/-- a `setL` that writes back the values it found -/
theorem neutral_setL_tch {c s} (h : Shape c s) {r l : Nat} (hr : r < c.world) (hl : l < c.layers.length)
    (a n) (x : LState) (hx : lv x = cell s r l) : Neutral c s (setL (tch s a n) r l x) :=
  (Eff.setL_tch h hr hl a n x (fun _ _ v => v) hx).neutral

/-! ### `saveBatch` -/

def gSave (isA : Bool) (pass : Nat) (r l : Nat) (v : LV) : LV :=
  if isA then
    match v.aBatch with
    | none => { v with aBatch := some (.cov l true r pass), aCount := 1 }
    | some b => { v with aBatch := some (.add b (.cov l true r pass)), aCount := v.aCount + 1 }
  else
    match v.gBatch with
    | none => { v with gBatch := some (.cov l false r pass), gCount := 1 }
    | some b => { v with gBatch := some (.add b (.cov l false r pass)), gCount := v.gCount + 1 }

theorem saveBatch_err (s r l isA) : (saveBatch s r l isA).err = s.err := rfl

theorem saveBatch_eff {c s} (hs : Shape c s) {r l : Nat} (hr : r < c.world) (hl : l < c.layers.length)
    (isA : Bool) :
    Eff c s (saveBatch s r l isA) (fun r' l' => r' = r ∧ l' = l) (gSave isA s.pass) := by
  unfold saveBatch
  apply Eff.setL hs hr hl
  cases isA
  · simp only [gSave, cell, lv, Bool.false_eq_true, if_false]
    cases (getL s r l).gBatch <;> rfl
  · simp only [gSave, cell, lv, if_true]
    cases (getL s r l).aBatch <;> rfl

/-! ### `updateFactor` -/

def gUpd (isA : Bool) (alpha : Rat) (_r l : Nat) (v : LV) : LV :=
  if isA then
    match v.aBatch with
    | none => v
    | some b => { v with aBatch := none,
                         aFactor := some (.ema alpha (v.aFactor.getD (.ident l true))
                                      (if v.aCount > 1 then .divN b v.aCount else b)) }
  else
    match v.gBatch with
    | none => v
    | some b => { v with gBatch := none,
                         gFactor := some (.ema alpha (v.gFactor.getD (.ident l false))
                                      (if v.gCount > 1 then .divN b v.gCount else b)) }

theorem gUpd_idem (isA α r l v) : gUpd isA α r l (gUpd isA α r l v) = gUpd isA α r l v := by
  cases isA
  · simp only [gUpd, Bool.false_eq_true, if_false]
    cases h : v.gBatch <;> simp [h]
  · simp only [gUpd, if_true]
    cases h : v.aBatch <;> simp [h]

theorem updateFactor_err (s r l isA α) : (updateFactor s r l isA α).err = s.err := by
  unfold updateFactor
  cases isA <;> simp only [readSlot_eq, Bool.false_eq_true, if_false, if_true] <;> split <;> rfl

theorem updateFactor_eff {c s} (hs : Shape c s) {r l : Nat} (hr : r < c.world) (hl : l < c.layers.length)
    (isA : Bool) (α : Rat) :
    Eff c s (updateFactor s r l isA α) (fun r' l' => r' = r ∧ l' = l) (gUpd isA α) := by
  unfold updateFactor
  cases isA
  · simp only [readSlot_eq, Bool.false_eq_true, if_false]
    split
    · rename_i hb
      apply Eff.id_of hs
      rintro r' l' ⟨rfl, rfl⟩
      simp [gUpd, cell, lv, hb]
    · rename_i b hb
      apply Eff.setL_tch hs hr hl
      have hf := map_val_rsSlot (getL s r l).gFactor
      generalize rsSlot (getL s r l).gFactor = f at hf ⊢
      rcases f with _ | ⟨fv, _ | _ | _⟩ <;>
        simp [gUpd, cell, lv, hb, ← hf]
  · simp only [readSlot_eq, if_true]
    split
    · rename_i hb
      apply Eff.id_of hs
      rintro r' l' ⟨rfl, rfl⟩
      simp [gUpd, cell, lv, hb]
    · rename_i b hb
      apply Eff.setL_tch hs hr hl
      have hf := map_val_rsSlot (getL s r l).aFactor
      generalize rsSlot (getL s r l).aFactor = f at hf ⊢
      rcases f with _ | ⟨fv, _ | _ | _⟩ <;>
        simp [gUpd, cell, lv, hb, ← hf]

/-- all ranks save their micro-batch -/
theorem saveAll_err (c : Cfg) (s : St) (l : Nat) (isA : Bool) :
    (forRanks c s fun s r => saveBatch s r l isA).err = s.err :=
  foldl_err_eq _ (fun s r => saveBatch_err s r l isA) _ _

theorem saveAll_eff {c s} (hs : Shape c s) {l : Nat} (hl : l < c.layers.length) (isA : Bool) :
    Eff c s (forRanks c s fun s r => saveBatch s r l isA) (fun r' l' => r' < c.world ∧ l' = l)
      (gSave isA s.pass) :=
  forRanks_effQ (fun _ => True) c _ l _ s (fun _ _ _ => trivial)
    (fun s' x hx hsm hsh _ => by
      have := saveBatch_eff hsh hx hl isA
      rw [hsm.pass] at this; exact this) hs trivial

/-- all ranks fold their batch into the running average -/
theorem updateAll_err (c : Cfg) (s : St) (l : Nat) (isA : Bool) (α : Rat) :
    (forRanks c s fun s r => updateFactor s r l isA α).err = s.err :=
  foldl_err_eq _ (fun s r => updateFactor_err s r l isA α) _ _

theorem updateAll_eff {c s} (hs : Shape c s) {l : Nat} (hl : l < c.layers.length) (isA : Bool) (α : Rat) :
    Eff c s (forRanks c s fun s r => updateFactor s r l isA α) (fun r' l' => r' < c.world ∧ l' = l)
      (gUpd isA α) :=
  forRanks_effQ (fun _ => True) c _ l _ s (fun _ _ _ => trivial)
    (fun _ _ hx _ hsh _ => updateFactor_eff hsh hx hl isA α) hs trivial

/-! ### `flushBucket` -/

theorem getD_map_map (rk : List (List LState)) (G : LState → LState) (hG : G {} = {}) (r l : Nat) :
    ((rk.map fun ls => ls.map G).getD r []).getD l {} = G ((rk.getD r []).getD l {}) := by
  simp only [List.getD, List.getElem?_map]
  cases rk[r]? with
  | none => simp [hG]
  | some ls =>
    simp only [Option.map_some, Option.getD_some, List.getElem?_map]
    cases ls[l]? with
    | none => simp [hG]
    | some x => simp

/-- the slot rewrite of `flushBucket` -/
def flushFix (b : List BItem) (id : Nat) (sl : Option Slot) : Option Slot := sl.map fun x =>
  match x.pend with
  | .queued q => if b.any (·.req == q) then { x with pend := .issued id } else x
  | _ => x

theorem flushBucket_eq (c : Cfg) (s : St) : flushBucket c s =
    if s.bucket.isEmpty then s else
    { (issue s (worldRanks c) { kind := .allreduce, elems := (s.bucket.map (·.elems)).sum,
                                esize := c.fe, root := 0 }).1 with
      bucket := [],
      ranks := s.ranks.map fun ls => ls.map fun x =>
        { x with aFactor := flushFix s.bucket s.nIssued x.aFactor,
                 gFactor := flushFix s.bucket s.nIssued x.gFactor } } := rfl

theorem sv_flushFix (b id o) : sv (flushFix b id o) = sv o := by
  rcases o with _ | ⟨v, _ | _ | q⟩ <;> simp [flushFix]
  split <;> rfl

theorem flushBucket_err (c : Cfg) (s : St) : (flushBucket c s).err = s.err := by
  rw [flushBucket_eq]; split <;> rfl

theorem flushBucket_neutral {c s} (hs : Shape c s) : Neutral c s (flushBucket c s) := by
  rw [flushBucket_eq]
  split
  · exact Neutral.refl hs
  · refine ⟨⟨rfl, rfl, rfl, rfl, rfl, rfl⟩, ⟨?_, ?_⟩, ?_⟩
    · show (List.map _ s.ranks).length = c.world
      simp [hs.len]
    · intro r hr
      show ((List.map _ s.ranks).getD r []).length = _
      have := hs.row r hr
      have hr' : r < s.ranks.length := by rw [hs.len]; exact hr
      simp only [List.getD, List.getElem?_map, List.getElem?_eq_getElem hr', Option.map_some,
        Option.getD_some, List.length_map] at this ⊢
      exact this
    · intro r l
      show lv (((List.map _ s.ranks).getD r []).getD l {}) = lv ((s.ranks.getD r []).getD l {})
      rw [getD_map_map _ _ rfl]
      simp only [lv, sv_flushFix]

/-! ### `reduceFactor` -/

def facOf (isA : Bool) (v : LV) : Option V := if isA then v.aFactor else v.gFactor

def setFac (isA : Bool) (v : LV) (o : Option V) : LV :=
  if isA then { v with aFactor := o } else { v with gFactor := o }

def readFacs (c : Cfg) (s : St) (l : Nat) (isA : Bool) : St :=
  forRanks c s fun s r =>
    let x := getL s r l
    let (s, f) := readSlot s r (if isA then x.aFactor else x.gFactor)
    setL s r l (if isA then { getL s r l with aFactor := f } else { getL s r l with gFactor := f })

def putFac (c : Cfg) (l : Nat) (isA : Bool) (avg : V) (p : Pend) (s : St) : St :=
  (worldRanks c).foldl (fun s r =>
    let x := getL s r l
    setL s r l (if isA then { x with aFactor := some ⟨avg, p⟩ } else { x with gFactor := some ⟨avg, p⟩ })) s

def facVals (c : Cfg) (s : St) (l : Nat) (isA : Bool) : List V :=
  (worldRanks c).map fun r =>
    let x := getL s r l
    ((if isA then x.aFactor else x.gFactor).map (·.val)).getD .zero

def missingFac (c : Cfg) (s : St) (l : Nat) (isA : Bool) : List Nat :=
  (worldRanks c).filter fun r =>
    let x := getL s r l
    (if isA then x.aFactor else x.gFactor).isNone

theorem reduceFactor_eq (c : Cfg) (s : St) (l : Nat) (isA : Bool) :
    reduceFactor c s l isA =
      if !(missingFac c s l isA).isEmpty then fail s ((missingFac c s l isA).headD 0) "factor is None, cannot reduce" else
      let s1 := readFacs c s l isA
      if c.world == 1 then s1 else
      let n := if isA then (c.layers.getD l ⟨0, 0⟩).aDim else (c.layers.getD l ⟨0, 0⟩).gDim
      let elems := triElems n c.symAware
      let avg := V.ref s1.defs.length
      let s2 : St := { s1 with defs := s1.defs ++ [avgOf (facVals c s1 l isA)] }
      if c.bucketed then
        let s3 := if (s2.bucket.map (·.elems)).sum * c.fe + elems * c.fe > c.cap then flushBucket c s2 else s2
        putFac c l isA avg (.queued s3.nextReq)
          { s3 with bucket := s3.bucket ++ [⟨s3.nextReq, l, isA, elems⟩], nextReq := s3.nextReq + 1 }
      else
        putFac c l isA avg (.issued s2.nIssued)
          (tch s2 (.issue (worldRanks c) { kind := .allreduce, elems := elems, esize := c.fe, root := 0 } :: s2.script)
            (s2.nIssued + 1)) := rfl

theorem readFacs_err (c s l isA) : (readFacs c s l isA).err = s.err := by
  unfold readFacs
  apply foldl_err_eq
  intro s r
  simp only [readSlot_eq]
  rfl

theorem readFacs_neutral {c s} (hs : Shape c s) {l : Nat} (hl : l < c.layers.length) (isA : Bool) :
    Neutral c s (readFacs c s l isA) := by
  have e : Eff c s (readFacs c s l isA) (fun r' l' => r' < c.world ∧ l' = l) (fun _ _ v => v) := by
    unfold readFacs
    refine forRanks_effQ (fun _ => True) c _ l (fun _ _ v => v) s (fun _ _ _ => trivial)
      (fun s' x hx _ hsh _ => ?_) hs trivial
    simp only [readSlot_eq]
    apply Eff.setL_tch hsh hx hl
    cases isA <;> simp [lv, cell]
  exact e.neutral

theorem putFac_err (c l isA avg p s) : (putFac c l isA avg p s).err = s.err := by
  unfold putFac
  apply foldl_err_eq
  intro s r
  rfl

theorem putFac_eff {c s} (hs : Shape c s) {l : Nat} (hl : l < c.layers.length) (isA : Bool) (avg : V)
    (p : Pend) :
    Eff c s (putFac c l isA avg p s) (fun r' l' => r' < c.world ∧ l' = l)
      (fun _ _ v => setFac isA v (some avg)) := by
  unfold putFac
  refine forRanks_effQ (fun _ => True) c _ l _ s (fun _ _ _ => trivial) (fun s' x hx _ hsh _ => ?_) hs trivial
  apply Eff.setL hsh hx hl
  cases isA <;> simp [lv, cell, setFac]

theorem facVals_eq (c : Cfg) (s : St) (l : Nat) (isA : Bool) :
    facVals c s l isA = (worldRanks c).map fun r => (facOf isA (cell s r l)).getD .zero := by
  unfold facVals
  apply List.map_congr_left
  intro r _
  cases isA <;> simp [facOf, cell, lv]

theorem missingFac_empty {c s l isA} (h : ¬ (!(missingFac c s l isA).isEmpty) = true) :
    ∀ r, r < c.world → (facOf isA (cell s r l)).isSome := by
  intro r hr
  simp only [Bool.not_eq_true', Bool.not_eq_false, List.isEmpty_iff] at h
  have : r ∉ missingFac c s l isA := by rw [h]; simp
  unfold missingFac at this
  simp only [List.mem_filter, mem_worldRanks, hr, true_and] at this
  cases isA <;> simp_all [facOf, cell, lv, Option.isSome_iff_ne_none]

/-- what `reduce_*_factor` on all ranks does -/
structure RedEff (c : Cfg) (s s' : St) (l : Nat) (isA : Bool) : Prop where
  ok : OK s
  have_ : ∀ r, r < c.world → (facOf isA (cell s r l)).isSome
  shape : Shape c s'
  steps : s'.steps = s.steps
  mini : s'.mini = s.mini
  pass : s'.pass = s.pass
  hyper : s'.hyper = s.hyper
  outGrads : s'.outGrads = s.outGrads
  one : c.world = 1 → s'.defs = s.defs ∧ ∀ r l', cell s' r l' = cell s r l'
  many : c.world ≠ 1 →
    s'.defs = s.defs ++ [avgOf ((worldRanks c).map fun r => (facOf isA (cell s r l)).getD .zero)] ∧
    (∀ r l', r < c.world → l' = l → cell s' r l' = setFac isA (cell s r l') (some (.ref s.defs.length))) ∧
    (∀ r l', ¬ (r < c.world ∧ l' = l) → cell s' r l' = cell s r l')

theorem ite_flush_err (c : Cfg) (b : Prop) [Decidable b] (x : St) :
    (if b then flushBucket c x else x).err = x.err := by
  split
  · exact flushBucket_err c x
  · rfl

theorem reduceFactor_ok {c s l isA} (he : OK (reduceFactor c s l isA)) : OK s := by
  rw [reduceFactor_eq] at he
  by_cases hm : (!(missingFac c s l isA).isEmpty) = true
  · rw [if_pos hm] at he; simp at he
  · rw [if_neg hm] at he
    simp only [] at he
    by_cases hw : (c.world == 1) = true
    · rw [if_pos hw, OK, readFacs_err] at he; exact he
    · rw [if_neg hw] at he
      by_cases hb : c.bucketed = true
      · rw [if_pos hb, OK, putFac_err] at he
        simp only [ite_flush_err, readFacs_err] at he
        exact he
      · rw [if_neg hb, OK, putFac_err] at he
        simp only [tch_err, readFacs_err] at he
        exact he

theorem ite_flush_neutral {c : Cfg} (b : Prop) [Decidable b] {x : St} (hx : Shape c x) :
    Neutral c x (if b then flushBucket c x else x) := by
  split
  · exact flushBucket_neutral hx
  · exact Neutral.refl hx

theorem reduceFactor_eff {c s} (hs : Shape c s) {l : Nat} (hl : l < c.layers.length) (isA : Bool)
    (he : OK (reduceFactor c s l isA)) : RedEff c s (reduceFactor c s l isA) l isA := by
  have hok := reduceFactor_ok he
  rw [reduceFactor_eq] at he ⊢
  by_cases hmiss : (!(missingFac c s l isA).isEmpty) = true
  · rw [if_pos hmiss] at he; simp at he
  rw [if_neg hmiss]
  have hhave := missingFac_empty hmiss
  have n1 := readFacs_neutral hs hl isA
  simp only []
  generalize readFacs c s l isA = s1 at n1 ⊢
  obtain ⟨sm1, sh1, c1⟩ := n1
  by_cases hw : (c.world == 1) = true
  · rw [if_pos hw]
    have hw' : c.world = 1 := by simpa using hw
    exact ⟨hok, hhave, sh1, sm1.steps, sm1.mini, sm1.pass, sm1.hyper, sm1.outGrads,
      fun _ => ⟨sm1.defs, c1⟩, fun h => absurd hw' h⟩
  rw [if_neg hw]
  have hw' : c.world ≠ 1 := by simpa using hw
  have hvals : facVals c s1 l isA = (worldRanks c).map fun r => (facOf isA (cell s r l)).getD .zero := by
    rw [facVals_eq]
    apply List.map_congr_left
    intro r _
    rw [c1]
  -- both branches: `putFac` applied to a state `s3` that is neutral w.r.t. `s1` up to `defs`
  have h : ∀ (s3 : St) (p : Pend), Shape c s3 → s3.steps = s.steps → s3.mini = s.mini → s3.pass = s.pass →
      s3.hyper = s.hyper → s3.outGrads = s.outGrads →
      s3.defs = s.defs ++ [avgOf ((worldRanks c).map fun r => (facOf isA (cell s r l)).getD .zero)] →
      (∀ r l', cell s3 r l' = cell s r l') →
      RedEff c s (putFac c l isA (V.ref s1.defs.length) p s3) l isA := by
    intro s3 p sh3 e1 e2 e3 e4 e5 e6 c3
    have e := putFac_eff sh3 hl isA (V.ref s1.defs.length) p
    refine ⟨hok, hhave, e.shape, e.same.steps.trans e1, e.same.mini.trans e2, e.same.pass.trans e3,
      e.same.hyper.trans e4, e.same.outGrads.trans e5, fun h => absurd h hw', fun _ => ⟨e.same.defs.trans e6, ?_, ?_⟩⟩
    · intro r l' hr hl'
      rw [e.hit r l' ⟨hr, hl'⟩, c3, sm1.defs]
    · intro r l' hk
      rw [e.miss r l' hk, c3]
  have sh2 : Shape c { s1 with defs := s1.defs ++ [avgOf (facVals c s1 l isA)] } := sh1.of_ranks rfl
  by_cases hb : c.bucketed = true
  · rw [if_pos hb]
    have nf := ite_flush_neutral (c := c)
      ((List.map (fun x => x.elems) ({ s1 with defs := s1.defs ++ [avgOf (facVals c s1 l isA)] } : St).bucket).sum * c.fe +
        triElems (if isA = true then (c.layers.getD l ⟨0, 0⟩).aDim else (c.layers.getD l ⟨0, 0⟩).gDim) c.symAware * c.fe > c.cap) sh2
    obtain ⟨sm3, sh3, c3⟩ := nf
    refine h _ _ (sh3.of_ranks rfl) (sm3.steps.trans sm1.steps) (sm3.mini.trans sm1.mini)
      (sm3.pass.trans sm1.pass) (sm3.hyper.trans sm1.hyper) (sm3.outGrads.trans sm1.outGrads) ?_ ?_
    · refine sm3.defs.trans ?_
      show s1.defs ++ _ = _
      rw [hvals, sm1.defs]
    · intro r l'
      exact (c3 r l').trans (c1 r l')
  · rw [if_neg hb]
    refine h _ _ (sh1.of_ranks rfl) sm1.steps sm1.mini sm1.pass sm1.hyper sm1.outGrads ?_ ?_
    · show s1.defs ++ _ = _
      rw [hvals, sm1.defs]
    · intro r l'; exact c1 r l'

end KV.Refine
