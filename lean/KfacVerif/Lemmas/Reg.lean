/- Helper lemmas (single Mathlib modules may be imported; never `import Mathlib`). -/
import KfacVerif.Model.Comm
import KfacVerif.Model.Misc
import Mathlib.Tactic.Tauto

namespace KV.C16
open KV KV.Reg

/- all module instances reachable from `t` through non-`None` children (with repetitions) -/
mutual
def nodes : MTree → List MTree
  | .node i c cn ps ch => .node i c cn ps ch :: nodesCh ch
def nodesCh : List (String × Option MTree) → List MTree
  | [] => []
  | (_, none) :: t => nodesCh t
  | (_, some m) :: t => nodes m ++ nodesCh t
end

/-- object identity is consistent: two occurrences of the same `id` are the same module -/
def IdsConsistent (t : MTree) : Prop :=
  ∀ a ∈ nodes t, ∀ b ∈ nodes t, a.id = b.id → a = b

/-! ### basic facts about `nodes` -/

theorem self_mem_nodes (t : MTree) : t ∈ nodes t := by
  cases t; simp [nodes]

theorem nodes_eq (t : MTree) : nodes t = t :: nodesCh t.children := by
  cases t; simp [nodes, MTree.children]

theorem nodes_child_subset {ch : List (String × Option MTree)} {n : String} {c : MTree}
    (h : (n, some c) ∈ ch) : ∀ x ∈ nodes c, x ∈ nodesCh ch := by
  induction ch with
  | nil => simp at h
  | cons hd tl ih =>
    obtain ⟨n', o⟩ := hd
    intro x hx
    rcases List.mem_cons.1 h with h' | h'
    · injection h' with h1 h2
      subst h2
      simp [nodesCh, hx]
    · cases o with
      | none => simpa [nodesCh] using ih h' x hx
      | some m => simp [nodesCh, ih h' x hx]

/-! ### local specification of one walk -/

/-- what a (sub)walk `r` started with memo `seen` over the node list `ns` guarantees -/
structure WalkOK (seen : List Nat) (r : List Nat × List Visit) (ns : List MTree) : Prop where
  mem : ∀ x, x ∈ r.1 ↔ x ∈ seen ∨ x ∈ r.2.map (·.id)
  nodup : (r.2.map (·.id)).Nodup
  fresh : ∀ x ∈ r.2.map (·.id), x ∉ seen
  faithful : ∀ v ∈ r.2, ∃ m ∈ ns, m.id = v.id ∧ m.cls = v.cls ∧ m.clsName = v.clsName ∧
      m.params = v.params ∧ m.isLeaf = v.leaf

theorem WalkOK.skip {seen : List Nat} {ns : List MTree} : WalkOK seen (seen, []) ns :=
  ⟨by simp, by simp, by simp, by simp⟩

theorem WalkOK.mono {seen : List Nat} {r : List Nat × List Visit} {ns ns' : List MTree}
    (h : WalkOK seen r ns) (hs : ∀ m ∈ ns, m ∈ ns') : WalkOK seen r ns' :=
  ⟨h.mem, h.nodup, h.fresh, fun v hv => by
    obtain ⟨m, hm, rest⟩ := h.faithful v hv
    exact ⟨m, hs m hm, rest⟩⟩

theorem WalkOK.visit {seen : List Nat} {i : Nat} {r : List Nat × List Visit} {ns : List MTree}
    {v : Visit} {m : MTree} (hi : i ∉ seen) (h : WalkOK (i :: seen) r ns) (hv : v.id = i)
    (hm : m.id = v.id ∧ m.cls = v.cls ∧ m.clsName = v.clsName ∧ m.params = v.params ∧
      m.isLeaf = v.leaf) :
    WalkOK seen (r.1, v :: r.2) (m :: ns) := by
  refine ⟨?_, ?_, ?_, ?_⟩
  · intro x
    simp only [List.map_cons, List.mem_cons, hv]
    rw [h.mem x]
    simp only [List.mem_cons]
    tauto
  · simp only [List.map_cons, hv]
    refine List.nodup_cons.2 ⟨?_, h.nodup⟩
    intro hmem
    exact h.fresh i hmem (by simp)
  · intro x hx
    simp only [List.map_cons, List.mem_cons, hv] at hx
    rcases hx with rfl | hx
    · exact hi
    · intro hs
      exact h.fresh x hx (by simp [hs])
  · intro w hw
    rcases List.mem_cons.1 hw with rfl | hw
    · exact ⟨m, by simp, hm⟩
    · obtain ⟨m', hm', rest⟩ := h.faithful w hw
      exact ⟨m', by simp [hm'], rest⟩

theorem WalkOK.seq {seen : List Nat} {r1 r2 : List Nat × List Visit} {ns1 ns2 : List MTree}
    (h1 : WalkOK seen r1 ns1) (h2 : WalkOK r1.1 r2 ns2) :
    WalkOK seen (r2.1, r1.2 ++ r2.2) (ns1 ++ ns2) := by
  refine ⟨?_, ?_, ?_, ?_⟩
  · intro x
    simp only [List.map_append, List.mem_append]
    rw [h2.mem x, h1.mem x]
    tauto
  · simp only [List.map_append]
    refine List.nodup_append.2 ⟨h1.nodup, h2.nodup, ?_⟩
    intro a ha b hb hab
    subst hab
    exact h2.fresh a hb ((h1.mem a).2 (Or.inr ha))
  · intro x hx
    simp only [List.map_append, List.mem_append] at hx
    rcases hx with hx | hx
    · exact h1.fresh x hx
    · intro hs
      exact h2.fresh x hx ((h1.mem x).2 (Or.inl hs))
  · intro w hw
    rcases List.mem_append.1 hw with hw | hw
    · obtain ⟨m, hm, rest⟩ := h1.faithful w hw
      exact ⟨m, by simp [hm], rest⟩
    · obtain ⟨m, hm, rest⟩ := h2.faithful w hw
      exact ⟨m, by simp [hm], rest⟩

/-! ### unfolding of the two walk functions in `.1/.2` form -/

theorem walk_node (pre : String) (seen : List Nat) (i c : Nat) (cn : String) (ps : List Bool)
    (ch : List (String × Option MTree)) :
    walk pre seen (.node i c cn ps ch) =
      if seen.contains i then (seen, [])
      else ((walkChildren pre (i :: seen) ch).1,
            { name := pre, id := i, cls := c, clsName := cn, params := ps,
              leaf := ch.all fun x => x.2.isNone } :: (walkChildren pre (i :: seen) ch).2) := by
  rw [walk]

theorem walkChildren_nil (pre : String) (seen : List Nat) :
    walkChildren pre seen [] = (seen, []) := by
  rw [walkChildren]

theorem walkChildren_none (pre : String) (seen : List Nat) (n : String)
    (t : List (String × Option MTree)) :
    walkChildren pre seen ((n, none) :: t) = walkChildren pre seen t := by
  rw [walkChildren]

theorem walkChildren_some (pre : String) (seen : List Nat) (n : String) (m : MTree)
    (t : List (String × Option MTree)) :
    walkChildren pre seen ((n, some m) :: t) =
      ((walkChildren pre (walk (qual pre n) seen m).1 t).1,
       (walk (qual pre n) seen m).2 ++ (walkChildren pre (walk (qual pre n) seen m).1 t).2) := by
  rw [walkChildren]

/-! ### the walk satisfies its local specification -/

mutual
theorem walk_ok (pre : String) (seen : List Nat) :
    (t : MTree) → WalkOK seen (walk pre seen t) (nodes t)
  | .node i c cn ps ch => by
    rw [walk_node, nodes]
    by_cases h : seen.contains i = true
    · rw [if_pos h]; exact WalkOK.skip
    · rw [if_neg h]
      have hi : i ∉ seen := by simpa using h
      exact WalkOK.visit hi (walkCh_ok pre (i :: seen) ch) rfl
        ⟨rfl, rfl, rfl, rfl, rfl⟩
theorem walkCh_ok (pre : String) (seen : List Nat) :
    (ch : List (String × Option MTree)) → WalkOK seen (walkChildren pre seen ch) (nodesCh ch)
  | [] => by rw [walkChildren_nil]; exact WalkOK.skip
  | (n, none) :: t => by
    rw [walkChildren_none, nodesCh]; exact walkCh_ok pre seen t
  | (n, some m) :: t => by
    rw [walkChildren_some, nodesCh]
    exact WalkOK.seq (walk_ok (qual pre n) seen m) (walkCh_ok pre _ t)
end

theorem walk_mono (pre : String) (seen : List Nat) (t : MTree) :
    ∀ x ∈ seen, x ∈ (walk pre seen t).1 :=
  fun x hx => ((walk_ok pre seen t).mem x).2 (Or.inl hx)

theorem walkCh_mono (pre : String) (seen : List Nat) (ch : List (String × Option MTree)) :
    ∀ x ∈ seen, x ∈ (walkChildren pre seen ch).1 :=
  fun x hx => ((walkCh_ok pre seen ch).mem x).2 (Or.inl hx)

/-! ### coverage: the memo set is closed under "child of", except at the open ancestors -/

/-- every already-seen instance that is not an open ancestor (`A`) has all its children seen -/
def Closed (T : MTree) (S A : List Nat) : Prop :=
  ∀ m ∈ nodes T, m.id ∈ S → m.id ∉ A → ∀ n c, (n, some c) ∈ m.children → c.id ∈ S

mutual
theorem walk_closed (T : MTree) (hT : IdsConsistent T) (pre : String) (seen A : List Nat) :
    (t : MTree) → (∀ m ∈ nodes t, m ∈ nodes T) → Closed T seen A →
      Closed T (walk pre seen t).1 A ∧ t.id ∈ (walk pre seen t).1
  | .node i c cn ps ch => by
    intro ht hc
    rw [walk_node]
    by_cases h : seen.contains i = true
    · rw [if_pos h]
      exact ⟨hc, by simpa [MTree.id] using h⟩
    · rw [if_neg h]
      have hsub : ∀ m ∈ nodesCh ch, m ∈ nodes T := fun m hm => ht m (by simp [nodes, hm])
      have hc' : Closed T (i :: seen) (i :: A) := by
        intro m hm hs ha n c hnc
        have hne : m.id ≠ i := fun e => ha (by simp [e])
        have hs' : m.id ∈ seen := by
          rcases List.mem_cons.1 hs with e | e
          · exact absurd e hne
          · exact e
        have ha' : m.id ∉ A := fun e => ha (by simp [e])
        exact List.mem_cons_of_mem _ (hc m hm hs' ha' n c hnc)
      obtain ⟨h1, h2⟩ := walkCh_closed T hT pre (i :: seen) (i :: A) ch hsub hc'
      refine ⟨?_, ?_⟩
      · intro m hm hs ha n c' hnc
        by_cases e : m.id = i
        · have hself : MTree.node i c cn ps ch ∈ nodes T := ht _ (by simp [nodes])
          have : m = MTree.node i c cn ps ch := hT m hm _ hself (by simpa [MTree.id] using e)
          subst this
          exact h2 n c' hnc
        · exact h1 m hm hs (by simp [e, ha]) n c' hnc
      · exact walkCh_mono pre (i :: seen) ch i (by simp)
theorem walkCh_closed (T : MTree) (hT : IdsConsistent T) (pre : String) (seen A : List Nat) :
    (ch : List (String × Option MTree)) → (∀ m ∈ nodesCh ch, m ∈ nodes T) → Closed T seen A →
      Closed T (walkChildren pre seen ch).1 A ∧
        ∀ n c, (n, some c) ∈ ch → c.id ∈ (walkChildren pre seen ch).1
  | [] => by
    intro _ hc
    rw [walkChildren_nil]
    exact ⟨hc, by simp⟩
  | (n, none) :: t => by
    intro hch hc
    rw [walkChildren_none]
    obtain ⟨h1, h2⟩ := walkCh_closed T hT pre seen A t (by simpa [nodesCh] using hch) hc
    refine ⟨h1, ?_⟩
    intro n' c' hm
    rcases List.mem_cons.1 hm with e | e
    · simp at e
    · exact h2 n' c' e
  | (n, some m) :: t => by
    intro hch hc
    rw [walkChildren_some]
    obtain ⟨h1, h2⟩ := walk_closed T hT (qual pre n) seen A m
      (fun x hx => hch x (by simp [nodesCh, hx])) hc
    obtain ⟨h3, h4⟩ := walkCh_closed T hT pre (walk (qual pre n) seen m).1 A t
      (fun x hx => hch x (by simp [nodesCh, hx])) h1
    refine ⟨h3, ?_⟩
    intro n' c' hm
    rcases List.mem_cons.1 hm with e | e
    · injection e with e1 e2
      injection e2 with e3
      subst e3
      exact walkCh_mono pre _ t _ h2
    · exact h4 n' c' e
end

/- induction along the "child of" relation reaches every node -/
mutual
theorem nodes_ind (P : MTree → Prop)
    (hstep : ∀ m, P m → ∀ n c, (n, some c) ∈ m.children → P c) :
    (t : MTree) → P t → ∀ m ∈ nodes t, P m
  | .node i c cn ps ch => by
    intro ht m hm
    rw [nodes] at hm
    rcases List.mem_cons.1 hm with e | e
    · exact e ▸ ht
    · exact nodesCh_ind P hstep ch (fun n c' h => hstep _ ht n c' h) m e
theorem nodesCh_ind (P : MTree → Prop)
    (hstep : ∀ m, P m → ∀ n c, (n, some c) ∈ m.children → P c) :
    (ch : List (String × Option MTree)) → (∀ n c, (n, some c) ∈ ch → P c) →
      ∀ m ∈ nodesCh ch, P m
  | [] => by intro _ m hm; simp [nodesCh] at hm
  | (n, none) :: t => by
    intro h m hm
    rw [nodesCh] at hm
    exact nodesCh_ind P hstep t (fun n' c' h' => h n' c' (List.mem_cons_of_mem _ h')) m hm
  | (n, some x) :: t => by
    intro h m hm
    rw [nodesCh] at hm
    rcases List.mem_append.1 hm with e | e
    · exact nodes_ind P hstep x (h n x (by simp)) m e
    · exact nodesCh_ind P hstep t (fun n' c' h' => h n' c' (List.mem_cons_of_mem _ h')) m e
end

theorem walk_complete (T : MTree) (hT : IdsConsistent T) :
    ∀ m ∈ nodes T, m.id ∈ (namedModules T).map (·.id) := by
  have hc0 : Closed T [] [] := by intro m _ hs; simp at hs
  obtain ⟨h1, h2⟩ := walk_closed T hT "" [] [] T (fun m hm => hm) hc0
  have key : ∀ m ∈ nodes T,
      (∀ x ∈ nodes m, x ∈ nodes T) ∧ m.id ∈ (walk "" [] T).1 := by
    apply nodes_ind (fun m => (∀ x ∈ nodes m, x ∈ nodes T) ∧ m.id ∈ (walk "" [] T).1)
    · rintro m ⟨hsub, hid⟩ n c hnc
      have hcsub : ∀ x ∈ nodes c, x ∈ nodes m := by
        intro x hx
        rw [nodes_eq m]
        exact List.mem_cons_of_mem _ (nodes_child_subset hnc x hx)
      refine ⟨fun x hx => hsub x (hcsub x hx), ?_⟩
      exact h1 m (hsub m (self_mem_nodes m)) hid (by simp) n c hnc
    · exact ⟨fun x hx => hx, h2⟩
  intro m hm
  have := ((walk_ok "" [] T).mem m.id).1 (key m hm).2
  simpa [namedModules] using this

/-! ### `eligible` -/

theorem eligible_false_iff (tbl : MatchTbl) (v : Visit) (bn bc : List Bool)
    (hn : assocGet? v.name tbl = some bn) (hc : assocGet? v.clsName tbl = some bc) :
    eligible tbl false v = true ↔
      v.leaf = true ∧ (v.cls = 1 ∨ v.cls = 2) ∧ (∀ b ∈ v.params, b = true) ∧
      (∀ b ∈ bn, b = false) ∧ (∀ b ∈ bc, b = false) := by
  simp [eligible, anyMatch, hn, hc]
  tauto

theorem eligible_true_iff (tbl : MatchTbl) (v : Visit) (bn bc : List Bool)
    (hn : assocGet? v.name tbl = some bn) (hc : assocGet? (lower v.clsName) tbl = some bc) :
    eligible tbl true v = true ↔
      v.leaf = true ∧ (lower v.clsName = "columnparallellinear" ∨ lower v.clsName = "rowparallellinear") ∧
      (∀ b ∈ v.params, b = true) ∧ (∀ b ∈ bn, b = false) ∧ (∀ b ∈ bc, b = false) := by
  simp [eligible, anyMatch, hn, hc]
  tauto

end KV.C16
