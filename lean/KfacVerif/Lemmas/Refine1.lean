/-
Refinement Precond ⟶ Spec, part 1: the value view of the distributed state (`lv`), the
bookkeeping-only state change `tch`, normal forms of the primitives, cell-wise effect
descriptions (`Eff`) and the fold lemmas.  Core Lean only.
-/
import KfacVerif.Model.Spec
import KfacVerif.Model.PrecondExt

namespace KV.Refine
open KV KV.Precond

/-- the real code has raised no exception so far -/
abbrev OK (s : St) : Prop := s.err = none

/-! ### bookkeeping-only changes -/

/-- change only the bookkeeping of collectives -/
def tch (s : St) (sc : List GAct) (n : Nat) : St := { s with script := sc, nIssued := n }

def rsScript (sc : List GAct) (r : Nat) (sl : Option Slot) : List GAct :=
  match sl with
  | none => sc
  | some x => match x.pend with
    | .ready => sc
    | .issued id => .wait r id :: sc
    | .queued q => .stall r q :: sc

def rsSlot (sl : Option Slot) : Option Slot :=
  match sl with
  | none => none
  | some x => match x.pend with
    | .ready => some x
    | .issued _ => some { x with pend := .ready }
    | .queued _ => some x

theorem readSlot_eq (s : St) (r : Nat) (sl : Option Slot) :
    readSlot s r sl = (tch s (rsScript s.script r sl) s.nIssued, rsSlot sl) := by
  unfold readSlot rsScript rsSlot tch
  cases sl with
  | none => rfl
  | some x => cases x with | mk v p => cases p <;> rfl

theorem issue_eq (s : St) (m : List Nat) (d : Desc) :
    issue s m d = (tch s (.issue m d :: s.script) (s.nIssued + 1), s.nIssued) := rfl

theorem emit_eq (s : St) (a : GAct) : emit s a = tch s (a :: s.script) s.nIssued := rfl

@[simp] theorem map_val_rsSlot (o : Option Slot) :
    Option.map (fun x => x.val) (rsSlot o) = Option.map (fun x => x.val) o := by
  cases o with
  | none => rfl
  | some x => cases x with | mk v p => cases p <;> rfl

@[simp] theorem rsSlot_isNone (o : Option Slot) : (rsSlot o).isNone = o.isNone := by
  cases o with
  | none => rfl
  | some x => cases x with | mk v p => cases p <;> rfl

@[simp] theorem rsSlot_isSome (o : Option Slot) : (rsSlot o).isSome = o.isSome := by
  cases o with
  | none => rfl
  | some x => cases x with | mk v p => cases p <;> rfl

@[simp] theorem rsSlot_eq_none (o : Option Slot) : (rsSlot o = none) = (o = none) := by
  cases o with
  | none => rfl
  | some x => cases x with | mk v p => cases p <;> simp [rsSlot]

@[simp] theorem tch_tch (s a n b m) : tch (tch s a n) b m = tch s b m := rfl
@[simp] theorem tch_script (s a n) : (tch s a n).script = a := rfl
@[simp] theorem tch_nIssued (s a n) : (tch s a n).nIssued = n := rfl
@[simp] theorem tch_err (s a n) : (tch s a n).err = s.err := rfl
@[simp] theorem tch_ranks (s a n) : (tch s a n).ranks = s.ranks := rfl
@[simp] theorem tch_steps (s a n) : (tch s a n).steps = s.steps := rfl
@[simp] theorem tch_mini (s a n) : (tch s a n).mini = s.mini := rfl
@[simp] theorem tch_pass (s a n) : (tch s a n).pass = s.pass := rfl
@[simp] theorem tch_hyper (s a n) : (tch s a n).hyper = s.hyper := rfl
@[simp] theorem tch_defs (s a n) : (tch s a n).defs = s.defs := rfl
@[simp] theorem tch_outGrads (s a n) : (tch s a n).outGrads = s.outGrads := rfl
@[simp] theorem tch_bucket (s a n) : (tch s a n).bucket = s.bucket := rfl
@[simp] theorem tch_nextReq (s a n) : (tch s a n).nextReq = s.nextReq := rfl
@[simp] theorem getL_tch (s a n r l) : getL (tch s a n) r l = getL s r l := rfl

/-- conditional getter reads: the `if`s are hidden in `iteS`, `iteN`, `rsIf` so that the only
    visible `if`s of a normalised step are its control flow -/
def iteS (b : Prop) [Decidable b] (a a' : List GAct) : List GAct := if b then a else a'
def iteN (b : Prop) [Decidable b] (n n' : Nat) : Nat := if b then n else n'
def rsIf (b : Prop) [Decidable b] (o : Option Slot) : Option Slot := if b then rsSlot o else o

theorem readIf_pair (b : Prop) [Decidable b] (s : St) (a n) (o : Option Slot) :
    (if b then (tch s a n, rsSlot o) else (s, o)) = (tch s (iteS b a s.script) (iteN b n s.nIssued), rsIf b o) := by
  unfold iteS iteN rsIf; split <;> rfl

theorem readUnless_pair (b : Prop) [Decidable b] (s : St) (a n) (o : Option Slot) :
    (if b then (s, o) else (tch s a n, rsSlot o)) =
      (tch s (iteS b s.script a) (iteN b s.nIssued n), rsIf (¬ b) o) := by
  unfold iteS iteN rsIf
  by_cases h : b <;> simp [h]
  rfl

theorem readIf_pair2 (b : Prop) [Decidable b] (s : St) (a n a' n') (o : Option Slot) :
    (if b then (tch s a n, rsSlot o) else (tch s a' n', o)) = (tch s (iteS b a a') (iteN b n n'), rsIf b o) := by
  unfold iteS iteN rsIf; split <;> rfl

theorem readUnless_pair2 (b : Prop) [Decidable b] (s : St) (a n a' n') (o : Option Slot) :
    (if b then (tch s a' n', o) else (tch s a n, rsSlot o)) =
      (tch s (iteS b a' a) (iteN b n' n), rsIf (¬ b) o) := by
  unfold iteS iteN rsIf
  by_cases h : b <;> simp [h]

@[simp] theorem map_val_rsIf (b : Prop) [Decidable b] (o : Option Slot) :
    Option.map (fun x => x.val) (rsIf b o) = Option.map (fun x => x.val) o := by
  unfold rsIf; split
  · exact map_val_rsSlot o
  · rfl

@[simp] theorem rsIf_isNone (b : Prop) [Decidable b] (o : Option Slot) : (rsIf b o).isNone = o.isNone := by
  unfold rsIf; split
  · exact rsSlot_isNone o
  · rfl

@[simp] theorem rsIf_isSome (b : Prop) [Decidable b] (o : Option Slot) : (rsIf b o).isSome = o.isSome := by
  unfold rsIf; split
  · exact rsSlot_isSome o
  · rfl

@[simp] theorem rsIf_eq_none (b : Prop) [Decidable b] (o : Option Slot) : (rsIf b o = none) = (o = none) := by
  unfold rsIf; split
  · exact rsSlot_eq_none o
  · rfl

/-- normal form of a per-rank step: all getter reads folded into one `tch` -/
macro "norm_reads" loc:(Lean.Parser.Tactic.location)? : tactic =>
  `(tactic| simp only [readSlot_eq, readIf_pair, readUnless_pair, readIf_pair2, readUnless_pair2, tch_tch, getL_tch, tch_script, tch_nIssued] $[$loc]?)

@[simp] theorem setL_err (s r l x) : (setL s r l x).err = s.err := rfl
@[simp] theorem setL_script (s r l x) : (setL s r l x).script = s.script := rfl
@[simp] theorem setL_nIssued (s r l x) : (setL s r l x).nIssued = s.nIssued := rfl
@[simp] theorem setL_steps (s r l x) : (setL s r l x).steps = s.steps := rfl
@[simp] theorem setL_mini (s r l x) : (setL s r l x).mini = s.mini := rfl
@[simp] theorem setL_pass (s r l x) : (setL s r l x).pass = s.pass := rfl
@[simp] theorem setL_hyper (s r l x) : (setL s r l x).hyper = s.hyper := rfl
@[simp] theorem setL_defs (s r l x) : (setL s r l x).defs = s.defs := rfl
@[simp] theorem setL_outGrads (s r l x) : (setL s r l x).outGrads = s.outGrads := rfl
@[simp] theorem setL_bucket (s r l x) : (setL s r l x).bucket = s.bucket := rfl
@[simp] theorem setL_nextReq (s r l x) : (setL s r l x).nextReq = s.nextReq := rfl

@[simp] theorem fail_err (s r w) : ((fail s r w).err = none) = False := by
  unfold fail; split <;> simp_all

theorem fail_ranks (s r w) : (fail s r w).ranks = s.ranks := by unfold fail; split <;> rfl

/-! ### the shape of the rank table -/

structure Shape (c : Cfg) (s : St) : Prop where
  len : s.ranks.length = c.world
  row : ∀ r, r < c.world → (s.ranks.getD r []).length = c.layers.length

theorem shape_tch {c s} (h : Shape c s) (a n) : Shape c (tch s a n) := ⟨h.len, h.row⟩

theorem Shape.of_ranks {c s s'} (h : Shape c s) (e : s'.ranks = s.ranks) : Shape c s' :=
  ⟨e ▸ h.len, e ▸ h.row⟩

theorem shape_setL {c s} (h : Shape c s) (r l x) : Shape c (setL s r l x) := by
  refine ⟨by simp [Precond.setL, h.len], ?_⟩
  intro r' hr'
  simp only [Precond.setL, List.getD, List.getElem?_set]
  by_cases e : r = r'
  · subst e
    have : r < s.ranks.length := by rw [h.len]; exact hr'
    simp only [this, if_true, Option.getD_some, List.length_set]
    exact h.row r hr'
  · simp only [e, if_false]; exact h.row r' hr'

theorem getL_setL_same {c s} (h : Shape c s) {r l : Nat} (hr : r < c.world) (hl : l < c.layers.length)
    (x : LState) : getL (setL s r l x) r l = x := by
  have h1 : r < s.ranks.length := by rw [h.len]; exact hr
  have h2 : l < (s.ranks.getD r []).length := by rw [h.row r hr]; exact hl
  simp only [getL, Precond.setL, List.getD, List.getElem?_set, h1, if_true, Option.getD_some]
  simp only [List.getD] at h2
  simp [h2]

theorem getL_setL_ne (s : St) {r l r' l' : Nat} (x : LState) (h : ¬ (r' = r ∧ l' = l)) :
    getL (setL s r l x) r' l' = getL s r' l' := by
  simp only [getL, Precond.setL, List.getD, List.getElem?_set]
  by_cases e : r = r'
  · subst e
    have hl : l ≠ l' := fun e => h ⟨rfl, e.symm⟩
    by_cases h1 : r < s.ranks.length
    · simp [h1, hl]
    · simp [h1]
  · simp [e]

/-! ### the value view -/

/-- the values held by one rank for one layer (futures forgotten) -/
structure LV where
  aBatch : Option V := none
  aCount : Nat := 0
  gBatch : Option V := none
  gCount : Nat := 0
  aFactor : Option V := none
  gFactor : Option V := none
  qa : Option V := none
  da : Option V := none
  qg : Option V := none
  dg : Option V := none
  dgda : Option V := none
  aInv : Option V := none
  gInv : Option V := none
  grad : Option V := none

abbrev sv (o : Option Slot) : Option V := o.map (fun x => x.val)

def lv (x : LState) : LV :=
  { aBatch := x.aBatch, aCount := x.aCount, gBatch := x.gBatch, gCount := x.gCount,
    aFactor := sv x.aFactor, gFactor := sv x.gFactor, qa := sv x.qa, da := sv x.da, qg := sv x.qg,
    dg := sv x.dg, dgda := sv x.dgda, aInv := sv x.aInv, gInv := sv x.gInv, grad := sv x.grad }

/-- value view of cell (r, l) -/
def cell (s : St) (r l : Nat) : LV := lv (getL s r l)

@[simp] theorem cell_tch (s a n r l) : cell (tch s a n) r l = cell s r l := rfl

theorem cell_setL_same {c s} (h : Shape c s) {r l : Nat} (hr : r < c.world) (hl : l < c.layers.length)
    (x : LState) : cell (setL s r l x) r l = lv x := by
  simp only [cell, getL_setL_same h hr hl]

theorem cell_setL_ne (s : St) {r l r' l' : Nat} (x : LState) (h : ¬ (r' = r ∧ l' = l)) :
    cell (setL s r l x) r' l' = cell s r' l' := by
  simp only [cell, getL_setL_ne s x h]

theorem cell_of_ranks {s s' : St} (e : s'.ranks = s.ranks) (r l) : cell s' r l = cell s r l := by
  simp only [cell, getL, e]

/-! ### same globals -/

structure Same (s s' : St) : Prop where
  steps : s'.steps = s.steps
  mini : s'.mini = s.mini
  pass : s'.pass = s.pass
  hyper : s'.hyper = s.hyper
  defs : s'.defs = s.defs
  outGrads : s'.outGrads = s.outGrads

theorem Same.refl (s) : Same s s := ⟨rfl, rfl, rfl, rfl, rfl, rfl⟩

theorem Same.trans {s s' s''} (h1 : Same s s') (h2 : Same s' s'') : Same s s'' :=
  ⟨h2.steps.trans h1.steps, h2.mini.trans h1.mini, h2.pass.trans h1.pass, h2.hyper.trans h1.hyper,
   h2.defs.trans h1.defs, h2.outGrads.trans h1.outGrads⟩

theorem same_tch (s a n) : Same s (tch s a n) := ⟨rfl, rfl, rfl, rfl, rfl, rfl⟩
theorem same_setL (s r l x) : Same s (setL s r l x) := ⟨rfl, rfl, rfl, rfl, rfl, rfl⟩
theorem same_setL_tch (s a n r l x) : Same s (setL (tch s a n) r l x) := ⟨rfl, rfl, rfl, rfl, rfl, rfl⟩

/-! ### cell-wise effects -/

/-- `s'` has the globals of `s`; the cells in `K` were transformed by `G`, all others kept their
    values -/
structure Eff (c : Cfg) (s s' : St) (K : Nat → Nat → Prop) (G : Nat → Nat → LV → LV) : Prop where
  same : Same s s'
  shape : Shape c s'
  hit : ∀ r l, K r l → cell s' r l = G r l (cell s r l)
  miss : ∀ r l, ¬ K r l → cell s' r l = cell s r l

/-- nothing but bookkeeping changed -/
def Neutral (c : Cfg) (s s' : St) : Prop := Same s s' ∧ Shape c s' ∧ ∀ r l, cell s' r l = cell s r l

theorem Neutral.refl {c s} (h : Shape c s) : Neutral c s s := ⟨Same.refl s, h, fun _ _ => rfl⟩

theorem Neutral.trans {c s s' s''} (h1 : Neutral c s s') (h2 : Neutral c s' s'') : Neutral c s s'' :=
  ⟨h1.1.trans h2.1, h2.2.1, fun r l => (h2.2.2 r l).trans (h1.2.2 r l)⟩

theorem Eff.neutral {c s s' K} (h : Eff c s s' K (fun _ _ v => v)) : Neutral c s s' :=
  ⟨h.same, h.shape, fun r l => by
    by_cases k : K r l
    · exact h.hit r l k
    · exact h.miss r l k⟩

/-- a single `setL` after bookkeeping -/
theorem Eff.setL_tch {c s} (h : Shape c s) {r l : Nat} (hr : r < c.world) (hl : l < c.layers.length)
    (a n) (x : LState) (G : Nat → Nat → LV → LV) (hx : lv x = G r l (cell s r l)) :
    Eff c s (setL (tch s a n) r l x) (fun r' l' => r' = r ∧ l' = l) G := by
  refine ⟨same_setL_tch .., shape_setL (shape_tch h a n) .., ?_, ?_⟩
  · rintro r' l' ⟨rfl, rfl⟩
    rw [cell_setL_same (shape_tch h a n) hr hl, hx]
  · intro r' l' hk
    rw [cell_setL_ne _ _ hk, cell_tch]

/-! ### folds -/

theorem mem_worldRanks {c : Cfg} {r : Nat} : r ∈ worldRanks c ↔ r < c.world := by
  simp [worldRanks]

theorem mem_layerIdxs {c : Cfg} {l : Nat} : l ∈ layerIdxs c ↔ l < c.layers.length := by
  simp [layerIdxs]

theorem mem_revLayers {c : Cfg} {l : Nat} : l ∈ revLayers c ↔ l < c.layers.length := by
  simp [revLayers, layerIdxs]

theorem worldRanks_pairwise (c : Cfg) (l : Nat) :
    (worldRanks c).Pairwise (fun x y => ∀ r l', (r = x ∧ l' = l) → ¬ (r = y ∧ l' = l)) := by
  have : (worldRanks c).Pairwise (· ≠ ·) := (List.nodup_range (n := c.world))
  exact this.imp (fun hne r l' h1 h2 => hne (h1.1.symm.trans h2.1))

theorem foldl_mono {α} (Q : St → Prop) (f : St → α → St) (hmono : ∀ s x, Q (f s x) → Q s) (xs : List α)
    (s : St) (h : Q (xs.foldl f s)) : Q s := by
  induction xs generalizing s with
  | nil => exact h
  | cons a t ih => exact hmono _ _ (ih _ h)

theorem foldl_ok {α} (f : St → α → St) (hmono : ∀ s x, OK (f s x) → OK s) (xs : List α) (s : St)
    (h : OK (xs.foldl f s)) : OK s := foldl_mono OK f hmono xs s h

theorem foldl_inv {α} (P : St → Prop) (f : St → α → St) (xs : List α) (s : St)
    (hmono : ∀ s x, OK (f s x) → OK s)
    (hstep : ∀ s x, x ∈ xs → P s → OK (f s x) → P (f s x))
    (h0 : P s) (he : OK (xs.foldl f s)) : P (xs.foldl f s) := by
  induction xs generalizing s with
  | nil => exact h0
  | cons a t ih =>
    simp only [List.foldl_cons] at he ⊢
    have h1 : OK (f s a) := foldl_ok f hmono t _ he
    exact ih _ (fun s x hx => hstep s x (by simp [hx])) (hstep s a (by simp) h0 h1) he

/-- folding steps that each transform their own cells by `G`; `Q` is the side condition under
    which the steps are described (`OK` for steps that may raise, `True` otherwise) -/
theorem foldl_effQ {α} (Q : St → Prop) (c : Cfg) (f : St → α → St) (K : α → Nat → Nat → Prop)
    (G : Nat → Nat → LV → LV) (xs : List α) (s0 : St)
    (hG : (∀ r l v, G r l (G r l v) = G r l v) ∨ xs.Pairwise (fun x y => ∀ r l, K x r l → ¬ K y r l))
    (hmono : ∀ s x, Q (f s x) → Q s)
    (hstep : ∀ s x, x ∈ xs → Same s0 s → Shape c s → Q (f s x) → Eff c s (f s x) (K x) G)
    (hs : Shape c s0) (he : Q (xs.foldl f s0)) :
    Eff c s0 (xs.foldl f s0) (fun r l => ∃ x, x ∈ xs ∧ K x r l) G := by
  induction xs generalizing s0 with
  | nil =>
    exact ⟨Same.refl _, hs, fun r l ⟨x, hx, _⟩ => by simp at hx, fun _ _ _ => rfl⟩
  | cons a t ih =>
    simp only [List.foldl_cons] at he ⊢
    have h1 : Q (f s0 a) := foldl_mono Q f hmono t _ he
    have e1 := hstep s0 a (by simp) (Same.refl _) hs h1
    have hG' : (∀ r l v, G r l (G r l v) = G r l v) ∨ t.Pairwise (fun x y => ∀ r l, K x r l → ¬ K y r l) := by
      rcases hG with h | h
      · exact Or.inl h
      · exact Or.inr (List.pairwise_cons.mp h).2
    have e2 := ih (f s0 a) hG'
      (fun s x hx hsm hsh hok => hstep s x (by simp [hx]) (e1.same.trans hsm) hsh hok) e1.shape he
    refine ⟨e1.same.trans e2.same, e2.shape, ?_, ?_⟩
    · rintro r l ⟨x, hx, hk⟩
      by_cases k2 : ∃ x, x ∈ t ∧ K x r l
      · rw [e2.hit r l k2]
        by_cases k1 : K a r l
        · rw [e1.hit r l k1]
          rcases hG with h | h
          · exact h r l _
          · obtain ⟨y, hy, hky⟩ := k2
            exact absurd hky ((List.pairwise_cons.mp h).1 y hy r l k1)
        · rw [e1.miss r l k1]
      · rw [e2.miss r l k2]
        have : x = a := by
          rcases List.mem_cons.mp hx with h | h
          · exact h
          · exact absurd ⟨x, h, hk⟩ k2
        subst this
        exact e1.hit r l hk
    · intro r l hk
      have k2 : ¬ ∃ x, x ∈ t ∧ K x r l := fun ⟨x, hx, h⟩ => hk ⟨x, by simp [hx], h⟩
      have k1 : ¬ K a r l := fun h => hk ⟨a, by simp, h⟩
      rw [e2.miss r l k2, e1.miss r l k1]

theorem foldl_eff {α} (c : Cfg) (f : St → α → St) (K : α → Nat → Nat → Prop) (G : Nat → Nat → LV → LV)
    (xs : List α) (s0 : St)
    (hG : (∀ r l v, G r l (G r l v) = G r l v) ∨ xs.Pairwise (fun x y => ∀ r l, K x r l → ¬ K y r l))
    (hmono : ∀ s x, OK (f s x) → OK s)
    (hstep : ∀ s x, x ∈ xs → Same s0 s → Shape c s → OK (f s x) → Eff c s (f s x) (K x) G)
    (hs : Shape c s0) (he : OK (xs.foldl f s0)) :
    Eff c s0 (xs.foldl f s0) (fun r l => ∃ x, x ∈ xs ∧ K x r l) G :=
  foldl_effQ OK c f K G xs s0 hG hmono hstep hs he

/-- the same for steps that never raise -/
theorem foldl_effT {α} (c : Cfg) (f : St → α → St) (K : α → Nat → Nat → Prop) (G : Nat → Nat → LV → LV)
    (xs : List α) (s0 : St)
    (hG : (∀ r l v, G r l (G r l v) = G r l v) ∨ xs.Pairwise (fun x y => ∀ r l, K x r l → ¬ K y r l))
    (hstep : ∀ s x, x ∈ xs → Same s0 s → Shape c s → Eff c s (f s x) (K x) G)
    (hs : Shape c s0) :
    Eff c s0 (xs.foldl f s0) (fun r l => ∃ x, x ∈ xs ∧ K x r l) G :=
  foldl_effQ (fun _ => True) c f K G xs s0 hG (fun _ _ _ => trivial)
    (fun s x hx hsm hsh _ => hstep s x hx hsm hsh) hs trivial

/-- restating the cell set of an effect -/
theorem Eff.congrK {c s s' K K' G} (h : Eff c s s' K G) (hk : ∀ r l, K r l ↔ K' r l) : Eff c s s' K' G :=
  ⟨h.same, h.shape, fun r l k => h.hit r l ((hk r l).mpr k), fun r l k => h.miss r l (fun k' => k ((hk r l).mp k'))⟩

/-- a loop over the ranks whose step `r` transforms cell `(r, l)` -/
theorem forRanks_effQ (Q : St → Prop) (c : Cfg) (f : St → Nat → St) (l : Nat) (G : Nat → Nat → LV → LV) (s0 : St)
    (hmono : ∀ s x, Q (f s x) → Q s)
    (hstep : ∀ s x, x < c.world → Same s0 s → Shape c s → Q (f s x) →
      Eff c s (f s x) (fun r' l' => r' = x ∧ l' = l) G)
    (hs : Shape c s0) (he : Q (forRanks c s0 f)) :
    Eff c s0 (forRanks c s0 f) (fun r' l' => r' < c.world ∧ l' = l) G := by
  have e := foldl_effQ Q c f (fun x r' l' => r' = x ∧ l' = l) G (worldRanks c) s0
    (Or.inr (worldRanks_pairwise c l)) hmono
    (fun s x hx => hstep s x (mem_worldRanks.mp hx)) hs he
  refine e.congrK (fun r' l' => ⟨?_, ?_⟩)
  · rintro ⟨x, hx, rfl, h2⟩
    exact ⟨mem_worldRanks.mp hx, h2⟩
  · rintro ⟨h1, h2⟩
    exact ⟨r', mem_worldRanks.mpr h1, rfl, h2⟩


/-- a fold whose steps keep `Inv`, keep `Good`, and whose step `a` establishes `Good` -/
theorem foldl_est {α} (Inv Good : St → Prop) (f : St → α → St) (xs : List α) (a : α) (ha : a ∈ xs)
    (hmono : ∀ s x, OK (f s x) → OK s)
    (hinv : ∀ s x, x ∈ xs → Inv s → OK (f s x) → Inv (f s x))
    (hkeep : ∀ s x, x ∈ xs → Inv s → Good s → OK (f s x) → Good (f s x))
    (hest : ∀ s, Inv s → OK (f s a) → Good (f s a))
    (s : St) (h0 : Inv s) (he : OK (xs.foldl f s)) : Inv (xs.foldl f s) ∧ Good (xs.foldl f s) := by
  induction xs generalizing s with
  | nil => simp at ha
  | cons x t ih =>
    simp only [List.foldl_cons] at he ⊢
    have h1 : OK (f s x) := foldl_ok f hmono t _ he
    have hi1 := hinv s x (by simp) h0 h1
    by_cases hax : a = x
    · subst hax
      have hg1 := hest s h0 h1
      exact foldl_inv (fun s => Inv s ∧ Good s) f t _ hmono
        (fun s y hy ⟨hi, hg⟩ hok => ⟨hinv s y (by simp [hy]) hi hok, hkeep s y (by simp [hy]) hi hg hok⟩)
        ⟨hi1, hg1⟩ he
    · have hat : a ∈ t := by
        rcases List.mem_cons.mp ha with h | h
        · exact absurd h hax
        · exact h
      exact ih hat (fun s y hy => hinv s y (by simp [hy])) (fun s y hy => hkeep s y (by simp [hy])) _ hi1 he

theorem Eff.comp {c s s1 s2 K G1 G2} (h1 : Eff c s s1 K G1) (h2 : Eff c s1 s2 K G2) :
    Eff c s s2 K (fun r l v => G2 r l (G1 r l v)) :=
  ⟨h1.same.trans h2.same, h2.shape, fun r l k => by rw [h2.hit r l k, h1.hit r l k],
   fun r l k => by rw [h2.miss r l k, h1.miss r l k]⟩

theorem Eff.congrG {c s s' K G G'} (h : Eff c s s' K G)
    (hg : ∀ r l, K r l → G r l (cell s r l) = G' r l (cell s r l)) : Eff c s s' K G' :=
  ⟨h.same, h.shape, fun r l k => by rw [h.hit r l k, hg r l k], h.miss⟩

/-- finish a normalised per-rank step `OK (F s) → Eff c s (F s) K G`: split the control flow;
    raising leaves contradict `OK`, the others are a `setL` after bookkeeping -/
macro "step_leaves" hs:ident hr:ident hl:ident "[" defs:Lean.Parser.Tactic.simpLemma,* "]" : tactic =>
  `(tactic| ((repeat' split) <;>
      (intro he
       first
         | (simp at he; done)
         | (apply Eff.setL_tch $hs $hr $hl
            first
              | (simp_all [lv, cell, $defs,*]; done)
              | (simp_all [lv, cell, $defs,*]; grind)
              | (simp [lv, cell, $defs,*]; grind)))))

/-- `OK (F s) → OK s` for a normalised per-rank step -/
macro "step_ok" he:ident : tactic =>
  `(tactic| ((repeat' split at $he:ident) <;> first | exact $he | (simp at $he:ident; done)))

end KV.Refine
