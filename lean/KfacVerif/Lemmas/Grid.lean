/-
Helper lemmas for C06 about the k×p grid (`cols`, `rows`).
(Single Mathlib modules may be imported here; never `import Mathlib`.)
-/
import KfacVerif.Model.Kaisa
import Mathlib.Tactic.Linarith
import Mathlib.Tactic.Ring
import Mathlib.Tactic.Positivity
import Mathlib.Algebra.Order.Field.Basic
import Mathlib.Algebra.Order.AbsoluteValue.Basic

namespace KV.Kaisa
open KV

/-! ### grid arithmetic -/

theorem grid_lt {k p i j : Nat} (hi : i < p) (hj : j < k) : i + j * p < k * p := by
  have h1 : (j + 1) * p ≤ k * p := Nat.mul_le_mul_right p hj
  have h2 : (j + 1) * p = j * p + p := Nat.succ_mul j p
  omega

theorem grid_mod {p i j : Nat} (hi : i < p) : (i + j * p) % p = i := by
  rw [Nat.add_mul_mod_self_right, Nat.mod_eq_of_lt hi]

theorem grid_div {p i j : Nat} (hi : i < p) : (i + j * p) / p = j := by
  have hp : 0 < p := by omega
  rw [Nat.add_mul_div_right _ _ hp, Nat.div_eq_of_lt hi, Nat.zero_add]

/-- column `i` of the `k × p` grid -/
def col (p k i : Nat) : List Nat := (List.range k).map fun j => i + j * p

/-- row `i` of the `k × p` grid -/
def row (p i : Nat) : List Nat := (List.range p).map fun j => i * p + j

theorem cols_eq {k : Nat} (p : Nat) (hk : 0 < k) :
    cols (k * p) k = (List.range p).map (col p k) := by
  simp [cols, col, Nat.mul_div_cancel_left p hk]

theorem rows_eq {k : Nat} (p : Nat) (hk : 0 < k) :
    rows (k * p) k = (List.range k).map (row p) := by
  simp [rows, row, Nat.mul_div_cancel_left p hk]

theorem mem_col {p k i r : Nat} : r ∈ col p k i ↔ ∃ j, j < k ∧ r = i + j * p := by
  simp [col, eq_comm]

theorem mem_row {p i r : Nat} : r ∈ row p i ↔ ∃ j, j < p ∧ r = i * p + j := by
  simp [row, eq_comm]

theorem mem_cols {k p : Nat} (hk : 0 < k) {g : List Nat} :
    g ∈ cols (k * p) k ↔ ∃ i, i < p ∧ g = col p k i := by
  simp [cols_eq p hk, eq_comm]

theorem mem_rows {k p : Nat} (hk : 0 < k) {g : List Nat} :
    g ∈ rows (k * p) k ↔ ∃ i, i < k ∧ g = row p i := by
  simp [rows_eq p hk, eq_comm]

theorem col_length (p k i : Nat) : (col p k i).length = k := by simp [col]

theorem row_length (p i : Nat) : (row p i).length = p := by simp [row]

theorem col_nodup {p k i : Nat} (hp : 0 < p) : (col p k i).Nodup := by
  unfold col
  refine (List.nodup_map_iff_inj_on List.nodup_range).2 ?_
  intro a _ b _ h
  have : a * p = b * p := by omega
  exact Nat.eq_of_mul_eq_mul_right hp this

theorem row_nodup (p i : Nat) : (row p i).Nodup := by
  unfold row
  refine (List.nodup_map_iff_inj_on List.nodup_range).2 ?_
  intro a _ b _ h
  omega

theorem col_lt {p k i r : Nat} (hi : i < p) (hr : r ∈ col p k i) : r < k * p := by
  obtain ⟨j, hj, rfl⟩ := mem_col.1 hr
  exact grid_lt hi hj

theorem row_lt {p k i r : Nat} (hi : i < k) (hr : r ∈ row p i) : r < k * p := by
  obtain ⟨j, hj, rfl⟩ := mem_row.1 hr
  have := grid_lt hj hi
  omega

theorem mem_col_iff {p k i r : Nat} (hi : i < p) : r ∈ col p k i ↔ r < k * p ∧ r % p = i := by
  constructor
  · intro h
    refine ⟨col_lt hi h, ?_⟩
    obtain ⟨j, _, rfl⟩ := mem_col.1 h
    exact grid_mod hi
  · rintro ⟨hr, rfl⟩
    refine mem_col.2 ⟨r / p, ?_, ?_⟩
    · exact Nat.div_lt_of_lt_mul (by rwa [Nat.mul_comm] at hr)
    · have := Nat.mod_add_div r p
      rw [Nat.mul_comm] at this
      omega

theorem mem_row_iff {p k i r : Nat} (hp : 0 < p) (hi : i < k) : r ∈ row p i ↔ r < k * p ∧ r / p = i := by
  constructor
  · intro h
    refine ⟨row_lt hi h, ?_⟩
    obtain ⟨j, hj, rfl⟩ := mem_row.1 h
    rw [Nat.add_comm]; exact grid_div hj
  · rintro ⟨hr, rfl⟩
    refine mem_row.2 ⟨r % p, Nat.mod_lt _ hp, ?_⟩
    have := Nat.div_add_mod r p
    rw [Nat.mul_comm] at this
    omega

/-! ### the five grid facts, in the form used by `Props/C06.lean` -/

theorem cols_length' {w k : Nat} (hk : 0 < k) (hd : k ∣ w) :
    (cols w k).length = w / k ∧ ∀ g ∈ cols w k, g.length = k ∧ g.Nodup ∧ ∀ r ∈ g, r < w := by
  obtain ⟨p, rfl⟩ := hd
  refine ⟨by simp [cols], ?_⟩
  intro g hg
  obtain ⟨i, hi, rfl⟩ := (mem_cols hk).1 hg
  exact ⟨col_length _ _ _, col_nodup (by omega), fun r hr => col_lt hi hr⟩

theorem rows_length' {w k : Nat} (hk : 0 < k) (hd : k ∣ w) :
    (rows w k).length = k ∧ ∀ g ∈ rows w k, g.length = w / k ∧ g.Nodup ∧ ∀ r ∈ g, r < w := by
  obtain ⟨p, rfl⟩ := hd
  refine ⟨by simp [rows], ?_⟩
  intro g hg
  obtain ⟨i, hi, rfl⟩ := (mem_rows hk).1 hg
  rw [Nat.mul_div_cancel_left p hk]
  exact ⟨row_length _ _, row_nodup _ _, fun r hr => row_lt hi hr⟩

theorem cols_cover_unique' {w k : Nat} (hk : 0 < k) (hd : k ∣ w) {r : Nat} (hr : r < w) :
    ∃ g ∈ cols w k, r ∈ g ∧ ∀ g' ∈ cols w k, r ∈ g' → g' = g := by
  obtain ⟨p, rfl⟩ := hd
  have hp : 0 < p := Nat.pos_of_ne_zero (by rintro rfl; simp at hr)
  have hi : r % p < p := Nat.mod_lt _ hp
  refine ⟨col p k (r % p), (mem_cols hk).2 ⟨_, hi, rfl⟩, (mem_col_iff hi).2 ⟨hr, rfl⟩, ?_⟩
  intro g' hg' hr'
  obtain ⟨i, hi', rfl⟩ := (mem_cols hk).1 hg'
  rw [((mem_col_iff hi').1 hr').2]

theorem rows_cover_unique' {w k : Nat} (hk : 0 < k) (hd : k ∣ w) {r : Nat} (hr : r < w) :
    ∃ g ∈ rows w k, r ∈ g ∧ ∀ g' ∈ rows w k, r ∈ g' → g' = g := by
  obtain ⟨p, rfl⟩ := hd
  have hp : 0 < p := Nat.pos_of_ne_zero (by rintro rfl; simp at hr)
  have hi : r / p < k := Nat.div_lt_of_lt_mul (by rwa [Nat.mul_comm] at hr)
  refine ⟨row p (r / p), (mem_rows hk).2 ⟨_, hi, rfl⟩, (mem_row_iff hp hi).2 ⟨hr, rfl⟩, ?_⟩
  intro g' hg' hr'
  obtain ⟨i, hi', rfl⟩ := (mem_rows hk).1 hg'
  rw [((mem_row_iff hp hi').1 hr').2]

theorem row_col_meet_once' {w k : Nat} (hk : 0 < k) (hd : k ∣ w) {R C : List Nat}
    (hR : R ∈ rows w k) (hC : C ∈ cols w k) :
    ∃ r, r ∈ R ∧ r ∈ C ∧ ∀ r', r' ∈ R → r' ∈ C → r' = r := by
  obtain ⟨p, rfl⟩ := hd
  obtain ⟨i, hi, rfl⟩ := (mem_rows hk).1 hR
  obtain ⟨j, hj, rfl⟩ := (mem_cols hk).1 hC
  have hp : 0 < p := by omega
  have hlt : j + i * p < k * p := grid_lt hj hi
  refine ⟨j + i * p, (mem_row_iff hp hi).2 ⟨hlt, grid_div hj⟩, (mem_col_iff hj).2 ⟨hlt, grid_mod hj⟩, ?_⟩
  intro r' h1 h2
  have a := ((mem_row_iff hp hi).1 h1).2
  have b := ((mem_col_iff hj).1 h2).2
  have := Nat.mod_add_div r' p
  rw [a, b, Nat.mul_comm] at this
  omega

/-! ### `find?` of the group containing a rank -/

theorem find_unique {L : List (List Nat)} {r : Nat} {g : List Nat} (hg : g ∈ L) (hr : r ∈ g)
    (huniq : ∀ g' ∈ L, r ∈ g' → g' = g) :
    L.find? (fun g => g.contains r) = some g := by
  cases h : L.find? (fun g => g.contains r) with
  | none =>
    have := List.find?_eq_none.1 h g hg
    simp [hr] at this
  | some g' =>
    have h1 := List.find?_some h
    have h2 := List.mem_of_find?_eq_some h
    simp only [List.contains_iff_mem] at h1
    rw [huniq g' h2 h1]

theorem find_col {w k r : Nat} (hk : 0 < k) (hd : k ∣ w) {g : List Nat} (hg : g ∈ cols w k)
    (hr : r ∈ g) : (cols w k).find? (fun g => g.contains r) = some g := by
  have hrw : r < w := ((cols_length' hk hd).2 g hg).2.2 r hr
  obtain ⟨g0, _, _, hu⟩ := cols_cover_unique' hk hd hrw
  refine find_unique hg hr ?_
  intro g' hg' hr'
  rw [hu g' hg' hr', hu g hg hr]

theorem find_row {w k r : Nat} (hk : 0 < k) (hd : k ∣ w) {g : List Nat} (hg : g ∈ rows w k)
    (hr : r ∈ g) : (rows w k).find? (fun g => g.contains r) = some g := by
  have hrw : r < w := ((rows_length' hk hd).2 g hg).2.2 r hr
  obtain ⟨g0, _, _, hu⟩ := rows_cover_unique' hk hd hrw
  refine find_unique hg hr ?_
  intro g' hg' hr'
  rw [hu g' hg' hr', hu g hg hr]

/-! ### every placement record stays inside one group -/

theorem argminIdx_lt : ∀ {l : List Nat}, l ≠ [] → argminIdx l < l.length
  | [], h => absurd rfl h
  | [_], _ => by simp [argminIdx]
  | x :: y :: ys, _ => by
    have ih := argminIdx_lt (l := y :: ys) (by simp)
    unfold argminIdx
    simp only []
    split <;> simp_all

theorem getD_argmin_mem {α} (L : List α) (f : α → Nat) (d : α) (hL : L ≠ []) :
    L.getD (argminIdx (L.map f)) d ∈ L := by
  have h : argminIdx (L.map f) < L.length := by
    have := argminIdx_lt (l := L.map f) (by simpa using hL)
    simpa using this
  rw [List.getD_eq_getElem?_getD, List.getElem?_eq_getElem h, Option.getD_some]
  exact List.getElem_mem h

theorem minWorker_mem (loads : List Nat) {g : List Nat} (hg : g ≠ []) : minWorker loads g ∈ g :=
  getD_argmin_mem g _ 0 hg

theorem placeFactors_mem {g : List Nat} (hg : g ≠ []) :
    ∀ (fs : List (String × Nat)) (loads : List Nat),
      ∀ it ∈ (placeFactors g loads fs).2, it.2.1 ∈ g
  | [], loads => by simp [placeFactors]
  | (f, c) :: t, loads => by
    intro it hit
    simp only [placeFactors, List.mem_cons] at hit
    rcases hit with rfl | hit
    · exact minWorker_mem loads hg
    · exact placeFactors_mem hg t _ it hit

theorem placeLayer_confined {groups : List (List Nat)} (hne : groups ≠ [])
    (hgne : ∀ g ∈ groups, g ≠ []) (col : Bool) (loads : List Nat)
    (layer : String × List (String × Nat)) :
    ∃ g ∈ groups, ∀ it ∈ (placeLayer groups col loads layer).2.items, it.2.1 ∈ g := by
  have hmem := getD_argmin_mem groups (loadOf loads) [] hne
  refine ⟨_, hmem, ?_⟩
  have hg := hgne _ hmem
  intro it hit
  cases col with
  | true =>
    simp only [placeLayer, if_true, List.mem_map] at hit
    obtain ⟨fc, _, rfl⟩ := hit
    exact minWorker_mem loads hg
  | false =>
    simp only [placeLayer] at hit
    exact placeFactors_mem hg _ _ it hit

theorem placeAll_confined {groups : List (List Nat)} (hne : groups ≠ [])
    (hgne : ∀ g ∈ groups, g ≠ []) (col : Bool) :
    ∀ (layers : List (String × List (String × Nat))) (loads : List Nat),
      ∀ p ∈ (placeAll groups col loads layers).2, ∃ g ∈ groups, ∀ it ∈ p.items, it.2.1 ∈ g
  | [], loads => by simp [placeAll]
  | l :: t, loads => by
    intro p hp
    simp only [placeAll, List.mem_cons] at hp
    rcases hp with rfl | hp
    · exact placeLayer_confined hne hgne col loads l
    · exact placeAll_confined hne hgne col t _ p hp

/-- all ranks the placement records give to the factors of one layer lie in ONE group
    (needs only: at least one group, no empty group) -/
theorem lookupPlacement_confined {groups : List (List Nat)} (hne : groups ≠ [])
    (hgne : ∀ g ∈ groups, g ≠ []) (work : Work) (world : Nat) (col : Bool) (layer : String) :
    ∃ g ∈ groups, ∀ f r,
      lookupPlacement (placements work groups world col) layer f = some r → r ∈ g := by
  unfold lookupPlacement
  cases h : (placements work groups world col).find? (fun p => p.layer == layer) with
  | none =>
    obtain ⟨g, hg⟩ := List.exists_mem_of_ne_nil _ hne
    exact ⟨g, hg, by simp⟩
  | some p =>
    have hp := List.mem_of_find?_eq_some h
    obtain ⟨g, hg, hall⟩ := placeAll_confined hne hgne col _ _ p hp
    refine ⟨g, hg, ?_⟩
    intro f r hr
    simp only [Option.map_eq_some_iff] at hr
    obtain ⟨it, hit, rfl⟩ := hr
    exact hall it (List.mem_of_find?_eq_some hit)

/-! ### association lists -/

theorem assocGet?_map {β γ} (k : String) (F : String → β → γ) :
    ∀ xs : List (String × β),
      assocGet? k (xs.map fun x => (x.1, F x.1 x.2)) = (assocGet? k xs).map (F k)
  | [] => rfl
  | (k', v) :: t => by
    simp only [List.map_cons, assocGet?]
    by_cases h : k' = k
    · subst h; simp
    · simp [h, assocGet?_map k F t]

theorem assocGet?_of_mem_nodup {β} :
    ∀ {xs : List (String × β)}, (xs.map (·.1)).Nodup → ∀ {x}, x ∈ xs → assocGet? x.1 xs = some x.2
  | [], _, _, hx => by simp at hx
  | (k', v) :: t, hnd, x, hx => by
    simp only [List.map_cons, List.nodup_cons] at hnd
    simp only [assocGet?]
    rcases List.mem_cons.1 hx with rfl | hx'
    · simp
    · have : k' ≠ x.1 := by
        rintro rfl
        exact hnd.1 (List.mem_map_of_mem hx')
      simp [this, assocGet?_of_mem_nodup hnd.2 hx']

theorem assocGet?_isSome_of_mem {β} :
    ∀ {xs : List (String × β)} {x}, x ∈ xs → ∃ v, assocGet? x.1 xs = some v
  | [], _, hx => by simp at hx
  | (k', v) :: t, x, hx => by
    simp only [assocGet?]
    by_cases h : k' = x.1
    · simp [h]
    · rcases List.mem_cons.1 hx with rfl | hx
      · exact absurd rfl h
      · simpa [h] using assocGet?_isSome_of_mem hx

/-! ### queries of a constructed assignment -/

/-- the rank `greedy` records for a factor -/
def rankOf (c : Cfg) (layer factor : String) : Nat :=
  (lookupPlacement (placements c.work c.gOrder c.w c.colocate) layer factor).getD 0

theorem assign_get {c : Cfg} (hnd : (c.work.map (·.1)).Nodup)
    {l : String × List (String × Nat)} (hl : l ∈ c.work) :
    assocGet? l.1 c.assign = some (l.2.map fun y => (y.1, rankOf c l.1 y.1)) := by
  have := assocGet?_map l.1
    (fun layer (fs : List (String × Nat)) => fs.map fun y => (y.1, rankOf c layer y.1)) c.work
  rw [assocGet?_of_mem_nodup hnd hl] at this
  exact this

theorem invWorker_eq {c : Cfg} (hnd : (c.work.map (·.1)).Nodup)
    {l : String × List (String × Nat)} (hl : l ∈ c.work) {f : String × Nat} (hf : f ∈ l.2) :
    c.invWorker l.1 f.1 = some (rankOf c l.1 f.1) := by
  unfold Cfg.invWorker
  rw [assign_get hnd hl, Option.bind_some]
  obtain ⟨v, hv⟩ := assocGet?_isSome_of_mem hf
  rw [assocGet?_map f.1 (fun f (_ : Nat) => rankOf c l.1 f) l.2, hv]
  rfl

theorem layerWorker_eq {c : Cfg} (hnd : (c.work.map (·.1)).Nodup)
    {l : String × List (String × Nat)} (hl : l ∈ c.work) (hne : l.2 ≠ []) :
    ∃ f ∈ l.2, c.layerWorker l.1 = some (rankOf c l.1 f.1) := by
  unfold Cfg.layerWorker
  rw [assign_get hnd hl, Option.bind_some]
  refine ⟨l.2.getLast hne, List.getLast_mem hne, ?_⟩
  rw [List.getLast?_map, List.getLast?_eq_some_getLast hne]
  rfl

/-- core of the assignment part of C06: the worker group of a layer is a column and contains
    the inverse worker of every factor of the layer.  `hcomplete` is `C17.complete_assigned`. -/
theorem assign_core {c : Cfg} (hk : 0 < c.k) (hd : c.k ∣ c.w) (hgne : c.gOrder ≠ [])
    (hperm : ∀ g ∈ c.gOrder, ∃ g' ∈ cols c.w c.k, g.Perm g')
    (hnd : (c.work.map (·.1)).Nodup)
    {l : String × List (String × Nat)} (hl : l ∈ c.work) (hne : l.2 ≠ [])
    (hcomplete : ∀ f ∈ l.2, ∃ r,
      lookupPlacement (placements c.work c.gOrder c.w c.colocate) l.1 f.1 = some r) :
    c.workerGroup l.1 ∈ cols c.w c.k ∧
      ∀ f ∈ l.2, ∃ r, c.invWorker l.1 f.1 = some r ∧ r ∈ c.workerGroup l.1 := by
  have hgne' : ∀ g ∈ c.gOrder, g ≠ [] := by
    intro g hg
    obtain ⟨g', hg', hp⟩ := hperm g hg
    have hlen := ((cols_length' hk hd).2 g' hg').1
    rintro rfl
    have := hp.length_eq
    simp at this
    omega
  obtain ⟨g, hg, hconf⟩ := lookupPlacement_confined hgne hgne' c.work c.w c.colocate l.1
  obtain ⟨C, hC, hp⟩ := hperm g hg
  have hrank : ∀ f ∈ l.2, rankOf c l.1 f.1 ∈ C := by
    intro f hf
    obtain ⟨r, hr⟩ := hcomplete f hf
    have : rankOf c l.1 f.1 = r := by simp [rankOf, hr]
    rw [this]
    exact hp.mem_iff.1 (hconf _ _ hr)
  obtain ⟨fl, hfl, hlw⟩ := layerWorker_eq hnd hl hne
  have hwg : c.workerGroup l.1 = C := by
    unfold Cfg.workerGroup
    rw [hlw]
    simp only []
    rw [find_col hk hd hC (hrank fl hfl)]
    rfl
  rw [hwg]
  exact ⟨hC, fun f hf => ⟨_, invWorker_eq hnd hl hf, hrank f hf⟩⟩

theorem receiverGroup_spec {c : Cfg} (hk : 0 < c.k) (hd : c.k ∣ c.w) {loc : Nat} (hloc : loc < c.w) :
    c.receiverGroup loc ∈ rows c.w c.k ∧ loc ∈ c.receiverGroup loc := by
  obtain ⟨R, hR, hmem, _⟩ := rows_cover_unique' hk hd hloc
  have : c.receiverGroup loc = R := by
    unfold Cfg.receiverGroup
    rw [find_row hk hd hR hmem]
    rfl
  rw [this]
  exact ⟨hR, hmem⟩

theorem src_core {c : Cfg} (hk : 0 < c.k) (hd : c.k ∣ c.w) {loc : Nat} (hloc : loc < c.w)
    {layer : String} (hC : c.workerGroup layer ∈ cols c.w c.k) :
    ∃ s, c.srcGradWorker loc layer = some s ∧ s ∈ c.workerGroup layer ∧ s ∈ c.receiverGroup loc ∧
      (∀ s', s' ∈ c.workerGroup layer → s' ∈ c.receiverGroup loc → s' = s) ∧
      (c.isGradWorker loc layer = true → s = loc) := by
  obtain ⟨hR, hlocR⟩ := receiverGroup_spec hk hd hloc
  obtain ⟨s, hsR, hsC, hu⟩ := row_col_meet_once' hk hd hR hC
  have hfind : c.srcGradWorker loc layer = some s := by
    unfold Cfg.srcGradWorker
    cases h : (c.receiverGroup loc).find? (fun r => (c.workerGroup layer).contains r) with
    | none =>
      have := List.find?_eq_none.1 h s hsR
      simp [hsC] at this
    | some s' =>
      have h1 := List.find?_some h
      have h2 := List.mem_of_find?_eq_some h
      simp only [List.contains_iff_mem] at h1
      rw [hu s' h2 h1]
  refine ⟨s, hfind, hsC, hsR, fun s' a b => hu s' b a, ?_⟩
  intro hw
  simp only [Cfg.isGradWorker, List.contains_iff_mem] at hw
  exact (hu loc hlocR hw).symm

theorem src_is_worker' {c : Cfg} {loc : Nat} {layer : String} {s : Nat}
    (hs : c.srcGradWorker loc layer = some s) : c.isGradWorker s layer = true := by
  unfold Cfg.srcGradWorker at hs
  have := List.find?_some hs
  simpa [Cfg.isGradWorker] using this

/-! ### strategy and fraction validation -/

theorem strategy_spec' (w k : Nat) :
    (strategyOf w k = .commOpt ↔ k = w) ∧
    (strategyOf w k = .memOpt ↔ k ≠ w ∧ k ≤ 1) ∧
    (strategyOf w k = .hybridOpt ↔ k ≠ w ∧ 1 < k) := by
  unfold strategyOf
  by_cases h1 : k = w <;> by_cases h2 : k ≤ 1 <;> simp [h1, h2]
  all_goals omega

theorem validate_accepts' {w k loc : Nat} (hk : 0 < k) (hd : k ∣ w) (hw : 0 < w) (hloc : loc < w) :
    validate w k w loc = .ok k := by
  have hkw : k ≤ w := Nat.le_of_dvd hw hd
  have h1 : ¬ w = 0 := by omega
  have h2 : ¬ k > w := by omega
  have h3 : ¬ w * k < w := by
    have : w * 1 ≤ w * k := Nat.mul_le_mul_left w hk
    omega
  have h4 : w * k / w = k := Nat.mul_div_cancel_left k hw
  have h5 : (w * k) % w = 0 := Nat.mul_mod_right w k
  have h6 : w % k = 0 := Nat.mod_eq_zero_of_dvd hd
  have h7 : ¬ loc ≥ w := by omega
  simp [validate, h1, h2, h3, h4, h5, h6, h7]

theorem validate_rejects_nonintegral' {w num den loc : Nat} (hden : 0 < den) (hle : den ≤ w * num)
    (hnd : (w * num) % den ≠ 0) : validate w num den loc = .valueError := by
  have h1 : ¬ den = 0 := by omega
  unfold validate
  rw [if_neg h1]
  split
  · rfl
  · simp only []
    rw [if_pos ⟨hle, hnd⟩]

theorem fraction_accepted' (k : ℕ) (δ₁ δ₂ : ℚ) (hk1 : 1 ≤ k) (hk : k ≤ 2 ^ 30)
    (h1 : |δ₁| ≤ 1 / 2 ^ 53) (h2 : |δ₂| ≤ 1 / 2 ^ 53) :
    let x : ℚ := (k : ℚ) * (1 + δ₁) * (1 + δ₂)
    |max 1 x - (k : ℚ)| ≤ 1 / 10 ^ 6 ∧ |max 1 x - (k : ℚ)| < 1 / 2 := by
  intro x
  have hkq1 : (1 : ℚ) ≤ k := by exact_mod_cast hk1
  have hkq : (k : ℚ) ≤ 2 ^ 30 := by exact_mod_cast hk
  have hk0 : (0 : ℚ) ≤ k := by linarith
  -- relative error
  have hd : |δ₁ + δ₂ + δ₁ * δ₂| ≤ 1 / 2 ^ 53 + 1 / 2 ^ 53 + 1 / 2 ^ 53 * (1 / 2 ^ 53) := by
    have a := abs_add_le (δ₁ + δ₂) (δ₁ * δ₂)
    have b := abs_add_le δ₁ δ₂
    have c : |δ₁ * δ₂| ≤ 1 / 2 ^ 53 * (1 / 2 ^ 53) := by
      rw [abs_mul]
      exact mul_le_mul h1 h2 (abs_nonneg _) (by positivity)
    linarith
  have hx : x - k = k * (δ₁ + δ₂ + δ₁ * δ₂) := by simp only [x]; ring
  have hxk : |x - k| ≤ 2 ^ 30 * (1 / 2 ^ 53 + 1 / 2 ^ 53 + 1 / 2 ^ 53 * (1 / 2 ^ 53)) := by
    rw [hx, abs_mul, abs_of_nonneg hk0]
    exact mul_le_mul hkq hd (abs_nonneg _) (by positivity)
  have hB : (2 : ℚ) ^ 30 * (1 / 2 ^ 53 + 1 / 2 ^ 53 + 1 / 2 ^ 53 * (1 / 2 ^ 53)) ≤ 1 / 10 ^ 6 := by
    norm_num
  have hxk' : |x - k| ≤ 1 / 10 ^ 6 := le_trans hxk hB
  have main : |max 1 x - (k : ℚ)| ≤ 1 / 10 ^ 6 := by
    rcases le_total x 1 with hle | hle
    · rw [max_eq_left hle]
      have := (abs_le.1 hxk').1
      rw [abs_le]
      constructor
      · linarith
      · have : (0 : ℚ) ≤ 1 / 10 ^ 6 := by positivity
        linarith
    · rw [max_eq_right hle]
      exact hxk'
  refine ⟨main, lt_of_le_of_lt main (by norm_num)⟩

theorem nonintegral_far' (n den : ℕ) (m : ℤ) (hden : 0 < den) (hnd : n % den ≠ 0) :
    (1 : ℚ) / den ≤ |(n : ℚ) / den - m| := by
  have hdq : (0 : ℚ) < den := by exact_mod_cast hden
  have hz : (n : ℤ) - m * den ≠ 0 := by
    intro h
    apply hnd
    have hdvd : (den : ℤ) ∣ (n : ℤ) := ⟨m, by linarith⟩
    exact Nat.mod_eq_zero_of_dvd (Int.natCast_dvd_natCast.1 hdvd)
  have h1 : (1 : ℚ) ≤ |(((n : ℤ) - m * den : ℤ) : ℚ)| := by
    have := Int.one_le_abs hz
    exact_mod_cast this
  have heq : (n : ℚ) / den - m = (((n : ℤ) - m * den : ℤ) : ℚ) / den := by
    push_cast
    rw [sub_div, mul_div_assoc, div_self hdq.ne', mul_one]
  rw [heq, abs_div, abs_of_pos hdq]
  exact div_le_div_of_nonneg_right h1 hdq.le

end KV.Kaisa
