/-
Link between C06 (KAISA assignment well-formed) and the hypotheses of the state-machine theorems
(C02 C03 C05 C13): the `Assign` induced by a well-formed KAISA configuration satisfies them.
(Single Mathlib modules may be imported; never `import Mathlib`.)
-/
import KfacVerif.Model.KaisaAssign
import KfacVerif.Props.C06
import KfacVerif.Props.C13
import KfacVerif.Props.C03
import KfacVerif.Lemmas.Refine

namespace KV.KaisaLink
open KV KV.Kaisa KV.KaisaAssign

/-- the configuration `KFACPreconditioner.__init__` builds from a KAISA assignment -/
def mkCfg (kc : Kaisa.Cfg) (p : Precond.Cfg) : Precond.Cfg := { p with world := kc.w, asg := toAssign kc }

/-- the reference machine sees only the world size, the number of layers, the method, pre-division,
    accumulation and hook mode of a KAISA-built configuration -/
theorem ofCfg_mkCfg_eq {kc₁ kc₂ : Kaisa.Cfg} {p₁ p₂ : Precond.Cfg} (hw : kc₁.w = kc₂.w)
    (hn : p₁.layers.length = p₂.layers.length) (hm : p₁.method = p₂.method)
    (hp : p₁.prediv = p₂.prediv) (ha : p₁.accum = p₂.accum) (hk : p₁.hook = p₂.hook) :
    Spec.ofCfg (mkCfg kc₁ p₁) = Spec.ofCfg (mkCfg kc₂ p₂) := by
  simp [Spec.ofCfg, mkCfg, hw, hn, hm, hp, ha, hk]

/-! ### grid facts for the two degenerate strategies -/

/-- MEM-OPT (`k = 1`): every column is a singleton -/
theorem col_single {w : Nat} {g : List Nat} {r : Nat} (hg : g ∈ cols w 1) (hr : r ∈ g) : g = [r] := by
  simp only [cols, List.mem_map, List.mem_range] at hg
  obtain ⟨i, _, rfl⟩ := hg
  simp at hr
  subst hr
  simp

/-- COMM-OPT (`k = w`): the only column is the whole world -/
theorem col_all {w : Nat} {g : List Nat} {r : Nat} (hw : 0 < w) (hg : g ∈ cols w w) (hr : r < w) :
    r ∈ g := by
  simp only [cols, Nat.div_self hw, List.mem_map, List.mem_range] at hg
  obtain ⟨i, hi, rfl⟩ := hg
  simp only [List.mem_map, List.mem_range]
  exact ⟨r, hr, by omega⟩

/-! ### every layer index denotes a registered layer -/

theorem layerName_mem (kc : Kaisa.Cfg) (hne : kc.work ≠ []) (l : Nat) :
    ∃ x ∈ kc.work, layerName kc l = x.1 := by
  unfold layerName
  refine ⟨_, ?_, rfl⟩
  rw [List.getD_eq_getElem?_getD]
  by_cases hl : l < kc.work.length
  · rw [List.getElem?_eq_getElem hl, Option.getD_some]
    exact List.getElem_mem hl
  · rw [List.getElem?_eq_none (by omega), Option.getD_none]
    cases hw : kc.work with
    | nil => exact absurd hw hne
    | cons a t => simp

/-- what C06/C17 give for one registered layer (with its two factors "A" and "G") -/
structure LayerFacts (kc : Kaisa.Cfg) (n : String) : Prop where
  col : kc.workerGroup n ∈ cols kc.w kc.k
  a : ∃ r, kc.invWorker n "A" = some r ∧ r ∈ kc.workerGroup n
  g : ∃ r, kc.invWorker n "G" = some r ∧ r ∈ kc.workerGroup n
  coloc : kc.colocate = true → kc.invWorker n "A" = kc.invWorker n "G"
  src : ∀ loc, loc < kc.w →
    ∃ s, kc.srcGradWorker loc n = some s ∧ s ∈ kc.workerGroup n ∧ s ∈ kc.receiverGroup loc

theorem layerFacts_of_mem {kc : Kaisa.Cfg} (h : C06.OK kc) (h2 : TwoFactors kc)
    {x : String × List (String × Nat)} (hx : x ∈ kc.work) : LayerFacts kc x.1 := by
  have hnames := h2 x hx
  have hA : "A" ∈ x.2.map (·.1) := by rw [hnames]; simp
  have hG : "G" ∈ x.2.map (·.1) := by rw [hnames]; simp
  obtain ⟨fa, hfa, hfa1⟩ := List.mem_map.1 hA
  obtain ⟨fg, hfg, hfg1⟩ := List.mem_map.1 hG
  refine ⟨C06.workerGroup_is_col h hx, ?_, ?_, ?_, ?_⟩
  · have := C06.inv_worker_in_worker_group h hx hfa
    rwa [hfa1] at this
  · have := C06.inv_worker_in_worker_group h hx hfg
    rwa [hfg1] at this
  · intro hc
    have ea := invWorker_eq h.work.layers hx hfa
    have eg := invWorker_eq h.work.layers hx hfg
    obtain ⟨ra, hra⟩ := C17.complete_assigned (groups := kc.gOrder) (world := kc.w)
      (col := kc.colocate) h.work hx hfa
    obtain ⟨rg, hrg⟩ := C17.complete_assigned (groups := kc.gOrder) (world := kc.w)
      (col := kc.colocate) h.work hx hfg
    have e1 : rankOf kc x.1 fa.1 = ra := by simp [rankOf, hra]
    have e2 : rankOf kc x.1 fg.1 = rg := by simp [rankOf, hrg]
    rw [hc] at hra hrg
    have := C17.colocated_single h.work hx hfa hfg hra hrg
    rw [← hfa1, ← hfg1, ea, eg, e1, e2, this]
  · intro loc hloc
    obtain ⟨s, hs, hsw, hsr, _⟩ := C06.src_spec h hloc hx
    exact ⟨s, hs, hsw, hsr⟩

theorem facts {kc : Kaisa.Cfg} (h : C06.OK kc) (h2 : TwoFactors kc) (hne : kc.work ≠ []) (l : Nat) :
    LayerFacts kc (layerName kc l) := by
  obtain ⟨x, hx, e⟩ := layerName_mem kc hne l
  rw [e]
  exact layerFacts_of_mem h h2 hx

/-! ### the fields -/

section
variable {kc : Kaisa.Cfg} (h : C06.OK kc) (h2 : TwoFactors kc) (hne : kc.work ≠ [])
include h h2 hne

theorem workers_lt (l r : Nat) (hr : r ∈ (toAssign kc).workers l) : r < kc.w :=
  ((C06.cols_length h.kpos h.dvd).2 _ (facts h h2 hne l).col).2.2 r hr

theorem invA_mem (l : Nat) : (toAssign kc).invA l ∈ (toAssign kc).workers l := by
  obtain ⟨r, hr, hm⟩ := (facts h h2 hne l).a
  show (kc.invWorker (layerName kc l) "A").getD 0 ∈ kc.workerGroup (layerName kc l)
  rw [hr]; exact hm

theorem invG_mem (l : Nat) : (toAssign kc).invG l ∈ (toAssign kc).workers l := by
  obtain ⟨r, hr, hm⟩ := (facts h h2 hne l).g
  show (kc.invWorker (layerName kc l) "G").getD 0 ∈ kc.workerGroup (layerName kc l)
  rw [hr]; exact hm

theorem coloc_eq (hc : kc.colocate = true) (l : Nat) : (toAssign kc).invA l = (toAssign kc).invG l := by
  show (kc.invWorker (layerName kc l) "A").getD 0 = (kc.invWorker (layerName kc l) "G").getD 0
  rw [(facts h h2 hne l).coloc hc]

theorem nobi_single (hb : (toAssign kc).bcastInv = false) (l : Nat) :
    (toAssign kc).workers l = [(toAssign kc).invA l] ∧ (toAssign kc).invG l = (toAssign kc).invA l := by
  have hk1 : kc.k = 1 := by
    have : ¬ 1 < kc.k := by
      intro hlt
      have := (C06.flags kc).2.2 hlt
      have hb' : kc.broadcastInverses = false := hb
      rw [hb'] at this
      cases this
    have := h.kpos
    omega
  have hcol := (facts h h2 hne l).col
  rw [hk1] at hcol
  have hw : (toAssign kc).workers l = [(toAssign kc).invA l] := col_single hcol (invA_mem h h2 hne l)
  refine ⟨hw, ?_⟩
  have := invG_mem h h2 hne l
  rw [hw] at this
  simpa using this

theorem nobg_all (hb : (toAssign kc).bcastGrad = false) (l r : Nat) (hr : r < kc.w) :
    r ∈ (toAssign kc).workers l := by
  have hkw : kc.k = kc.w := by
    have : ¬ kc.k < kc.w := by
      intro hlt
      have := (C06.flags kc).1.2 hlt
      have hb' : kc.broadcastGradients = false := hb
      rw [hb'] at this
      cases this
    have := Nat.le_of_dvd h.wpos h.dvd
    omega
  have hcol := (facts h h2 hne l).col
  rw [hkw] at hcol
  exact col_all h.wpos hcol hr

omit h2 hne in
theorem recv_lt (r r' : Nat) (hr : r' ∈ (toAssign kc).recv r) : r' < kc.w := by
  have hr : r' ∈ ((rows kc.w kc.k).find? (fun g => g.contains r)).getD [] := hr
  cases hf : (rows kc.w kc.k).find? (fun g => g.contains r) with
  | none => rw [hf] at hr; simp at hr
  | some g =>
    rw [hf] at hr
    exact ((C06.rows_length h.kpos h.dvd).2 g (List.mem_of_find?_eq_some hf)).2.2 r' hr

theorem src_recv (r l : Nat) (hr : r < kc.w) : (toAssign kc).src r l ∈ (toAssign kc).recv r := by
  obtain ⟨s, hs, _, hsr⟩ := (facts h h2 hne l).src r hr
  show (kc.srcGradWorker r (layerName kc l)).getD 0 ∈ kc.receiverGroup r
  rw [hs]; exact hsr

theorem src_worker (r l : Nat) (hr : r < kc.w) : (toAssign kc).src r l ∈ (toAssign kc).workers l := by
  obtain ⟨s, hs, hsw, _⟩ := (facts h h2 hne l).src r hr
  show (kc.srcGradWorker r (layerName kc l)).getD 0 ∈ kc.workerGroup (layerName kc l)
  rw [hs]; exact hsw

omit h2 hne in
theorem rows_rep (r : Nat) (hr : r < kc.w) :
    ∃ r0, r0 < kc.w ∧ ((toAssign kc).recv r0).head? = some r0 ∧ r ∈ (toAssign kc).recv r0 := by
  obtain ⟨hR, hrR⟩ := C06.receiverGroup_is_row h hr
  obtain ⟨hlen, _, hlt⟩ := (C06.rows_length h.kpos h.dvd).2 _ hR
  have hpos : 0 < kc.w / kc.k := Nat.div_pos (Nat.le_of_dvd h.wpos h.dvd) h.kpos
  cases hg : kc.receiverGroup r with
  | nil => rw [hg] at hlen; simp at hlen; omega
  | cons r0 t =>
    have hr0R : r0 ∈ kc.receiverGroup r := by rw [hg]; simp
    have hr0 : r0 < kc.w := hlt r0 hr0R
    obtain ⟨hR0, hr0R0⟩ := C06.receiverGroup_is_row h hr0
    obtain ⟨g, _, _, hu⟩ := C06.rows_cover_unique h.kpos h.dvd hr0
    have e : kc.receiverGroup r0 = kc.receiverGroup r := by
      rw [hu _ hR0 hr0R0, hu _ hR hr0R]
    refine ⟨r0, hr0, ?_, ?_⟩
    · show (kc.receiverGroup r0).head? = some r0
      rw [e, hg]; rfl
    · show r ∈ kc.receiverGroup r0
      rw [e]; exact hrR

end

/-- MAIN LINK: a well-formed KAISA configuration (C06.OK), with the two factors per layer, one
    registered layer per entry of the cost dictionary, and pre-division only with co-location
    (enforced by the constructor), gives an assignment satisfying everything the refinement
    theorem needs … -/
theorem kaisa_CfgOK2 (kc : Kaisa.Cfg) (h : C06.OK kc) (h2 : TwoFactors kc) (hne : kc.work ≠ [])
    (p : Precond.Cfg)
    (hl : p.layers.length = kc.work.length) (hacc : 0 < p.accum)
    (hpre : p.prediv = true → kc.colocate = true) :
    Refine.CfgOK2 (mkCfg kc p) :=
  have _ := hl
  { world_pos := h.wpos
    accum_pos := hacc
    workers_lt := workers_lt h h2 hne
    invA_mem := invA_mem h h2 hne
    invG_mem := invG_mem h h2 hne
    prediv_coloc := fun hp => coloc_eq h h2 hne (hpre hp)
    nobi_single := fun hb l => (nobi_single h h2 hne hb l).1
    nobg_all := nobg_all h h2 hne
    recv_lt := recv_lt h
    src_recv := src_recv h h2 hne
    src_worker := src_worker h h2 hne
    rows := rows_rep h }

/-- … everything the script well-formedness theorem needs … -/
theorem kaisa_CfgOK (kc : Kaisa.Cfg) (h : C06.OK kc) (h2 : TwoFactors kc) (hne : kc.work ≠ [])
    (p : Precond.Cfg)
    (hl : p.layers.length = kc.work.length) (hacc : 0 < p.accum) :
    C03.CfgOK (mkCfg kc p) :=
  have _ := hl
  { accum_pos := hacc
    workers_lt := workers_lt h h2 hne
    invA_mem := invA_mem h h2 hne
    invG_mem := invG_mem h h2 hne
    recv_lt := recv_lt h
    src_recv := src_recv h h2 hne }

/-- … and everything the holdings theorems need -/
theorem kaisa_AsgOK (kc : Kaisa.Cfg) (h : C06.OK kc) (h2 : TwoFactors kc) (hne : kc.work ≠ [])
    (p : Precond.Cfg)
    (hl : p.layers.length = kc.work.length) :
    C13.AsgOK (mkCfg kc p) :=
  have _ := hl
  { workers_lt := workers_lt h h2 hne
    invA_mem := invA_mem h h2 hne
    invG_mem := invG_mem h h2 hne
    nobi_single := nobi_single h h2 hne }

end KV.KaisaLink
