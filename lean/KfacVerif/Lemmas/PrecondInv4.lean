/-
Invariants of the M-Precond state machine, part 4: `step`, queries, checkpoints, `exec`, `run`;
the script of ANY history passes the stall-tolerant check.  Core Lean only.
-/
import KfacVerif.Lemmas.PrecondInv3

namespace KV.PI
open KV KV.Precond
open KV.Sched2 (eventsOf wfAux wf Events)

/-! ### `step()` cut at its first `flushBucket` -/

/-- the factor update of `step()` in no-hook mode -/
def stepHead (c : Cfg) (s : St) : St :=
  let fus := s.hyper.fus.val s.steps
  let alpha := s.hyper.decay.val s.steps
  if !c.hook && s.steps % fus == 0 then
    (revLayers c).foldl (fun s l =>
      let s := { s with mini := s.mini.set l 0 }
      let s := forRanks c s fun s r => Precond.updateFactor s r l true alpha
      let s := Precond.reduceFactor c s l true
      let s := forRanks c s fun s r => Precond.updateFactor s r l false alpha
      Precond.reduceFactor c s l false) s
  else s

/-- inverse phase of `step()` -/
def stepInv (c : Cfg) (ius : Nat) (damping : Rat) (s : St) : St :=
  if s.steps % ius == 0 then
    let s := (revLayers c).foldl (fun s l =>
      let s := Precond.computeAInv c s (c.asg.invA l) l damping
      let s := if c.asg.bcastInv then Precond.broadcastAInv c s l else s
      let s := Precond.computeGInv c s (c.asg.invG l) l damping
      if c.asg.bcastInv then Precond.broadcastGInv c s l else s) s
    Precond.flushBucket c s
  else s

/-- gradient phase of `step()` -/
def stepGrad (c : Cfg) (damping : Rat) (s : St) : St :=
  (revLayers c).foldl (fun s l =>
    let s := (c.asg.workers l).foldl (fun s r => Precond.precondGrad c s r l damping) s
    if c.asg.bcastGrad then Precond.broadcastGrad c s l else s) s

/-- every rank reads every layer's `grad` getter -/
def stepClip (c : Cfg) (s : St) : St :=
  forRanks c s fun s r =>
    (revLayers c).foldl (fun s l =>
      let x := getL s r l
      let (s, gr) := readSlot s r x.grad
      if gr.isNone then Precond.fail s r "layer gradient has not been preconditioned" else
      Precond.setL s r l { getL s r l with grad := gr }) s

/-- the gradients handed back are cleared -/
def stepClear (c : Cfg) (s : St) : St :=
  forRanks c s fun s r =>
    (layerIdxs c).foldl (fun s l => Precond.setL s r l { getL s r l with grad := none }) s

/-- everything of `step()` after the first `flushBucket` -/
def stepTail (c : Cfg) (ius : Nat) (damping : Rat) (s : St) : St :=
  let s := stepInv c ius damping s
  let s := stepGrad c damping s
  let s := Precond.flushBucket c s
  let kl := s.hyper.kl.val s.steps
  let lr := s.hyper.lr.val s.steps
  let s := stepClip c s
  let outs := (worldRanks c).map fun r =>
    let vs := (layerIdxs c).map fun l => (((getL s r l).grad).map (·.val)).getD .garbage
    match kl with
    | none => vs
    | some k =>
      let sum := (revLayers c).foldl (fun acc l =>
        let v := vs.getD l .garbage
        let t := V.inner v (.rawGrad l s.steps)
        match acc with | none => some t | some a => some (V.add a t)) (none : Option V)
      let n := V.nu k lr (sum.getD .zero)
      vs.map fun v => V.scale n v
  let s := stepClear c s
  { s with steps := s.steps + 1, mini := List.replicate c.layers.length 0, outGrads := outs }

theorem stepAll_eq (c : Cfg) (s : St) :
    stepAll c s = stepTail c (s.hyper.ius.val s.steps) (s.hyper.damping.val s.steps)
      (Precond.flushBucket c (stepHead c s)) := rfl

theorem flushBucket_nil (c : Cfg) (s : St) (h : s.bucket = []) : Precond.flushBucket c s = s := by
  unfold Precond.flushBucket
  simp [h]

/-- `flushBucket` for either strictness (in strict mode the bucket is empty) -/
theorem Good.flushBucket' {st c s} (h : Good st c μ s) : Good st c μ (Precond.flushBucket c s) := by
  cases st
  · exact h.flushBucket
  · rw [flushBucket_nil c s (h.sB rfl)]; exact h

theorem Good.clip_body {st c} (l : Nat) (s : St) (r : Nat) (hs : Good st c μ s) :
    Good st c μ (
      let x := getL s r l
      let (s, gr) := readSlot s r x.grad
      if gr.isNone then Precond.fail s r "layer gradient has not been preconditioned" else
      Precond.setL s r l { getL s r l with grad := gr }) := by
  rd hs rfl (hs.lok r l).grad => s1 gr h1 hE1 hgr
  have hl1 := h1.lokE hE1 r l
  split
  · exact h1.fail _ _
  · exact (h1.setLE hE1 (by lok_from hl1)).1

theorem good_ite {st c a b} (p : Prop) [Decidable p] (h1 : Good st c μ a) (h2 : Good st c μ b) :
    Good st c μ (if p then a else b) := by
  split
  · exact h1
  · exact h2

theorem Good.stepInv {st c s} (ha : AsgOK c) (h : Good st c μ s) (ius : Nat) (d : Rat) :
    Good st c μ (stepInv c ius d s) := by
  unfold KV.PI.stepInv
  split
  · apply Good.flushBucket'
    refine foldl_inv (Good st c μ) _ _ _ h ?_
    intro s l _ hs
    have a1 := hs.computeAInv (c.asg.invA l) l d
    have a2 := good_ite (c.asg.bcastInv = true) (a1.broadcastAInv ha l) a1
    have a3 := a2.computeGInv (c.asg.invG l) l d
    exact good_ite (c.asg.bcastInv = true) (a3.broadcastGInv ha l) a3
  · exact h

theorem Good.stepGrad {st c s} (ha : AsgOK c) (h : Good st c μ s) (d : Rat) :
    Good st c μ (stepGrad c d s) := by
  unfold KV.PI.stepGrad
  refine foldl_inv (Good st c μ) _ _ _ h ?_
  intro s l _ hs
  have a1 : Good st c μ ((c.asg.workers l).foldl (fun s r => Precond.precondGrad c s r l d) s) :=
    foldl_inv (Good st c μ) _ _ _ hs (fun s r _ hs => hs.precondGrad r l d)
  exact good_ite (c.asg.bcastGrad = true) (a1.broadcastGrad ha l) a1

theorem Good.stepClip {st c s} (h : Good st c μ s) : Good st c μ (stepClip c s) :=
  forRanks_inv (Good st c μ) c _ s h (fun _ r _ hs =>
    foldl_inv (Good st c μ) _ _ _ hs (fun s l _ hs => Good.clip_body l s r hs))

theorem Good.stepClear {st c s} (h : Good st c μ s) : Good st c μ (stepClear c s) :=
  forRanks_inv (Good st c μ) c _ s h (fun s r _ hs =>
    foldl_inv (Good st c μ) _ _ _ hs (fun s l _ hs => by
      have hl := hs.lok r l
      exact hs.setL (by lok_from hl)))

theorem Good.stepTail {st c s} (ha : AsgOK c) (h : Good st c μ s) (ius : Nat) (d : Rat) :
    Good st c (List.replicate c.layers.length 0) (stepTail c ius d s) := by
  unfold KV.PI.stepTail
  have h5 := ((((h.stepInv ha ius d).stepGrad ha d).flushBucket').stepClip).stepClear
  exact ⟨h5.nIss, h5.wfs, h5.lok, h5.shape, h5.bkt, h5.sB, h5.sF, rfl⟩

theorem Good.stepHead {c s} (hw : 0 < c.world) (h : Good false c μ s) : GoodE false c (stepHead c s) := by
  unfold KV.PI.stepHead
  extract_lets fus alpha
  split
  · refine foldl_inv (GoodE false c) _ _ _ ⟨_, h⟩ ?_
    rintro s l _ ⟨μ', hs⟩
    exact ⟨_, ((((hs.setMini _).forUpdate l true alpha).reduceFactor hw l true).forUpdate l false
      alpha).reduceFactor hw l false⟩
  · exact ⟨_, h⟩

theorem Good.stepAll {c s} (ha : AsgOK c) (h : Good false c μ s) : GoodE false c (Precond.stepAll c s) := by
  rw [stepAll_eq]
  obtain ⟨μ', h1⟩ := h.stepHead ha.world_pos
  exact ⟨_, (h1.flushBucket).stepTail ha _ _⟩

/-! ### queries and checkpoints -/

theorem Good.resetBatch {st c s} (h : Good st c μ s) : Good st c μ (Precond.resetBatch c s) :=
  forRanks_inv (Good st c μ) c _ s h (fun s r _ hs =>
    foldl_inv (Good st c μ) _ _ _ hs (fun s l _ hs => by
      have hl := hs.lok r l
      exact hs.setL (by lok_from hl)))

/-- one getter read of `memory_usage()` -/
def memRd (r l : Nat) (s : St) (get : LState → Option Slot) (set : LState → Option Slot → LState) : St :=
  let (s, v) := readSlot s r (get (getL s r l))
  Precond.setL s r l (set (getL s r l) v)

theorem Good.memRd {st c s} (h : Good st c μ s) (r l : Nat)
    (get : LState → Option Slot) (set : LState → Option Slot → LState)
    (hget : ∀ ev x, LOK st ev r x → SlotOK st ev r (get x))
    (hset : ∀ ev x o, LOK st ev r x → SlotOK st ev r o → LOK st ev r (set x o)) :
    Good st c μ (memRd r l s get set) := by
  unfold KV.PI.memRd
  rd h rfl (hget _ _ (h.lok r l)) => s1 v h1 hE1 hv
  exact (h1.setLE hE1 (hset _ _ _ (h1.lokE hE1 r l) hv)).1

/-- `memory_usage()`, given the invariant after its `flushBucket` -/
theorem Good.memUsage_of_flush {st c s} (h : Good st c μ (Precond.flushBucket c s)) :
    Good st c μ (Precond.memUsage c s) := by
  unfold Precond.memUsage
  extract_lets s0
  refine forRanks_inv (Good st c μ) c _ s0 h (fun s r _ hs => ?_)
  refine foldl_inv (Good st c μ) _ _ _ hs (fun s l _ hs => ?_)
  beta_goal
  extract_lets rd
  have hrd : ∀ (s : St) (get : LState → Option Slot) (set : LState → Option Slot → LState),
      Good st c μ s → (∀ ev x, LOK st ev r x → SlotOK st ev r (get x)) →
      (∀ ev x o, LOK st ev r x → SlotOK st ev r o → LOK st ev r (set x o)) →
      Good st c μ (rd s get set) :=
    fun s get set h hg hs => Good.memRd h r l get set hg hs
  clear_value rd
  have a1 := hrd s (·.aFactor) (fun x v => { x with aFactor := v }) hs
    (fun _ _ hx => hx.aFactor) (fun _ _ _ hx ho => by lok_from hx)
  have a2 := hrd _ (·.gFactor) (fun x v => { x with gFactor := v }) a1
    (fun _ _ hx => hx.gFactor) (fun _ _ _ hx ho => by lok_from hx)
  split
  · have b1 := hrd _ (·.qa) (fun x v => { x with qa := v }) a2
      (fun _ _ hx => hx.qa) (fun _ _ _ hx ho => by lok_from hx)
    have b2 := hrd _ (·.da) (fun x v => { x with da := v }) b1
      (fun _ _ hx => hx.da) (fun _ _ _ hx ho => by lok_from hx)
    have b3 := hrd _ (·.qg) (fun x v => { x with qg := v }) b2
      (fun _ _ hx => hx.qg) (fun _ _ _ hx ho => by lok_from hx)
    have b4 := hrd _ (·.dg) (fun x v => { x with dg := v }) b3
      (fun _ _ hx => hx.dg) (fun _ _ _ hx ho => by lok_from hx)
    exact hrd _ (·.dgda) (fun x v => { x with dgda := v }) b4
      (fun _ _ hx => hx.dgda) (fun _ _ _ hx ho => by lok_from hx)
  · have b1 := hrd _ (·.aInv) (fun x v => { x with aInv := v }) a2
      (fun _ _ hx => hx.aInv) (fun _ _ _ hx ho => by lok_from hx)
    exact hrd _ (·.gInv) (fun x v => { x with gInv := v }) b1
      (fun _ _ hx => hx.gInv) (fun _ _ _ hx ho => by lok_from hx)

theorem Good.memUsage {st c s} (h : Good st c μ s) : Good st c μ (Precond.memUsage c s) :=
  Good.memUsage_of_flush h.flushBucket'

theorem Good.saveState {st c s} (h : Good st c μ s) (inclF : Bool) :
    Good st c μ (Precond.saveState c s inclF) := by
  unfold Precond.saveState
  split
  · exact h
  · refine forRanks_inv (Good st c μ) c _ s h (fun s r _ hs => ?_)
    refine foldl_inv (Good st c μ) _ _ _ hs (fun s l _ hs => ?_)
    have a1 := hs.memRd r l (·.aFactor) (fun x v => { x with aFactor := v })
      (fun _ _ hx => hx.aFactor) (fun _ _ _ hx ho => by lok_from hx)
    exact a1.memRd r l (·.gFactor) (fun x v => { x with gFactor := v })
      (fun _ _ hx => hx.gFactor) (fun _ _ _ hx ho => by lok_from hx)

theorem getD_replicate_empty (n m r l : Nat) :
    ((List.replicate n (List.replicate m ({} : LState))).getD r []).getD l {} = {} := by
  simp only [List.getD, List.getElem?_replicate]
  split
  · simp only [Option.getD_some, List.getElem?_replicate]
    split <;> rfl
  · rfl

/-- the freshly constructed preconditioner of a checkpoint round trip keeps the script -/
theorem Good.fresh {st c s} (h : Good st c μ s) (hy : Hyper) (a b n : Nat) (d : List V) :
    Good st c (List.replicate c.layers.length 0)
      { St.init c hy with steps := a, pass := b, nIssued := s.nIssued, nextReq := n,
                           script := s.script, defs := d } := by
  refine ⟨h.nIss, h.wfs, ?_, by simp [St.init], by simp [St.init], fun _ => rfl, h.sF, rfl⟩
  intro r l
  have : getL { St.init c hy with steps := a, pass := b, nIssued := s.nIssued, nextReq := n,
                                   script := s.script, defs := d } r l = {} :=
    getD_replicate_empty _ _ r l
  rw [this]; exact LOK.empty

theorem SlotOK.strip {st ev r} (o : Option Slot) :
    SlotOK st ev r (o.map fun x => { x with pend := .ready }) := by
  cases o <;> trivial

theorem Good.saveLoad {st c s} (ha : AsgOK c) (h : Good st c μ s) (inclF compInv : Bool) :
    Good st c (List.replicate c.layers.length 0) (Precond.saveLoad c s inclF compInv) := by
  unfold Precond.saveLoad
  extract_lets s1 src0 fresh strip s2 damping
  have h1 : Good st c μ s1 := h.saveState inclF
  have hf : Good st c (List.replicate c.layers.length 0) fresh := h1.fresh s1.hyper s1.steps s1.pass s1.nextReq s1.defs
  have h2 : Good st c (List.replicate c.layers.length 0) s2 := by
    refine forRanks_inv (Good st c _) c _ fresh hf (fun t r _ ht => ?_)
    refine foldl_inv (Good st c _) _ _ _ ht (fun t l _ ht => ?_)
    have hl := ht.lok r l
    have e1 : SlotOK st (evs t) r (strip (getL s1 r l).aFactor) := SlotOK.strip _
    have e2 : SlotOK st (evs t) r (strip (getL s1 r l).gFactor) := SlotOK.strip _
    exact ht.setL (by lok_from hl)
  clear_value s2 strip fresh src0 s1
  split
  · exact hf
  · split
    · exact h2
    · refine foldl_inv (Good st c _) _ _ _ h2 (fun t l _ ht => ?_)
      have a1 : Good st c _ (forRanks c t fun t r =>
          Precond.computeGInv c (Precond.computeAInv c t r l damping) r l damping) :=
        forRanks_inv (Good st c _) c _ t ht (fun t r _ ht => (ht.computeAInv r l damping).computeGInv r l damping)
      exact good_ite (c.asg.bcastInv = true) ((a1.broadcastAInv ha l).broadcastGInv ha l) a1

/-! ### histories -/

theorem Good.exec {c s} (ha : AsgOK c) (h : Good false c μ s) (op : Op) :
    GoodE false c (Precond.exec c s op) := by
  unfold Precond.exec
  split
  · exact ⟨_, h⟩
  · cases op with
    | fwdBwd t => exact h.fwdBwd ha.world_pos t
    | step => exact h.stepAll ha
    | resetBatch => exact ⟨_, h.resetBatch⟩
    | memUsage => exact ⟨_, h.memUsage⟩
    | save f => exact ⟨_, h.saveState f⟩
    | saveLoad f ci => exact ⟨_, h.saveLoad ha f ci⟩
    | setHyper hy => exact ⟨_, h.congr rfl rfl rfl rfl rfl⟩

theorem GoodE.run {c s} (ha : AsgOK c) (h : GoodE false c s) (ops : List Op) :
    GoodE false c (Precond.run c s ops) := by
  unfold Precond.run
  exact foldl_inv (GoodE false c) _ _ _ h (fun s op _ ⟨_, hs⟩ => hs.exec ha op)

/-- the script of any history passes the stall-tolerant check -/
theorem wfS_run (c : Cfg) (ha : AsgOK c) (hy : Hyper) (ops : List Op) :
    wfS c.world [] (Precond.run c (St.init c hy) ops).acts = true := by
  obtain ⟨_, h⟩ := GoodE.run ha ⟨_, (Good.init c hy).weaken false⟩ ops
  exact h.wfs

end KV.PI
