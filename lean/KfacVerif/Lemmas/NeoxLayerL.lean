/- Helper lemmas for C11 / C18 (single Mathlib modules may be imported; never `import Mathlib`). -/
import KfacVerif.Model.NeoxLayer
import KfacVerif.Model.Neox

