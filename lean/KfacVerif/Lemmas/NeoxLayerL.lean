/- Helper lemmas for C11 / C18 (single Mathlib modules may be imported; never `import Mathlib`). -/
import KfacVerif.Model.NeoxLayer
import KfacVerif.Model.Neox
import Mathlib.Tactic.Ring
import Mathlib.Tactic.FieldSimp
import Mathlib.Algebra.Order.Field.Basic

namespace KV.NeoxL

/-! ### chunking a list -/

theorem flatten_chunks {α : Type} (l : List α) (k m : Nat) :
    ((List.range m).map fun i => (l.drop (i * k)).take k).flatten = l.take (m * k) := by
  induction m with
  | zero => simp
  | succ m ih =>
    rw [List.range_succ, List.map_append, List.flatten_append, ih, Nat.succ_mul, List.take_add]
    simp

theorem flatten_chunks_all {α : Type} (l : List α) (k m : Nat) (h : l.length = m * k) :
    ((List.range m).map fun i => (l.drop (i * k)).take k).flatten = l := by
  rw [flatten_chunks, ← h, List.take_length]

theorem chunk_flatten {α : Type} (parts : List (List α)) (k : Nat) (hp : ∀ p ∈ parts, p.length = k)
    (i : Nat) (hi : i < parts.length) :
    (parts.flatten.drop (i * k)).take k = parts[i] := by
  induction parts generalizing i with
  | nil => simp at hi
  | cons p ps ih =>
    have hpl : p.length = k := hp p (by simp)
    cases i with
    | zero =>
      simp only [List.flatten_cons, Nat.zero_mul, List.drop_zero, List.getElem_cons_zero]
      rw [← hpl, List.take_left]
    | succ i =>
      have e : (i + 1) * k = p.length + i * k := by rw [hpl, Nat.succ_mul, Nat.add_comm]
      simp only [List.flatten_cons, List.getElem_cons_succ]
      rw [e, ← List.drop_drop, List.drop_left]
      exact ih (fun q hq => hp q (by simp [hq])) i (by simpa using hi)

theorem length_flatten_const {α : Type} (parts : List (List α)) (k : Nat) (hp : ∀ p ∈ parts, p.length = k) :
    parts.flatten.length = parts.length * k := by
  induction parts with
  | nil => simp
  | cons p ps ih =>
    simp only [List.flatten_cons, List.length_append, List.length_cons]
    rw [ih (fun q hq => hp q (by simp [hq])), hp p (by simp), Nat.succ_mul, Nat.add_comm]

/-! ### rows -/

theorem gather_split_rows_l (mp : Nat) (A : Mat) (_h1 : 0 < mp) (h2 : mp ∣ A.length) :
    gatherRows (splitRows mp A) = A := by
  unfold gatherRows splitRows
  apply flatten_chunks_all
  exact (Nat.mul_div_cancel' h2).symm

theorem split_gather_rows_l (mp k : Nat) (parts : List Mat) (hl : parts.length = mp) (_hk : 0 < k)
    (hp : ∀ p ∈ parts, p.length = k) : splitRows mp (gatherRows parts) = parts := by
  unfold gatherRows splitRows
  have hlen := length_flatten_const parts k hp
  rcases Nat.eq_zero_or_pos mp with h0 | hpos
  · subst h0
    have : parts = [] := List.length_eq_zero_iff.mp hl
    subst this; simp
  · have hk' : parts.flatten.length / mp = k := by
      rw [hlen, hl, Nat.mul_div_cancel_left _ hpos]
    simp only [hk']
    apply List.ext_getElem
    · simp [hl]
    · intro i h1 h2
      simp only [List.getElem_map, List.getElem_range]
      exact chunk_flatten parts k hp i h2

/-! ### columns -/

theorem getD_map_of_lt {α β : Type} (f : α → β) (l : List α) (i : Nat) (d : β) (h : i < l.length) :
    (l.map f).getD i d = f l[i] := by
  simp [List.getD_eq_getElem?_getD, List.getElem?_eq_getElem h]

theorem getD_of_lt {α : Type} (l : List α) (i : Nat) (d : α) (h : i < l.length) :
    l.getD i d = l[i] := by
  simp [List.getD_eq_getElem?_getD, List.getElem?_eq_getElem h]

theorem gather_split_cols_l (mp cols : Nat) (A : Mat) (_h1 : 0 < mp) (h2 : mp ∣ cols)
    (h3 : ∀ r ∈ A, r.length = cols) : gatherCols A.length (splitCols mp cols A) = A := by
  unfold gatherCols splitCols
  apply List.ext_getElem
  · simp
  · intro i h1 h2'
    simp only [List.getElem_map, List.getElem_range, List.map_map]
    have : ((fun p : Mat => p.getD i []) ∘ fun j => A.map fun r => (r.drop (j * (cols / mp))).take (cols / mp))
        = fun j => (A[i].drop (j * (cols / mp))).take (cols / mp) := by
      funext j
      simp only [Function.comp]
      exact getD_map_of_lt _ A i [] h2'
    rw [this]
    apply flatten_chunks_all
    rw [h3 _ (List.getElem_mem h2')]
    exact (Nat.mul_div_cancel' h2).symm

theorem split_gather_cols_l (mp k rows : Nat) (parts : List Mat) (hl : parts.length = mp) (_hk : 0 < k)
    (hp : ∀ p ∈ parts, p.length = rows ∧ ∀ r ∈ p, r.length = k) :
    splitCols mp (mp * k) (gatherCols rows parts) = parts := by
  unfold gatherCols splitCols
  rcases Nat.eq_zero_or_pos mp with h0 | hpos
  · subst h0
    have : parts = [] := List.length_eq_zero_iff.mp hl
    subst this; simp
  · rw [Nat.mul_div_cancel_left _ hpos]
    apply List.ext_getElem
    · simp [hl]
    · intro j h1 h2
      simp only [List.getElem_map, List.getElem_range, List.map_map]
      have hpj := hp _ (List.getElem_mem h2)
      apply List.ext_getElem
      · simp [hpj.1]
      · intro i hi1 hi2
        simp only [List.getElem_map, List.getElem_range, Function.comp]
        have hir : i < rows := by simpa using hi1
        have hall : ∀ q ∈ parts.map (fun p : Mat => p.getD i []), q.length = k := by
          intro q hq
          rcases List.mem_map.mp hq with ⟨p, hpm, rfl⟩
          have hpp := hp p hpm
          rw [getD_of_lt p i [] (by rw [hpp.1]; exact hir)]
          exact hpp.2 _ (List.getElem_mem _)
        rw [chunk_flatten _ k hall j (by simpa using h2)]
        simp only [List.getElem_map]
        exact getD_of_lt _ i [] hi2

/-! ### scatter emulated by reduce_scatter -/

theorem zipWith_add_zero_right (r : List Rat) : List.zipWith (· + ·) r (r.map fun _ => (0 : Rat)) = r := by
  induction r with
  | nil => rfl
  | cons a t ih => simp only [List.map_cons, List.zipWith_cons_cons, ih, Rat.add_zero]

theorem zipWith_add_zero_left (r : List Rat) : List.zipWith (· + ·) (r.map fun _ => (0 : Rat)) r = r := by
  induction r with
  | nil => rfl
  | cons a t ih => simp only [List.map_cons, List.zipWith_cons_cons, ih, Rat.zero_add]

theorem zipWith_add_zero_zero (r : List Rat) :
    List.zipWith (· + ·) (r.map fun _ => (0 : Rat)) (r.map fun _ => (0 : Rat)) = r.map fun _ => (0 : Rat) := by
  induction r with
  | nil => rfl
  | cons a t ih => simp only [List.map_cons, List.zipWith_cons_cons, ih, Rat.add_zero]

theorem matAdd_zeros_right (X : Mat) : matAdd X (zerosLike X) = X := by
  unfold matAdd zerosLike
  induction X with
  | nil => rfl
  | cons a t ih => simp only [List.map_cons, List.zipWith_cons_cons, ih, zipWith_add_zero_right]

theorem matAdd_zeros_left (X : Mat) : matAdd (zerosLike X) X = X := by
  unfold matAdd zerosLike
  induction X with
  | nil => rfl
  | cons a t ih => simp only [List.map_cons, List.zipWith_cons_cons, ih, zipWith_add_zero_left]

theorem matAdd_zeros_zeros (X : Mat) : matAdd (zerosLike X) (zerosLike X) = zerosLike X := by
  unfold matAdd zerosLike
  induction X with
  | nil => rfl
  | cons a t ih => simp only [List.map_cons, List.zipWith_cons_cons, ih, zipWith_add_zero_zero]

theorem foldl_matAdd_const (X Z : Mat) (hXZ : matAdd X Z = X) (B : List Mat) (hB : ∀ y ∈ B, y = Z) :
    B.foldl matAdd X = X := by
  induction B with
  | nil => rfl
  | cons b t ih =>
    rw [List.foldl_cons, hB b (by simp), hXZ]
    exact ih (fun y hy => hB y (by simp [hy]))

theorem fold_one (S Z : Mat) (hSZ : matAdd S Z = S) (hZS : matAdd Z S = S) (hZZ : matAdd Z Z = Z)
    (A B : List Mat) (hA : ∀ y ∈ A, y = Z) (hB : ∀ y ∈ B, y = Z) :
    (match A ++ S :: B with | [] => [] | x :: t => t.foldl matAdd x) = S := by
  cases A with
  | nil => exact foldl_matAdd_const S Z hSZ B hB
  | cons a A' =>
    simp only [List.cons_append]
    rw [hA a (by simp), List.foldl_append, foldl_matAdd_const Z Z hZZ A' (fun y hy => hA y (by simp [hy])),
      List.foldl_cons, hZS]
    exact foldl_matAdd_const S Z hSZ B hB

theorem scatter_is_shard_l (mp primary i : Nat) (shards : List Mat) (hp : primary < mp) (hi : i < shards.length) :
    scatterFrom mp primary shards i = shards.getD i [] := by
  unfold scatterFrom reduceScatter
  rw [List.map_map]
  have hf : ((fun l : List Mat => l.getD i []) ∘ fun r => if r == primary then shards else shards.map zerosLike)
      = fun r => if r = primary then shards.getD i [] else zerosLike (shards.getD i []) := by
    funext r
    simp only [Function.comp]
    by_cases h : r = primary
    · simp [h]
    · simp only [beq_iff_eq, h, if_false]
      rw [getD_map_of_lt _ _ _ _ hi, getD_of_lt _ _ _ hi]
  rw [hf]
  obtain ⟨n, rfl⟩ : ∃ n, mp = primary + (n + 1) := ⟨mp - primary - 1, by omega⟩
  rw [List.range_add, List.map_append, List.range_succ_eq_map, List.map_cons, List.map_cons]
  simp only [Nat.add_zero, if_true]
  apply fold_one _ _ (matAdd_zeros_right _) (matAdd_zeros_left _) (matAdd_zeros_zeros _)
  · intro y hy
    rcases List.mem_map.mp hy with ⟨r, hr, rfl⟩
    have : r < primary := List.mem_range.mp hr
    rw [if_neg (by omega)]
  · intro y hy
    simp only [List.map_map, List.mem_map, Function.comp] at hy
    rcases hy with ⟨r, _, rfl⟩
    rw [if_neg (by omega)]

/-! ### end to end -/

theorem length_splitRows (mp : Nat) (W : Mat) : (splitRows mp W).length = mp := by simp [splitRows]
theorem length_splitCols (mp c : Nat) (W : Mat) : (splitCols mp c W).length = mp := by simp [splitCols]

theorem shard_of_precond_l (par : Par) (mp primary i rows wcols : Nat) (w : List Mat)
    (b : Option (List (List Rat))) (P : Mat → Mat) (_hmp : 0 < mp) (hp : primary < mp) (hi : i < mp) :
    neoxPrecond par mp primary rows wcols w b P i =
      shardOf par mp b.isSome wcols (P (gatherCombined par rows w b primary)) i := by
  unfold neoxPrecond shardOf
  generalize P (gatherCombined par rows w b primary) = V
  by_cases h1 : mp = 1
  · subst h1
    have : i = 0 := by omega
    subst this
    cases par <;> cases b <;> simp
  · have hne : (mp == 1) = false := by simp [h1]
    simp only [hne]
    have hR : ∀ W, scatterFrom mp primary (splitRows mp W) i = (splitRows mp W).getD i [] :=
      fun W => scatter_is_shard_l mp primary i _ hp (by rw [length_splitRows]; exact hi)
    have hC : ∀ W, scatterFrom mp primary (splitCols mp wcols W) i = (splitCols mp wcols W).getD i [] :=
      fun W => scatter_is_shard_l mp primary i _ hp (by rw [length_splitCols]; exact hi)
    have hB : ∀ (bias : List Rat) (k : Nat),
        (scatterFrom mp primary ((List.range mp).map fun j => [(bias.drop (j * k)).take k]) i).getD 0 []
          = (bias.drop (i * k)).take k := by
      intro bias k
      rw [scatter_is_shard_l mp primary i _ hp (by simpa using hi),
        getD_map_of_lt _ _ _ _ (by simpa using hi)]
      simp
    cases par with
    | row => cases b <;> simp [hC]
    | col =>
      cases b with
      | none => simp [hR]
      | some bs =>
        simp only [hR]
        simp
        rw [← List.getD_eq_getElem?_getD]
        exact hB _ _

theorem factor_shapes_unsharded_l (mp fullIn fullOut : Nat) (hasBias : Bool) (_hmp : 0 < mp)
    (hin : mp ∣ fullIn) (hout : mp ∣ fullOut) :
    aDim .row mp (fullIn / mp) hasBias = fullIn + (if hasBias then 1 else 0) ∧
    gDim .row mp fullOut = fullOut ∧
    aDim .col mp fullIn hasBias = fullIn + (if hasBias then 1 else 0) ∧
    gDim .col mp (fullOut / mp) = fullOut := by
  simp only [aDim, gDim, Nat.div_mul_cancel hin, Nat.div_mul_cancel hout, and_self]

/-! ### replicated mean -/

theorem foldl_add_init (l : List Rat) (a : Rat) : l.foldl (· + ·) a = a + l.foldl (· + ·) 0 := by
  induction l generalizing a with
  | nil => simp
  | cons c t ih =>
    simp only [List.foldl_cons]
    rw [ih (a + c), ih (0 + c)]
    ring

theorem foldl_rep (c a : Rat) (m : Nat) :
    ((List.range m).map fun _ => c).foldl (· + ·) a = a + (m : Rat) * c := by
  induction m with
  | zero => simp
  | succ m ih =>
    rw [List.range_succ, List.map_append, List.foldl_append, ih]
    simp only [List.map_cons, List.map_nil, List.foldl_cons, List.foldl_nil]
    push_cast
    ring

theorem foldl_flatMap_rep (x : Nat → Rat) (mp : Nat) (L : List Nat) (a : Rat) :
    (L.flatMap fun d => (List.range mp).map fun _ => x d).foldl (· + ·) a
      = a + (mp : Rat) * (L.map x).foldl (· + ·) 0 := by
  induction L generalizing a with
  | nil => simp
  | cons d t ih =>
    rw [List.flatMap_cons, List.foldl_append, foldl_rep, ih, List.map_cons, List.foldl_cons,
      foldl_add_init (t.map x) (0 + x d)]
    ring

theorem replicated_mean_l (dp mp : Nat) (hdp : 0 < dp) (hmp : 0 < mp) (x : Nat → Rat) :
    (((List.range dp).flatMap fun d => (List.range mp).map fun _ => x d).foldl (· + ·) 0) / ((dp * mp : Nat) : Rat)
      = (((List.range dp).map x).foldl (· + ·) 0) / (dp : Rat) := by
  rw [foldl_flatMap_rep]
  have h1 : (dp : Rat) ≠ 0 := by exact_mod_cast (Nat.pos_iff_ne_zero.mp hdp)
  have h2 : (mp : Rat) ≠ 0 := by exact_mod_cast (Nat.pos_iff_ne_zero.mp hmp)
  push_cast
  field_simp
  ring

/-! ### checkpoints -/

theorem nodup_eraseDups {α : Type} [BEq α] [LawfulBEq α] (l : List α) : l.eraseDups.Nodup := by
  match l with
  | [] => simp
  | a :: as =>
    rw [List.eraseDups_cons, List.nodup_cons]
    have : (as.filter fun b => !b == a).length < as.length + 1 :=
      Nat.lt_succ_of_le (List.length_filter_le _ as)
    exact ⟨by simp [List.mem_eraseDups, List.mem_filter], nodup_eraseDups _⟩
termination_by l.length

theorem mem_partition (layersOf : Nat → List String) (inv : String → Nat) (r : Nat) (n : String) :
    n ∈ partition layersOf inv r ↔ n ∈ layersOf r ∧ inv n = r := by
  simp [partition, List.mem_filter]

theorem mem_restores (layersOf : Nat → List String) (fw : Nat → String → Nat) (r : Nat) (n : String) :
    n ∈ restores layersOf fw r ↔ n ∈ layersOf r ∧ fw r n = r := by
  simp [restores, List.mem_filter]

theorem restores_all (layersOf : Nat → List String) (fw : Nat → String → Nat) (r : Nat)
    (hfw : ∀ n, fw r n = r) : restores layersOf fw r = layersOf r := by
  simp [restores, hfw]

theorem gather_complete_l (world : Nat) (layersOf : Nat → List String) (inv : String → Nat)
    (h : ∀ r n, r < world → n ∈ layersOf r → inv n < world ∧ n ∈ layersOf (inv n)) (n : String) :
    n ∈ merged world layersOf inv ↔ ∃ r, r < world ∧ n ∈ layersOf r := by
  unfold merged
  rw [List.mem_eraseDups, List.mem_flatMap]
  constructor
  · rintro ⟨r, hr, hn⟩
    exact ⟨r, List.mem_range.mp hr, ((mem_partition _ _ _ _).mp hn).1⟩
  · rintro ⟨r, hr, hn⟩
    have := h r n hr hn
    exact ⟨inv n, List.mem_range.mpr this.1, (mem_partition _ _ _ _).mpr ⟨this.2, rfl⟩⟩

theorem gather_once_l (world : Nat) (layersOf : Nat → List String) (inv : String → Nat) :
    (merged world layersOf inv).Nodup := nodup_eraseDups _

/-! ### checkpoints, value level -/

theorem lastWrite_none {α : Type} (n : String) (l : List (String × α)) (h : ∀ kv ∈ l, kv.1 ≠ n) :
    lastWrite n l = none := by
  induction l with
  | nil => rfl
  | cons kv t ih =>
    obtain ⟨k, v⟩ := kv
    have ht : lastWrite n t = none := ih fun kv hkv => h kv (List.mem_cons_of_mem _ hkv)
    have hk : k ≠ n := h (k, v) List.mem_cons_self
    simp [lastWrite, ht, hk]

/-- if every write to key `n` carries the value `v` and there is at least one, the dict holds `v` -/
theorem lastWrite_const {α : Type} (n : String) (v : α) (l : List (String × α))
    (hall : ∀ kv ∈ l, kv.1 = n → kv.2 = v) (hex : ∃ kv ∈ l, kv.1 = n) : lastWrite n l = some v := by
  induction l with
  | nil => obtain ⟨kv, hkv, _⟩ := hex; cases hkv
  | cons kv t ih =>
    obtain ⟨k, w⟩ := kv
    by_cases hexT : ∃ kv ∈ t, kv.1 = n
    · have := ih (fun kv hkv => hall kv (List.mem_cons_of_mem _ hkv)) hexT
      simp [lastWrite, this]
    · have hnone : lastWrite n t = none :=
        lastWrite_none n t fun kv hkv hk => hexT ⟨kv, hkv, hk⟩
      obtain ⟨kv', hkv', hk'⟩ := hex
      rcases List.mem_cons.mp hkv' with h | h
      · subst h
        have hw : w = v := hall (k, w) List.mem_cons_self hk'
        simp only [] at hk'
        simp [lastWrite, hnone, hk', hw]
      · exact absurd ⟨kv', h, hk'⟩ hexT

theorem mem_gathered {α : Type} (world : Nat) (layersOf : Nat → List String) (inv : String → Nat)
    (held : Nat → String → α) (kv : String × α) :
    kv ∈ gathered world layersOf inv held ↔
      ∃ r, r < world ∧ kv.1 ∈ layersOf r ∧ inv kv.1 = r ∧ kv.2 = held r kv.1 := by
  unfold gathered contribVals
  simp only [List.mem_flatMap, List.mem_range, List.mem_map, mem_partition]
  constructor
  · rintro ⟨r, hr, n, ⟨hn, hi⟩, rfl⟩
    exact ⟨r, hr, hn, hi, rfl⟩
  · rintro ⟨r, hr, hn, hi, hv⟩
    exact ⟨r, hr, kv.1, ⟨hn, hi⟩, by cases kv; simp_all⟩

theorem merged_value_l {α : Type} (world : Nat) (layersOf : Nat → List String) (inv : String → Nat)
    (held : Nat → String → α)
    (h : ∀ r n, r < world → n ∈ layersOf r → inv n < world ∧ n ∈ layersOf (inv n))
    (n : String) (hn : ∃ r, r < world ∧ n ∈ layersOf r) :
    mergedVal world layersOf inv held n = some (held (inv n) n) := by
  unfold mergedVal
  apply lastWrite_const
  · intro kv hkv hk
    obtain ⟨r, _, _, hi, hv⟩ := (mem_gathered world layersOf inv held kv).mp hkv
    rw [hv, ← hi, hk]
  · obtain ⟨r, hr, hnr⟩ := hn
    have := h r n hr hnr
    exact ⟨(n, held (inv n) n), (mem_gathered _ _ _ _ _).mpr ⟨inv n, this.1, this.2, rfl, rfl⟩, rfl⟩

theorem merged_value_none_l {α : Type} (world : Nat) (layersOf : Nat → List String) (inv : String → Nat)
    (held : Nat → String → α) (n : String) (hn : ¬ ∃ r, r < world ∧ n ∈ layersOf r) :
    mergedVal world layersOf inv held n = none := by
  unfold mergedVal
  apply lastWrite_none
  intro kv hkv hk
  obtain ⟨r, hr, hm, _, _⟩ := (mem_gathered world layersOf inv held kv).mp hkv
  exact hn ⟨r, hr, hk ▸ hm⟩

theorem loadVal_restored {α : Type} (layersOf : Nat → List String) (fw : Nat → String → Nat)
    (state : String → Option α) (old : Nat → String → α) (r : Nat) (n : String) (v : α)
    (hn : n ∈ layersOf r) (hfw : fw r n = r) (hs : state n = some v) :
    loadVal layersOf fw state old r n = v := by
  have : (restores layersOf fw r).contains n = true := by
    simpa using (mem_restores layersOf fw r n).mpr ⟨hn, hfw⟩
  rw [loadVal, if_pos this, hs]; rfl

theorem loadVal_frame {α : Type} (layersOf : Nat → List String) (fw : Nat → String → Nat)
    (state : String → Option α) (old : Nat → String → α) (r : Nat) (n : String)
    (h : n ∉ layersOf r ∨ fw r n ≠ r) : loadVal layersOf fw state old r n = old r n := by
  have : (restores layersOf fw r).contains n = false := by
    have : n ∉ restores layersOf fw r := fun hm => by
      have := (mem_restores layersOf fw r n).mp hm
      rcases h with h | h
      · exact h this.1
      · exact h this.2
    simpa using this
  rw [loadVal, if_neg (by rw [this]; exact Bool.false_ne_true)]

theorem loadVal_absent {α : Type} (layersOf : Nat → List String) (fw : Nat → String → Nat)
    (state : String → Option α) (old : Nat → String → α) (r : Nat) (n : String)
    (hs : state n = none) : loadVal layersOf fw state old r n = old r n := by
  unfold loadVal; split <;> simp [hs]

end KV.NeoxL
