/- M-Precond's open bucket is M-Comm's bucket state machine (single Mathlib modules allowed; never `import Mathlib`). -/
import KfacVerif.Model.Precond
import KfacVerif.Model.Comm

/-!
Helper lemmas for the link theorems `KV.C08.flush_sim` / `KV.C08.reduce_sim` (core Lean only).

* non-recursive copies (`issues`, `events`, `absB`, `newA`) of the definitions the statements use;
* "the script only grows" facts for `readSlot`, the read loop, `flushBucket`, `reduceFactor`;
* the M-Comm side: `allreduceBucketed` / `flush` on the one-bucket state `absB`;
* the two simulation lemmas `flush_link`, `reduce_link`.
-/

namespace KV.BucketLink
open KV KV.Precond

/-! ### definitions mirrored from the statement file -/

def isIssue : GAct → Bool
  | .issue _ _ => true
  | _ => false

/-- `issuesOf` as a `filterMap` -/
def issues (l : List GAct) : List (List Nat × Nat) :=
  l.filterMap fun a => match a with
    | .issue m d => some (m, d.elems)
    | _ => none

/-- `eventsOf` as a `map` -/
def events (l : List Comm.Event) : List (List Nat × Nat) :=
  l.map fun e => match e with
    | .allreduce g _ e => (g, e)
    | .broadcast g _ e _ => (g, e)

def absItems (fe : Nat) (b : List BItem) : List Comm.Item :=
  b.map fun b => ({ tid := b.req, elems := b.elems, esize := fe, dtype := 0 } : Comm.Item)

def absB (c : Cfg) (s : St) : Comm.CState :=
  { cap := c.cap, buckets := [(worldRanks c, some { items := absItems c.fe s.bucket })] }

def newA (before after : St) : List GAct := after.acts.drop before.acts.length

/-! ### the script only grows -/

theorem newA_of_script {s s' : St} {added : List GAct} (h : s'.script = added ++ s.script) :
    newA s s' = added.reverse := by
  unfold newA St.acts
  rw [h, List.reverse_append]
  exact List.drop_left

theorem issues_append (a b : List GAct) : issues (a ++ b) = issues a ++ issues b := by
  simp [issues, List.filterMap_append]

theorem issues_quiet (l : List GAct) (h : ∀ a ∈ l, isIssue a = false) : issues l = [] := by
  unfold issues
  rw [List.filterMap_eq_nil_iff]
  intro a ha
  have := h a ha
  cases a <;> simp_all [isIssue]

/-- `s'` differs from `s` (as far as the bucket machine is concerned) by non-issue acts only -/
structure Quiet (s s' : St) : Prop where
  bucket : s'.bucket = s.bucket
  nextReq : s'.nextReq = s.nextReq
  grow : ∃ added, s'.script = added ++ s.script ∧ ∀ a ∈ added, isIssue a = false

theorem Quiet.refl (s : St) : Quiet s s := ⟨rfl, rfl, [], rfl, by simp⟩

theorem Quiet.trans {a b c : St} (h1 : Quiet a b) (h2 : Quiet b c) : Quiet a c := by
  obtain ⟨x, hx, hxq⟩ := h1.grow
  obtain ⟨y, hy, hyq⟩ := h2.grow
  refine ⟨h2.bucket.trans h1.bucket, h2.nextReq.trans h1.nextReq, y ++ x, ?_, ?_⟩
  · rw [hy, hx, List.append_assoc]
  · intro a ha
    rcases List.mem_append.1 ha with h | h
    · exact hyq a h
    · exact hxq a h

theorem Quiet.of_same {s s' : St} (hb : s'.bucket = s.bucket) (hn : s'.nextReq = s.nextReq)
    (hs : s'.script = s.script) : Quiet s s' := ⟨hb, hn, [], by simp [hs], by simp⟩

theorem quiet_readSlot (s : St) (r : Nat) (sl : Option Slot) : Quiet s (readSlot s r sl).1 := by
  rcases sl with _ | ⟨v, _ | id | q⟩
  · exact Quiet.refl s
  · exact Quiet.refl s
  · exact ⟨rfl, rfl, [.wait r id], rfl, by simp [isIssue]⟩
  · exact ⟨rfl, rfl, [.stall r q], rfl, by simp [isIssue]⟩

theorem quiet_setL (s : St) (r l : Nat) (x : LState) : Quiet s (setL s r l x) :=
  Quiet.of_same rfl rfl rfl

theorem quiet_foldl {α} (f : St → α → St) (hf : ∀ s a, Quiet s (f s a)) (xs : List α) (s : St) :
    Quiet s (xs.foldl f s) := by
  induction xs generalizing s with
  | nil => exact Quiet.refl s
  | cons a t ih => exact (hf s a).trans (ih (f s a))

/-! ### normal form of `reduceFactor` -/

def readFacs (c : Cfg) (s : St) (l : Nat) (isA : Bool) : St :=
  forRanks c s fun s r =>
    let x := getL s r l
    let (s, f) := readSlot s r (if isA then x.aFactor else x.gFactor)
    setL s r l (if isA then { getL s r l with aFactor := f } else { getL s r l with gFactor := f })

def putFac (c : Cfg) (l : Nat) (isA : Bool) (avg : V) (p : Pend) (s : St) : St :=
  (worldRanks c).foldl (fun s r =>
    let x := getL s r l
    setL s r l (if isA then { x with aFactor := some ⟨avg, p⟩ } else { x with gFactor := some ⟨avg, p⟩ })) s

def facVals (c : Cfg) (s : St) (l : Nat) (isA : Bool) : List V :=
  (worldRanks c).map fun r =>
    let x := getL s r l
    ((if isA then x.aFactor else x.gFactor).map (·.val)).getD .zero

def missingFac (c : Cfg) (s : St) (l : Nat) (isA : Bool) : List Nat :=
  (worldRanks c).filter fun r =>
    let x := getL s r l
    (if isA then x.aFactor else x.gFactor).isNone

def facDim (c : Cfg) (l : Nat) (isA : Bool) : Nat :=
  if isA then (c.layers.getD l ⟨0, 0⟩).aDim else (c.layers.getD l ⟨0, 0⟩).gDim

theorem reduceFactor_eq (c : Cfg) (s : St) (l : Nat) (isA : Bool) :
    reduceFactor c s l isA =
      if !(missingFac c s l isA).isEmpty then
        fail s ((missingFac c s l isA).headD 0) "factor is None, cannot reduce" else
      let s1 := readFacs c s l isA
      if c.world == 1 then s1 else
      let elems := triElems (facDim c l isA) c.symAware
      let avg := V.ref s1.defs.length
      let s2 : St := { s1 with defs := s1.defs ++ [avgOf (facVals c s1 l isA)] }
      if c.bucketed then
        let s3 := if (s2.bucket.map (·.elems)).sum * c.fe + elems * c.fe > c.cap then flushBucket c s2 else s2
        putFac c l isA avg (.queued s3.nextReq)
          { s3 with bucket := s3.bucket ++ [⟨s3.nextReq, l, isA, elems⟩], nextReq := s3.nextReq + 1 }
      else
        putFac c l isA avg (.issued s2.nIssued)
          { s2 with script := .issue (worldRanks c)
                      { kind := .allreduce, elems := elems, esize := c.fe, root := 0 } :: s2.script,
                    nIssued := s2.nIssued + 1 } := rfl

theorem quiet_readFacs (c : Cfg) (s : St) (l : Nat) (isA : Bool) : Quiet s (readFacs c s l isA) := by
  unfold readFacs forRanks
  apply quiet_foldl
  intro s r
  have h := quiet_readSlot s r (if isA then (getL s r l).aFactor else (getL s r l).gFactor)
  show Quiet s (match readSlot s r (if isA then (getL s r l).aFactor else (getL s r l).gFactor) with
    | (s1, f) => setL s1 r l (if isA then { getL s1 r l with aFactor := f } else { getL s1 r l with gFactor := f }))
  generalize readSlot s r (if isA then (getL s r l).aFactor else (getL s r l).gFactor) = p at h
  obtain ⟨s1, f⟩ := p
  exact h.trans (quiet_setL _ _ _ _)

theorem quiet_putFac (c l isA avg p) (s : St) : Quiet s (putFac c l isA avg p s) := by
  unfold putFac
  apply quiet_foldl
  intro s r
  exact quiet_setL _ _ _ _

/-! ### `flushBucket` -/

theorem flushBucket_bucket (c : Cfg) (s : St) : (flushBucket c s).bucket = [] := by
  unfold flushBucket
  split
  · rename_i h; simpa using h
  · rfl

theorem flushBucket_nextReq (c : Cfg) (s : St) : (flushBucket c s).nextReq = s.nextReq := by
  unfold flushBucket
  split <;> rfl

/-- what `flushBucket` adds to the script -/
def flushActs (c : Cfg) (b : List BItem) : List GAct :=
  if b.isEmpty then [] else
    [.issue (worldRanks c) { kind := .allreduce, elems := (b.map (·.elems)).sum, esize := c.fe, root := 0 }]

theorem flushBucket_script (c : Cfg) (s : St) :
    (flushBucket c s).script = flushActs c s.bucket ++ s.script := by
  unfold flushBucket flushActs
  split <;> rfl

/-! ### M-Comm on the one-bucket state -/

theorem sum_size (fe : Nat) (b : List BItem) :
    ((absItems fe b).map fun it => it.elems * it.esize).sum = (b.map (·.elems)).sum * fe := by
  induction b with
  | nil => simp [absItems]
  | cons x t ih =>
    simp only [absItems, List.map_cons, List.sum_cons] at ih ⊢
    rw [ih, Nat.add_mul]

theorem sum_elems (fe : Nat) (b : List BItem) :
    ((absItems fe b).map (·.elems)).sum = (b.map (·.elems)).sum := by
  simp [absItems, List.map_map, Function.comp_def]

theorem dtype_absItems (fe : Nat) (b : List BItem) :
    Comm.Bucket.dtype? { items := absItems fe b } = none ∨
    Comm.Bucket.dtype? { items := absItems fe b } = some 0 := by
  cases b <;> simp [absItems, Comm.Bucket.dtype?]

theorem commElems_sq (n : Nat) (sym : Bool) : Comm.commElems [n, n] sym = triElems n sym := by
  cases sym <;> simp [Comm.commElems, Comm.numel, triElems]

theorem checkShape_sq (n : Nat) (sym : Bool) : Comm.checkShape [n, n] sym = .ok () := by
  cases sym <;> simp [Comm.checkShape]

/-- events of flushing the abstracted bucket -/
theorem events_emit (c : Cfg) (b : List BItem) :
    events (Comm.emit (worldRanks c) { items := absItems c.fe b }) = issues (flushActs c b).reverse := by
  unfold Comm.emit flushActs
  cases b with
  | nil => simp [absItems, events, issues]
  | cons x t =>
    have := sum_elems c.fe (x :: t)
    simp [absItems, events, issues] at this ⊢
    exact this

theorem absItems_append (fe : Nat) (b : List BItem) (x : BItem) :
    absItems fe (b ++ [x]) = absItems fe b ++ [⟨x.req, x.elems, fe, 0⟩] := by
  simp [absItems]

/-- `allreduce_bucketed` on the abstraction of M-Precond's bucket -/
theorem arB_link (c : Cfg) (b : List BItem) (hw : c.world ≠ 1) (tid n : Nat) :
    Comm.allreduceBucketed { cap := c.cap, buckets := [(worldRanks c, some { items := absItems c.fe b })] }
        (worldRanks c) tid [n, n] c.fe 0 c.symAware =
      if (b.map (·.elems)).sum * c.fe + triElems n c.symAware * c.fe > c.cap then
        ({ cap := c.cap, buckets := [(worldRanks c, some { items := [⟨tid, triElems n c.symAware, c.fe, 0⟩] })] },
         Comm.emit (worldRanks c) { items := absItems c.fe b }, .future)
      else
        ({ cap := c.cap, buckets := [(worldRanks c,
            some { items := absItems c.fe b ++ [⟨tid, triElems n c.symAware, c.fe, 0⟩] })] }, [], .future) := by
  have hg : ((worldRanks c).length == 1) = false := by
    simp [worldRanks, hw]
  unfold Comm.allreduceBucketed
  simp only [hg, checkShape_sq, commElems_sq, Comm.lookupB, beq_self_eq_true, if_true,
    Comm.Bucket.size, sum_size, Comm.setB, Bool.false_eq_true, if_false]
  by_cases h : (b.map (·.elems)).sum * c.fe + triElems n c.symAware * c.fe > c.cap
  · simp [h]
  · rcases dtype_absItems c.fe b with hd | hd <;> simp [h, hd]

/-! ### the two simulation lemmas -/

theorem flush_link (c : Cfg) (s : St) :
    issues (newA s (flushBucket c s)) = events (Comm.flush (absB c s)).2 ∧
    (flushBucket c s).bucket = [] ∧ Comm.pending (Comm.flush (absB c s)).1 = [] := by
  refine ⟨?_, flushBucket_bucket c s, ?_⟩
  · rw [newA_of_script (flushBucket_script c s)]
    simp only [Comm.flush, absB, List.flatMap_cons, List.flatMap_nil, List.append_nil]
    exact (events_emit c s.bucket).symm
  · simp [Comm.flush, absB, Comm.pending]

theorem fail_err_ne (s : St) (r : Nat) (w : String) (hs : s.err = none) : (fail s r w).err ≠ none := by
  unfold fail
  rw [hs]
  simp

theorem putFac_same (c l isA avg p) (s : St) :
    (putFac c l isA avg p s).bucket = s.bucket ∧ (putFac c l isA avg p s).script = s.script := by
  unfold putFac
  generalize worldRanks c = rs
  induction rs generalizing s with
  | nil => exact ⟨rfl, rfl⟩
  | cons r t ih =>
    rw [List.foldl_cons]
    exact ⟨(ih _).1.trans rfl, (ih _).2.trans rfl⟩

/-- `reduceFactor` in the bucketed, non-failing case: what it does to `script` and `bucket` -/
theorem reduceFactor_bucketed (c : Cfg) (s : St) (l : Nat) (isA : Bool) (hb : c.bucketed = true)
    (hw : c.world ≠ 1) (hm : ¬ (!(missingFac c s l isA).isEmpty) = true) :
    ∃ added, (∀ a ∈ added, isIssue a = false) ∧
      if (s.bucket.map (·.elems)).sum * c.fe + triElems (facDim c l isA) c.symAware * c.fe > c.cap then
        (reduceFactor c s l isA).script = flushActs c s.bucket ++ (added ++ s.script) ∧
        (reduceFactor c s l isA).bucket = [⟨s.nextReq, l, isA, triElems (facDim c l isA) c.symAware⟩]
      else
        (reduceFactor c s l isA).script = added ++ s.script ∧
        (reduceFactor c s l isA).bucket =
          s.bucket ++ [⟨s.nextReq, l, isA, triElems (facDim c l isA) c.symAware⟩] := by
  have hq := quiet_readFacs c s l isA
  obtain ⟨added, hadd, haq⟩ := hq.grow
  have hw' : (c.world == 1) = false := by simp [hw]
  refine ⟨added, haq, ?_⟩
  rw [reduceFactor_eq, if_neg hm]
  simp only [hw', hb, if_true, Bool.false_eq_true, if_false, hq.bucket]
  by_cases h : (s.bucket.map (·.elems)).sum * c.fe + triElems (facDim c l isA) c.symAware * c.fe > c.cap
  · simp only [if_pos h]
    refine ⟨(putFac_same _ _ _ _ _ _).2.trans ?_, (putFac_same _ _ _ _ _ _).1.trans ?_⟩
    · show (flushBucket c _).script = _
      rw [flushBucket_script]
      show flushActs c s.bucket ++ (readFacs c s l isA).script = _
      rw [hadd]
    · show (flushBucket c _).bucket ++ [BItem.mk (flushBucket c _).nextReq l isA _] = _
      rw [flushBucket_bucket, flushBucket_nextReq]
      show [] ++ [BItem.mk (readFacs c s l isA).nextReq l isA _] = _
      rw [hq.nextReq]
      rfl
  · simp only [if_neg h]
    refine ⟨(putFac_same _ _ _ _ _ _).2.trans hadd, (putFac_same _ _ _ _ _ _).1.trans ?_⟩
    show s.bucket ++ [BItem.mk (readFacs c s l isA).nextReq l isA _] = _
    rw [hq.nextReq]

theorem reduce_link (c : Cfg) (s : St) (l : Nat) (isA : Bool) (hb : c.bucketed = true) (hw : c.world ≠ 1)
    (hne : (reduceFactor c s l isA).err = none) (hs : s.err = none) :
    issues (newA s (reduceFactor c s l isA)) =
      events (Comm.allreduceBucketed (absB c s) (worldRanks c) s.nextReq
        [facDim c l isA, facDim c l isA] c.fe 0 c.symAware).2.1 ∧
    absB c (reduceFactor c s l isA) =
      (Comm.allreduceBucketed (absB c s) (worldRanks c) s.nextReq
        [facDim c l isA, facDim c l isA] c.fe 0 c.symAware).1 ∧
    (Comm.allreduceBucketed (absB c s) (worldRanks c) s.nextReq
        [facDim c l isA, facDim c l isA] c.fe 0 c.symAware).2.2 = .future := by
  by_cases hm : (!(missingFac c s l isA).isEmpty) = true
  · rw [reduceFactor_eq, if_pos hm] at hne
    exact absurd hne (fail_err_ne _ _ _ hs)
  · obtain ⟨added, haq, hr⟩ := reduceFactor_bucketed c s l isA hb hw hm
    have hqi : issues added.reverse = [] :=
      issues_quiet _ (fun a ha => haq a (List.mem_reverse.1 ha))
    unfold absB
    rw [arB_link c s.bucket hw]
    by_cases h : (s.bucket.map (·.elems)).sum * c.fe + triElems (facDim c l isA) c.symAware * c.fe > c.cap
    · rw [if_pos h] at hr ⊢
      refine ⟨?_, ?_, rfl⟩
      · rw [newA_of_script (added := flushActs c s.bucket ++ added) (by rw [hr.1, List.append_assoc]),
          List.reverse_append, issues_append, hqi, List.nil_append]
        exact (events_emit c s.bucket).symm
      · rw [hr.2]; rfl
    · rw [if_neg h] at hr ⊢
      refine ⟨?_, ?_, rfl⟩
      · rw [newA_of_script hr.1, hqi]; rfl
      · rw [hr.2, absItems_append]

end KV.BucketLink
