/-
Helper lemmas for the statements about M-NeoxScript (Props/C11.lean, section NeoxScript):
well-formedness of the global script, group-specific communication, roots vs. assignment,
passes that do not fire (accumulation / deferred factor updates) only gather.
`NCfgOK` / `toG` are defined here.
-/
import KfacVerif.Model.NeoxScript
import KfacVerif.Model.Sched
import KfacVerif.Lemmas.NeoxTopo
import KfacVerif.Lemmas.Bucket

/- decidable equality of communicator states (the model derives it for items and events only):
    lets closed statements about `(run c ops).comm` be settled by `decide +kernel` -/
deriving instance DecidableEq for KV.Comm.Bucket
deriving instance DecidableEq for KV.Comm.CState

namespace KV.C11S
open KV KV.Neox KV.NeoxS KV.C12

/-- a well-formed run: positive axis sizes, one layer list per pipeline stage, unique layer names
    inside a stage (names are the keys of a dict) -/
structure NCfgOK (c : NeoxS.Cfg) : Prop where
  topo : TopoOK c.t
  stages : c.stages.length = c.t.pp
  names : ∀ p, p < c.t.pp → ((c.stages.getD p []).map (·.name)).Nodup

/-- the script in the vocabulary of the generic scheduler (kinds other than broadcast have no root) -/
def toG (a : NAct) : KV.Precond.GAct :=
  .issue a.members { kind := (match a.kind with | .broadcast => .broadcast | _ => .allreduce),
                     elems := a.elems, esize := 0, root := a.root }

/-! ### well-formedness of a list of issues -/

/-- what `wfAux` checks on one issue -/
def GoodB (n : Nat) (a : NAct) : Prop :=
  (∀ x ∈ a.members, x < n) ∧ 2 ≤ a.members.length ∧ (a.kind = .broadcast → a.root ∈ a.members)

theorem wfAux_map_toG (n : Nat) : ∀ (l : List NAct) (seen : List (List Nat)),
    (∀ a ∈ l, GoodB n a) → KV.Sched2.wfAux n seen (l.map toG) = true
  | [], _, _ => rfl
  | a :: t, seen, h => by
    obtain ⟨h1, h2, h3⟩ := h a (List.mem_cons_self ..)
    have ih := wfAux_map_toG n t (seen ++ [a.members]) (fun b hb => h b (List.mem_cons_of_mem _ hb))
    simp only [List.map_cons, toG, KV.Sched2.wfAux, ih, Bool.and_true, Bool.and_eq_true,
      List.all_eq_true, decide_eq_true_eq]
    refine ⟨⟨h1, h2⟩, ?_⟩
    cases hk : a.kind
    · rfl
    · simpa using h3 hk
    · rfl
    · rfl
    · rfl
    · rfl

/-! ### the per-collective predicate carried through the run -/

/-- the group/kind classification of `neox_groups` -/
def Grp (c : NeoxS.Cfg) (a : NAct) : Prop :=
    (∃ p d, p < c.t.pp ∧ d < c.t.dp ∧ a.members = modelGroup c p d ∧
        (a.kind = .allgather ∨ a.kind = .reducescatter ∨ a.kind = .broadcast)) ∨
    (∃ p m, p < c.t.pp ∧ m < c.t.mp ∧ a.members = dataGroup c p m ∧
        (a.kind = .allreduce ∨ a.kind = .broadcast)) ∨
    (∃ p, p < c.t.pp ∧ a.members = c.t.stagePeers p ∧ a.kind = .allreduce) ∨
    (a.members = worldGroup c ∧ (a.kind = .gatherobj ∨ a.kind = .barrier))

/-- `P` switches the well-formedness half on: the classification `Grp` holds for every history, the
    well-formedness of the world-wide collectives of a checkpoint needs a world of two -/
def Ok (P : Prop) (c : NeoxS.Cfg) (a : NAct) : Prop := (P → GoodB c.t.world a) ∧ Grp c a

variable {P : Prop}

/-- a legal bucket key: an all-reduce on it is fine whatever its size -/
def KeyOk (P : Prop) (c : NeoxS.Cfg) (g : List Nat) : Prop :=
  ∀ e, Ok P c { members := g, kind := .allreduce, elems := e, root := 0 }

def Inv (P : Prop) (c : NeoxS.Cfg) (s : St) : Prop :=
  (∀ a ∈ s.acts, Ok P c a) ∧ (∀ k ∈ s.comm.buckets.map (·.1), KeyOk P c k)

theorem foldl_inv {α σ : Type} (I : σ → Prop) (f : σ → α → σ) : ∀ (l : List α) (s : σ), I s →
    (∀ s x, x ∈ l → I s → I (f s x)) → I (l.foldl f s)
  | [], _, h, _ => h
  | x :: t, s, h, hf => by
    rw [List.foldl_cons]
    exact foldl_inv I f t _ (hf s x (List.mem_cons_self ..) h)
      (fun s y hy => hf s y (List.mem_cons_of_mem _ hy))

/-! ### the groups -/

theorem length_modelGroup (c : NeoxS.Cfg) (p d : Nat) : (modelGroup c p d).length = c.t.mp := by
  simp [modelGroup]

theorem length_dataGroup (c : NeoxS.Cfg) (p m : Nat) : (dataGroup c p m).length = c.t.dp := by
  simp [dataGroup]

theorem mem_modelGroup (c : NeoxS.Cfg) (p d x : Nat) :
    x ∈ modelGroup c p d ↔ ∃ m, m < c.t.mp ∧ c.t.rankOf p d m = x := by
  simp [modelGroup]

theorem mem_dataGroup (c : NeoxS.Cfg) (p m x : Nat) :
    x ∈ dataGroup c p m ↔ ∃ d, d < c.t.dp ∧ c.t.rankOf p d m = x := by
  simp [dataGroup]

theorem modelGroup_lt (c : NeoxS.Cfg) (h : TopoOK c.t) {p d : Nat} (hp : p < c.t.pp) (hd : d < c.t.dp) :
    ∀ x ∈ modelGroup c p d, x < c.t.world := by
  intro x hx
  obtain ⟨m, hm, rfl⟩ := (mem_modelGroup c p d x).1 hx
  exact (coord_rank' c.t h hp hd hm).1

theorem dataGroup_lt (c : NeoxS.Cfg) (h : TopoOK c.t) {p m : Nat} (hp : p < c.t.pp) (hm : m < c.t.mp) :
    ∀ x ∈ dataGroup c p m, x < c.t.world := by
  intro x hx
  obtain ⟨d, hd, rfl⟩ := (mem_dataGroup c p m x).1 hx
  exact (coord_rank' c.t h hp hd hm).1

theorem KeyOk_stage (c : NeoxS.Cfg) (h : TopoOK c.t) {p : Nat} (hp : p < c.t.pp)
    (hlen : (c.t.stagePeers p).length ≠ 1) : KeyOk P c (c.t.stagePeers p) := by
  intro e
  refine ⟨fun _ => ⟨fun x hx => ((stagePeers_spec' _ _ _).1 hx).1, ?_, fun hk => by cases hk⟩,
    .inr (.inr (.inl ⟨p, hp, rfl, rfl⟩))⟩
  have := List.length_pos_iff.2 (stagePeers_ne_nil c.t h hp)
  show 2 ≤ (c.t.stagePeers p).length
  omega

theorem KeyOk_data (c : NeoxS.Cfg) (h : TopoOK c.t) {p m : Nat} (hp : p < c.t.pp) (hm : m < c.t.mp)
    (hlen : (dataGroup c p m).length ≠ 1) : KeyOk P c (dataGroup c p m) := by
  intro e
  refine ⟨fun _ => ⟨dataGroup_lt c h hp hm, ?_, fun hk => by cases hk⟩, .inr (.inl ⟨p, m, hp, hm, rfl, .inl rfl⟩)⟩
  have := h.dp
  rw [length_dataGroup] at hlen
  show 2 ≤ (dataGroup c p m).length
  rw [length_dataGroup]
  omega

theorem Ok_model (c : NeoxS.Cfg) (h : TopoOK c.t) {p d : Nat} (hp : p < c.t.pp) (hd : d < c.t.dp)
    (hlen : ¬ (modelGroup c p d).length ≤ 1) (k : Kind) (e r : Nat)
    (hk : k = .allgather ∨ k = .reducescatter ∨ k = .broadcast)
    (hr : k = .broadcast → r ∈ modelGroup c p d) :
    Ok P c { members := modelGroup c p d, kind := k, elems := e, root := r } := by
  exact ⟨fun _ => ⟨modelGroup_lt c h hp hd, by show 2 ≤ (modelGroup c p d).length; omega, hr⟩,
    .inl ⟨p, d, hp, hd, rfl, hk⟩⟩

theorem Ok_dataB (c : NeoxS.Cfg) (h : TopoOK c.t) {p m d : Nat} (hp : p < c.t.pp) (hm : m < c.t.mp)
    (hd : d < c.t.dp) (hlen : ¬ (dataGroup c p m).length ≤ 1) (e : Nat) :
    Ok P c { members := dataGroup c p m, kind := .broadcast, elems := e, root := c.t.rankOf p d m } := by
  refine ⟨fun _ => ⟨dataGroup_lt c h hp hm, by show 2 ≤ (dataGroup c p m).length; omega,
    fun _ => (mem_dataGroup c p m _).2 ⟨d, hd, rfl⟩⟩, .inr (.inl ⟨p, m, hp, hm, rfl, .inr rfl⟩)⟩

/-! ### the inverse worker of a registered layer -/

theorem invOf_spec (c : NeoxS.Cfg) (h : TopoOK c.t) {p : Nat} (hp : p < c.t.pp) {l : Layer}
    (hl : l ∈ c.stages.getD p []) :
    (asg c p).invWorker p l.name = some (invOf c p l) ∧ invOf c p l < c.t.world ∧
      c.t.pipeOf (invOf c p l) = p := by
  have hw : (l.name, [("A", cost c l.aDim), ("G", cost c l.gDim)]) ∈ (asg c p).work :=
    List.mem_map.2 ⟨l, hl, rfl⟩
  obtain ⟨inv, hinv, hst⟩ := inv_worker_in_stage' (asg c p) h hp hw
  have e : invOf c p l = inv := by
    unfold invOf
    rw [show (asg c p).invWorker p l.name = some inv from hinv]
    rfl
  rw [e]
  exact ⟨hinv, (stagePeers_spec' _ _ _).1 hst⟩

/-! ### the communicator: events carry legal keys, keys stay legal -/

theorem emit_events (g : Comm.Key) (b : Comm.Bucket) :
    ∀ ev ∈ Comm.emit g b, ∃ t e, ev = .allreduce g t e := by
  intro ev hev
  unfold Comm.emit at hev
  split at hev
  · simp at hev
  · exact ⟨_, _, List.mem_singleton.1 hev⟩

theorem arB_inv (K : Comm.Key → Prop) (s : Comm.CState) (g : Comm.Key) (tid : Nat) (shape : List Nat)
    (es dt : Nat) (sym : Bool) (hs : ∀ k ∈ s.buckets.map (·.1), K k) (hg : g.length ≠ 1 → K g) :
    (∀ k ∈ (Comm.allreduceBucketed s g tid shape es dt sym).1.buckets.map (·.1), K k) ∧
    (∀ ev ∈ (Comm.allreduceBucketed s g tid shape es dt sym).2.1, ∃ k t e, ev = .allreduce k t e ∧ K k) := by
  unfold Comm.allreduceBucketed
  by_cases h1 : g.length = 1
  · simp only [h1, beq_self_eq_true, if_true]
    exact ⟨hs, by simp⟩
  · have hK := hg h1
    simp only [beq_iff_eq, h1, if_false]
    cases Comm.checkShape shape sym with
    | error e => exact ⟨hs, by simp⟩
    | ok u =>
      simp only
      split_ifs
      · refine ⟨?_, ?_⟩
        · intro k hk
          rcases (KV.C08.mem_keys_setB _ _ _ _).1 hk with hk | rfl
          · exact hs k hk
          · exact hK
        · intro ev hev
          obtain ⟨t, e, rfl⟩ := emit_events _ _ ev hev
          exact ⟨_, _, _, rfl, hK⟩
      · refine ⟨?_, by simp⟩
        intro k hk
        rcases (KV.C08.mem_keys_setB _ _ _ _).1 hk with hk | rfl
        · exact hs k hk
        · exact hK

theorem ar_inv (K : Comm.Key → Prop) (s : Comm.CState) (g : Comm.Key) (tid : Nat) (shape : List Nat)
    (sym : Bool) (hg : g.length ≠ 1 → K g) :
    (Comm.allreduce s g tid shape sym).1 = s ∧
    (∀ ev ∈ (Comm.allreduce s g tid shape sym).2.1, ∃ k t e, ev = .allreduce k t e ∧ K k) := by
  unfold Comm.allreduce
  by_cases h1 : g.length = 1
  · simp [h1]
  · simp only [beq_iff_eq, h1, if_false]
    cases Comm.checkShape shape sym with
    | error e => simp
    | ok u =>
      refine ⟨rfl, ?_⟩
      intro ev hev
      exact ⟨_, _, _, List.mem_singleton.1 hev, hg h1⟩

theorem flush_inv (K : Comm.Key → Prop) (s : Comm.CState) (hs : ∀ k ∈ s.buckets.map (·.1), K k) :
    (∀ k ∈ (Comm.flush s).1.buckets.map (·.1), K k) ∧
    (∀ ev ∈ (Comm.flush s).2, ∃ k t e, ev = .allreduce k t e ∧ K k) := by
  unfold Comm.flush
  refine ⟨?_, ?_⟩
  · intro k hk
    apply hs
    simpa [List.map_map] using hk
  · intro ev hev
    simp only [List.mem_flatMap] at hev
    obtain ⟨⟨k, b⟩, hkb, hev⟩ := hev
    cases b with
    | none => simp at hev
    | some b =>
      obtain ⟨t, e, rfl⟩ := emit_events _ _ ev hev
      exact ⟨_, _, _, rfl, hs k (List.mem_map.2 ⟨_, hkb, rfl⟩)⟩

/-! ### the script operations preserve the invariant -/

theorem Inv_events (c : NeoxS.Cfg) {acts : List NAct} {evs : List Comm.Event}
    (ha : ∀ a ∈ acts, Ok P c a) (he : ∀ ev ∈ evs, ∃ k t e, ev = .allreduce k t e ∧ KeyOk P c k) :
    ∀ a ∈ acts ++ evs.map ofEvent, Ok P c a := by
  intro a hm
  rcases List.mem_append.1 hm with hm | hm
  · exact ha a hm
  · obtain ⟨ev, hev, rfl⟩ := List.mem_map.1 hm
    obtain ⟨k, t, e, rfl, hk⟩ := he ev hev
    exact hk e

theorem Inv_emitIf (c : NeoxS.Cfg) (s : St) (g : List Nat) (k : Kind) (e r : Nat) (hs : Inv P c s)
    (hg : ¬ g.length ≤ 1 → Ok P c { members := g, kind := k, elems := e, root := r }) :
    Inv P c (emitIf s g k e r) := by
  unfold emitIf
  split
  · exact hs
  · rename_i hlen
    refine ⟨?_, hs.2⟩
    intro a ha
    rcases List.mem_append.1 ha with ha | ha
    · exact hs.1 a ha
    · rw [List.mem_singleton.1 ha]; exact hg hlen

theorem Inv_reduceFactor (c : NeoxS.Cfg) (s : St) (g : List Nat) (n : Nat) (hs : Inv P c s)
    (hg : g.length ≠ 1 → KeyOk P c g) : Inv P c (reduceFactor c s g n) := by
  unfold reduceFactor
  cases hb : c.bucketed
  · obtain ⟨h1, h2⟩ := ar_inv (KeyOk P c) s.comm g s.tid [n, n] c.sym hg
    refine ⟨Inv_events c hs.1 (by simpa using h2), ?_⟩
    simp only [Bool.false_eq_true, if_false, h1]
    exact hs.2
  · obtain ⟨h1, h2⟩ := arB_inv (KeyOk P c) s.comm g s.tid [n, n] c.esize 0 c.sym hs.2 hg
    exact ⟨Inv_events c hs.1 (by simpa using h2), by simpa using h1⟩

theorem Inv_flush (c : NeoxS.Cfg) (s : St) (hs : Inv P c s) : Inv P c (NeoxS.flush s) := by
  obtain ⟨h1, h2⟩ := flush_inv (KeyOk P c) s.comm hs.2
  exact ⟨Inv_events c hs.1 h2, h1⟩

theorem Inv_gathers (c : NeoxS.Cfg) (h : TopoOK c.t) {p : Nat} (hp : p < c.t.pp) (e : Nat) (s : St)
    (hs : Inv P c s) :
    Inv P c ((List.range c.t.dp).foldl (fun s d => emitIf s (modelGroup c p d) .allgather e 0) s) := by
  refine foldl_inv (Inv P c) _ _ s hs ?_
  intro s d hd hs
  exact Inv_emitIf c s _ _ _ _ hs fun hlen =>
    Ok_model c h hp (List.mem_range.1 hd) hlen _ _ _ (by decide) (fun hk => by cases hk)

theorem Inv_reduceA (c : NeoxS.Cfg) (h : TopoOK c.t) {p : Nat} (hp : p < c.t.pp) (s : St) (l : Layer)
    (hs : Inv P c s) : Inv P c (reduceA c p s l) := by
  unfold reduceA
  cases l.par
  · exact Inv_reduceFactor c s _ _ hs (KeyOk_stage c h hp)
  · exact Inv_reduceFactor c s _ _ hs (KeyOk_data c h hp (Nat.mod_lt _ h.mp))

theorem Inv_reduceG (c : NeoxS.Cfg) (h : TopoOK c.t) {p : Nat} (hp : p < c.t.pp) (s : St) (l : Layer)
    (hs : Inv P c s) : Inv P c (reduceG c p s l) := by
  unfold reduceG
  cases l.par
  · exact Inv_reduceFactor c s _ _ hs (KeyOk_data c h hp (Nat.mod_lt _ h.mp))
  · exact Inv_reduceFactor c s _ _ hs (KeyOk_stage c h hp)

theorem Inv_fwdLayer (c : NeoxS.Cfg) (h : TopoOK c.t) {p : Nat} (hp : p < c.t.pp) (fire : Bool) (s : St)
    (l : Layer) (hs : Inv P c s) : Inv P c (fwdLayer c p fire s l) := by
  have h1 : Inv P c (match l.par with
      | .col => s
      | .row => (List.range c.t.dp).foldl
          (fun s d => emitIf s (modelGroup c p d) .allgather (c.tokens * (l.inF / c.t.mp)) 0) s) := by
    cases l.par
    · exact hs
    · exact Inv_gathers c h hp _ s hs
  unfold fwdLayer
  cases fire
  · exact h1
  · exact Inv_reduceA c h hp _ l h1

theorem Inv_bwdLayer (c : NeoxS.Cfg) (h : TopoOK c.t) {p : Nat} (hp : p < c.t.pp) (fire : Bool) (s : St)
    (l : Layer) (hs : Inv P c s) : Inv P c (bwdLayer c p fire s l) := by
  have h1 : Inv P c (match l.par with
      | .row => s
      | .col => (List.range c.t.dp).foldl
          (fun s d => emitIf s (modelGroup c p d) .allgather (c.tokens * (l.outF / c.t.mp)) 0) s) := by
    cases l.par
    · exact Inv_gathers c h hp _ s hs
    · exact hs
  unfold bwdLayer
  cases fire
  · exact h1
  · exact Inv_reduceG c h hp _ l h1

theorem Inv_trainPass (c : NeoxS.Cfg) (h : TopoOK c.t) (s : St) (hs : Inv P c s) : Inv P c (trainPass c s) := by
  unfold trainPass
  split
  · exact hs
  · show Inv P c ((List.range c.t.pp).foldl _ s)
    refine foldl_inv (Inv P c) _ _ s hs ?_
    intro s p hp hs
    have hp := List.mem_range.1 hp
    refine foldl_inv (Inv P c) _ _ _ ?_ (fun s l _ hs => Inv_bwdLayer c h hp _ s l hs)
    exact foldl_inv (Inv P c) _ _ _ hs (fun s l _ hs => Inv_fwdLayer c h hp _ s l hs)

theorem Inv_precondLayer (c : NeoxS.Cfg) (h : TopoOK c.t) {p : Nat} (hp : p < c.t.pp) (s : St) (l : Layer)
    (hl : l ∈ c.stages.getD p []) (hs : Inv P c s) : Inv P c (precondLayer c p s l) := by
  obtain ⟨_, hw, hpipe⟩ := invOf_spec c h hp hl
  obtain ⟨_, hd, hm, hrk⟩ := rank_coord' c.t h hw
  rw [hpipe] at hrk
  have hroot : invOf c p l ∈ modelGroup c p (c.t.dataOf (invOf c p l)) :=
    (mem_modelGroup _ _ _ _).2 ⟨_, hm, hrk⟩
  have hM : ∀ (s : St) (k : Kind) (e r : Nat), Inv P c s →
      (k = .allgather ∨ k = .reducescatter ∨ k = .broadcast) →
      (k = .broadcast → r = invOf c p l) →
      Inv P c (emitIf s (modelGroup c p (c.t.dataOf (invOf c p l))) k e r) := by
    intro s k e r hs hk hr
    exact Inv_emitIf c s _ _ _ _ hs fun hlen =>
      Ok_model c h hp hd hlen _ _ _ hk (fun hb => by rw [hr hb]; exact hroot)
  unfold precondLayer
  simp only
  refine foldl_inv (Inv P c) _ _ _ ?_ ?_
  · have s1 := hM s .allgather (l.outF * l.inF / c.t.mp) 0 hs (by decide) (fun hk => by cases hk)
    have s2 : Inv P c (if (l.bias && l.par == .col) = true then
        emitIf (emitIf s (modelGroup c p (c.t.dataOf (invOf c p l))) .allgather (l.outF * l.inF / c.t.mp) 0)
          (modelGroup c p (c.t.dataOf (invOf c p l))) .allgather (l.outF / c.t.mp) 0
        else emitIf s (modelGroup c p (c.t.dataOf (invOf c p l))) .allgather (l.outF * l.inF / c.t.mp) 0) := by
      split
      · exact hM _ _ _ _ s1 (by decide) (fun hk => by cases hk)
      · exact s1
    have s3 := hM _ .reducescatter (l.outF * l.inF / c.t.mp) 0 s2 (by decide) (fun hk => by cases hk)
    split
    · cases hpar : l.par <;> rw [hpar] at s3
      · exact hM _ _ _ _ s3 (by decide) (fun hk => by cases hk)
      · exact hM _ _ _ _ s3 (by decide) (fun _ => rfl)
    · exact s3
  · intro s m hm hs
    exact Inv_emitIf c s _ _ _ _ hs fun hlen => Ok_dataB c h hp (List.mem_range.1 hm) hd hlen _

theorem Inv_stepReduce (c : NeoxS.Cfg) (h : TopoOK c.t) (s : St) (hs : Inv P c s) :
    Inv P c (if (!c.hook && s.steps % c.fus == 0) = true then
      (List.range c.t.pp).foldl (fun s p =>
        (c.stages.getD p []).reverse.foldl (fun s l => reduceG c p (reduceA c p s l) l) s) s
      else s) := by
  split
  · refine foldl_inv (Inv P c) _ _ s hs ?_
    intro s p hp hs
    have hp := List.mem_range.1 hp
    exact foldl_inv (Inv P c) _ _ _ hs
      (fun s l _ hs => Inv_reduceG c h hp _ l (Inv_reduceA c h hp s l hs))
  · exact hs

theorem Inv_stepOp (c : NeoxS.Cfg) (h : TopoOK c.t) (s : St) (hs : Inv P c s) : Inv P c (stepOp c s) := by
  unfold stepOp
  have key : ∀ s0, Inv P c s0 → Inv P c (NeoxS.flush ((List.range c.t.pp).foldl
      (fun s p => (c.stages.getD p []).reverse.foldl (precondLayer c p) s) (NeoxS.flush (NeoxS.flush s0)))) := by
    intro s0 hs0
    refine Inv_flush c _ (foldl_inv (Inv P c) _ _ _ (Inv_flush c _ (Inv_flush c _ hs0)) ?_)
    intro s p hp hs
    exact foldl_inv (Inv P c) _ _ _ hs
      (fun s l hl hs => Inv_precondLayer c h (List.mem_range.1 hp) s l (List.mem_reverse.1 hl) hs)
  exact key _ (Inv_stepReduce c h s hs)

theorem Inv_init (c : NeoxS.Cfg) : Inv P c (St.init c) := by
  constructor <;> intro a ha <;> simp [St.init] at ha

/-! ### checkpoints: world-wide collectives -/

theorem Ok_world (c : NeoxS.Cfg) (hw : P → 2 ≤ c.t.world) (k : Kind)
    (hk : k = .gatherobj ∨ k = .barrier) :
    Ok P c { members := worldGroup c, kind := k, elems := 1, root := 0 } := by
  refine ⟨fun hP => ⟨fun x hx => List.mem_range.1 hx, ?_, ?_⟩, .inr (.inr (.inr ⟨rfl, hk⟩))⟩
  · show 2 ≤ (worldGroup c).length
    simpa [worldGroup] using hw hP
  · intro hb
    rcases hk with hk | hk <;> rw [hk] at hb <;> cases hb

theorem Inv_emitWorld (c : NeoxS.Cfg) (hw : P → 2 ≤ c.t.world) (s : St) (k : Kind)
    (hk : k = .gatherobj ∨ k = .barrier) (hs : Inv P c s) : Inv P c (emitWorld c s k) := by
  refine ⟨?_, hs.2⟩
  intro a ha
  rcases List.mem_append.1 ha with ha | ha
  · exact hs.1 a ha
  · rw [List.mem_singleton.1 ha]; exact Ok_world c hw k hk

theorem Inv_saveOp (c : NeoxS.Cfg) (hw : P → 2 ≤ c.t.world) (dir : Bool) (s : St) (hs : Inv P c s) :
    Inv P c (saveOp c dir s) := by
  have h1 : Inv P c (if dir then emitWorld c s .barrier
      else emitWorld c (emitWorld c s .gatherobj) .barrier) := by
    cases dir
    · exact Inv_emitWorld c hw _ _ (.inr rfl) (Inv_emitWorld c hw _ _ (.inl rfl) hs)
    · exact Inv_emitWorld c hw _ _ (.inr rfl) hs
  exact h1

theorem Inv_loadOp (c : NeoxS.Cfg) (hw : P → 2 ≤ c.t.world) (dir fresh : Bool) (s : St)
    (hs : Inv P c s) : Inv P c (loadOp c dir fresh s) := by
  have h1 : Inv P c (if dir then s else emitWorld c s .barrier) := by
    cases dir
    · exact Inv_emitWorld c hw _ _ (.inr rfl) hs
    · exact hs
  refine ⟨h1.1, ?_⟩
  show ∀ k ∈ (if fresh then ({ cap := c.cap, buckets := [] } : Comm.CState)
      else (if dir then s else emitWorld c s .barrier).comm).buckets.map (·.1), KeyOk P c k
  cases fresh
  · exact h1.2
  · intro k hk; simp at hk

theorem Inv_run (c : NeoxS.Cfg) (h : TopoOK c.t) (ops : List Op)
    (hw : P → (2 ≤ c.t.world ∨ ∀ op ∈ ops, op.isCkpt = false)) : Inv P c (run c ops) := by
  unfold run
  refine foldl_inv (Inv P c) _ _ _ (Inv_init c) ?_
  intro s op hop hs
  have hck : op.isCkpt = true → P → 2 ≤ c.t.world := by
    intro hc hP
    rcases hw hP with h2 | h2
    · exact h2
    · rw [h2 op hop] at hc; cases hc
  cases op
  · exact Inv_trainPass c h s hs
  · exact Inv_stepOp c h s hs
  · exact Inv_saveOp c (hck rfl) _ s hs
  · exact Inv_loadOp c (hck rfl) _ _ s hs

theorem run_wf (c : NeoxS.Cfg) (hc : NCfgOK c) (ops : List Op)
    (hw : 2 ≤ c.t.world ∨ ∀ op ∈ ops, op.isCkpt = false) :
    KV.Sched2.wf c.t.world ((run c ops).acts.map toG) = true :=
  wfAux_map_toG _ _ _ (fun a ha => ((Inv_run (P := True) c hc.topo ops (fun _ => hw)).1 a ha).1 trivial)

theorem run_groups (c : NeoxS.Cfg) (hc : NCfgOK c) (ops : List Op) (a : NAct) (ha : a ∈ (run c ops).acts) :
    Grp c a := ((Inv_run (P := False) c hc.topo ops (fun h => h.elim)).1 a ha).2

/-! ### assignment -/

theorem dataGroup_eq_dataPeers (c : NeoxS.Cfg) (h : TopoOK c.t) (p : Nat) {r : Nat} (hr : r < c.t.world)
    (hp : c.t.pipeOf r = p) : dataGroup c p (c.t.modelOf r) = (asg c p).dataPeers r := by
  rw [dataPeers_eq (asg c p) h hr]
  show _ = (List.range c.t.dp).map fun d => c.t.rankOf (c.t.pipeOf r) d (c.t.modelOf r)
  rw [hp]; rfl

theorem reduce_group (c : NeoxS.Cfg) (h : TopoOK c.t) {p : Nat} (hp : p < c.t.pp)
    (l : Layer) (hl : l ∈ c.stages.getD p []) (loc : Nat) (hloc : loc < c.t.world) (hs : c.t.pipeOf loc = p) :
    (loc ∈ dataGroup c p (c.t.modelOf (invOf c p l)) ↔ (asg c p).factorWorker loc l.name = some loc) ∧
    invOf c p l ∈ dataGroup c p (c.t.modelOf (invOf c p l)) := by
  obtain ⟨hinv, hw, hpipe⟩ := invOf_spec c h hp hl
  have hwk : (l.name, [("A", cost c l.aDim), ("G", cost c l.gDim)]) ∈ (asg c p).work :=
    List.mem_map.2 ⟨l, hl, rfl⟩
  obtain ⟨inv, fw, e1, e2, m1, m2, hu⟩ := factor_worker_spec' (asg c p) h hloc hwk
  have e1' : (asg c p).invWorker p l.name = some inv := by
      rw [show (asg c p).t.pipeOf loc = p from hs] at e1; exact e1
  have einv : inv = invOf c p l := by rw [hinv] at e1'; exact (Option.some.inj e1').symm
  subst einv
  rw [dataGroup_eq_dataPeers c h p hw hpipe]
  refine ⟨?_, (dataPeers_spec' (asg c p) h hw _).2 ⟨hw, rfl, rfl⟩⟩
  have e2' : (asg c p).factorWorker loc l.name = some fw := e2
  rw [e2']
  constructor
  · intro hm
    rw [hu loc ((modelPeers_spec' (asg c p) h hloc _).2 ⟨hloc, rfl, rfl⟩) hm]
  · intro e
    rw [← Option.some.inj e]; exact m2

theorem roots (c : NeoxS.Cfg) (h : TopoOK c.t) {p : Nat} (hp : p < c.t.pp)
    (l : Layer) (hl : l ∈ c.stages.getD p []) (loc : Nat) (hloc : loc < c.t.world) (hs : c.t.pipeOf loc = p) :
    (asg c p).srcGradWorker loc l.name = some (c.t.rankOf p (c.t.dataOf (invOf c p l)) (c.t.modelOf loc)) ∧
    (loc ∈ modelGroup c p (c.t.dataOf (invOf c p l)) → (asg c p).factorWorker loc l.name = some (invOf c p l)) := by
  obtain ⟨hinv, hw, hpipe⟩ := invOf_spec c h hp hl
  have hwk : (l.name, [("A", cost c l.aDim), ("G", cost c l.gDim)]) ∈ (asg c p).work :=
    List.mem_map.2 ⟨l, hl, rfl⟩
  obtain ⟨_, id, _, _⟩ := rank_coord' c.t h hw
  obtain ⟨_, _, lm, _⟩ := rank_coord' c.t h hloc
  constructor
  · obtain ⟨inv, s, e1, e2, _, _, _, _, hu⟩ := src_spec' (asg c p) h hloc hwk
    have e1' : (asg c p).invWorker p l.name = some inv := by
      rw [show (asg c p).t.pipeOf loc = p from hs] at e1; exact e1
    have einv : inv = invOf c p l := by rw [hinv] at e1'; exact (Option.some.inj e1').symm
    subst einv
    have e2' : (asg c p).srcGradWorker loc l.name = some s := e2
    rw [e2']
    obtain ⟨f0, f1, f2, f3⟩ := coord_rank' c.t h hp id lm
    congr 1
    refine (hu _ ((dataPeers_spec' (asg c p) h hloc _).2 ⟨f0, ?_, f3⟩)
      ((modelPeers_spec' (asg c p) h hw _).2 ⟨f0, ?_, f2⟩)).symm
    · exact f1.trans hs.symm
    · exact f1.trans hpipe.symm
  · intro hm
    obtain ⟨m, hmlt, hmeq⟩ := (mem_modelGroup _ _ _ _).1 hm
    obtain ⟨_, _, g2, _⟩ := coord_rank' c.t h hp id hmlt
    rw [hmeq] at g2
    obtain ⟨inv, fw, e1, e2, _, _, hu⟩ := factor_worker_spec' (asg c p) h hloc hwk
    have e1' : (asg c p).invWorker p l.name = some inv := by
      rw [show (asg c p).t.pipeOf loc = p from hs] at e1; exact e1
    have einv : inv = invOf c p l := by rw [hinv] at e1'; exact (Option.some.inj e1').symm
    subst einv
    have e2' : (asg c p).factorWorker loc l.name = some fw := e2
    rw [e2']
    congr 1
    refine (hu _ ((modelPeers_spec' (asg c p) h hloc _).2 ⟨hw, ?_, ?_⟩)
      ((dataPeers_spec' (asg c p) h hw _).2 ⟨hw, rfl, rfl⟩)).symm
    · exact hpipe.trans hs.symm
    · exact g2.symm

/-! ### buckets are empty after a step -/

theorem pending_flush (s : Comm.CState) : Comm.pending (Comm.flush s).1 = [] := by
  unfold Comm.pending Comm.flush
  simp [List.flatMap_map]

theorem stepOp_pending (c : NeoxS.Cfg) (s : St) : Comm.pending (stepOp c s).comm = [] := by
  unfold stepOp
  exact pending_flush _

theorem trainPass_silent (c : NeoxS.Cfg) (s : St) (h : s.steps % c.fus ≠ 0) : trainPass c s = s := by
  unfold trainPass
  simp [h]

/-! ### passes that do not fire only gather -/

/-- `s'` extends the script of `s` by collectives satisfying `P` only -/
def Ext (P : NAct → Prop) (s s' : St) : Prop :=
  ∃ extra, s'.acts = s.acts ++ extra ∧ ∀ a ∈ extra, P a

theorem Ext.refl (P : NAct → Prop) (s : St) : Ext P s s := ⟨[], by simp, by simp⟩

theorem Ext.trans {P : NAct → Prop} {s1 s2 s3 : St} (h12 : Ext P s1 s2) (h23 : Ext P s2 s3) :
    Ext P s1 s3 := by
  obtain ⟨e1, h1, p1⟩ := h12
  obtain ⟨e2, h2, p2⟩ := h23
  refine ⟨e1 ++ e2, by rw [h2, h1, List.append_assoc], ?_⟩
  intro a ha
  rcases List.mem_append.1 ha with ha | ha
  · exact p1 a ha
  · exact p2 a ha

/-- a fold of functions each of which appends only acts satisfying `P` appends only such acts -/
theorem foldl_ext {α : Type} (P : NAct → Prop) (f : St → α → St) : ∀ (l : List α) (s : St),
    (∀ s x, x ∈ l → Ext P s (f s x)) → Ext P s (l.foldl f s)
  | [], s, _ => Ext.refl P s
  | x :: t, s, hf => by
    rw [List.foldl_cons]
    exact (hf s x (List.mem_cons_self ..)).trans
      (foldl_ext P f t _ (fun s y hy => hf s y (List.mem_cons_of_mem _ hy)))

theorem Ext_emitIf (P : NAct → Prop) (s : St) (g : List Nat) (k : Kind) (e r : Nat)
    (hP : P { members := g, kind := k, elems := e, root := r }) : Ext P s (emitIf s g k e r) := by
  unfold emitIf
  split
  · exact Ext.refl P s
  · refine ⟨[_], rfl, ?_⟩
    intro a ha
    rw [List.mem_singleton.1 ha]; exact hP

def IsGather (a : NAct) : Prop := a.kind = .allgather

theorem Ext_gathers (c : NeoxS.Cfg) (p e : Nat) (s : St) :
    Ext IsGather s
      ((List.range c.t.dp).foldl (fun s d => emitIf s (modelGroup c p d) .allgather e 0) s) :=
  foldl_ext IsGather _ _ s (fun s _ _ => Ext_emitIf IsGather s _ _ _ _ rfl)

theorem Ext_fwdLayer (c : NeoxS.Cfg) (p : Nat) (s : St) (l : Layer) :
    Ext IsGather s (fwdLayer c p false s l) := by
  unfold fwdLayer
  cases l.par
  · exact Ext.refl _ s
  · exact Ext_gathers c p _ s

theorem Ext_bwdLayer (c : NeoxS.Cfg) (p : Nat) (s : St) (l : Layer) :
    Ext IsGather s (bwdLayer c p false s l) := by
  unfold bwdLayer
  cases l.par
  · exact Ext_gathers c p _ s
  · exact Ext.refl _ s

theorem pass_only_gathers_l (c : NeoxS.Cfg) (s : St)
    (h : ¬ (c.hook = true ∧ (s.mini + 1) % c.accum = 0)) :
    ∃ extra, (trainPass c s).acts = s.acts ++ extra ∧ ∀ a ∈ extra, a.kind = .allgather := by
  have hfire : (c.hook && (s.mini + 1) % c.accum == 0) = false := by
    cases hh : c.hook
    · rfl
    · simp only [Bool.true_and, beq_eq_false_iff_ne, ne_eq]
      exact fun hm => h ⟨hh, hm⟩
  show Ext IsGather s (trainPass c s)
  unfold trainPass
  split
  · exact Ext.refl _ s
  · simp only [hfire]
    show Ext IsGather s ((List.range c.t.pp).foldl _ s)
    refine foldl_ext IsGather _ _ s ?_
    intro s p _
    exact (foldl_ext IsGather _ _ s (fun s l _ => Ext_fwdLayer c p s l)).trans
      (foldl_ext IsGather _ _ _ (fun s l _ => Ext_bwdLayer c p s l))

/-! ### checkpoints -/

theorem ckpt_every_rank_l (c : NeoxS.Cfg) (hc : NCfgOK c) (ops : List Op) (a : NAct)
    (ha : a ∈ (run c ops).acts) (hk : a.kind = .gatherobj ∨ a.kind = .barrier) (r : Nat)
    (hr : r < c.t.world) : a ∈ project r (run c ops).acts := by
  have hm : a.members = worldGroup c := by
    rcases run_groups c hc ops a ha with ⟨_, _, _, _, _, h⟩ | ⟨_, _, _, _, _, h⟩ | ⟨_, _, _, h⟩ | ⟨h, _⟩
    · rcases hk with hk | hk <;> rw [hk] at h <;> simp at h
    · rcases hk with hk | hk <;> rw [hk] at h <;> simp at h
    · rcases hk with hk | hk <;> rw [hk] at h <;> simp at h
    · exact h
  unfold project
  refine List.mem_filter.2 ⟨ha, ?_⟩
  rw [hm]
  simpa [worldGroup] using hr

theorem ckpt_script_l (c : NeoxS.Cfg) (s : St) (fresh : Bool) :
    (saveOp c false s).acts = s.acts ++ [⟨worldGroup c, .gatherobj, 1, 0⟩, ⟨worldGroup c, .barrier, 1, 0⟩] ∧
    (saveOp c true s).acts = s.acts ++ [⟨worldGroup c, .barrier, 1, 0⟩] ∧
    (loadOp c false fresh s).acts = s.acts ++ [⟨worldGroup c, .barrier, 1, 0⟩] ∧
    (loadOp c true fresh s).acts = s.acts := by
  simp [saveOp, loadOp, emitWorld]

/-! ### the model never reads `acts` or (outside `loadOp`) `kept`

`Sim s s'`: the two states agree on everything the hooks and `step()` read.  `Uni f`: `f` maps
similar states to similar states, keeps `kept` and appends the SAME collectives to both scripts. -/

def Sim (s s' : St) : Prop :=
  s.steps = s'.steps ∧ s.mini = s'.mini ∧ s.tid = s'.tid ∧ s.comm = s'.comm

theorem Sim.refl (s : St) : Sim s s := ⟨rfl, rfl, rfl, rfl⟩

def Uni (f : St → St) : Prop :=
  ∀ s s', Sim s s' → Sim (f s) (f s') ∧ (f s).kept = s.kept ∧
    ∃ extra, (f s).acts = s.acts ++ extra ∧ (f s').acts = s'.acts ++ extra

theorem Uni.id : Uni (fun s => s) := fun _ _ h => ⟨h, rfl, [], by simp, by simp⟩

theorem Uni.comp {f g : St → St} (hf : Uni f) (hg : Uni g) : Uni (fun s => g (f s)) := by
  intro s s' h
  obtain ⟨h1, k1, e1, a1, b1⟩ := hf s s' h
  obtain ⟨h2, k2, e2, a2, b2⟩ := hg _ _ h1
  exact ⟨h2, k2.trans k1, e1 ++ e2, by rw [a2, a1, List.append_assoc], by rw [b2, b1, List.append_assoc]⟩

theorem Uni.foldl {α : Type} (f : St → α → St) : ∀ (l : List α),
    (∀ x ∈ l, Uni (fun s => f s x)) → Uni (fun s => l.foldl f s)
  | [], _ => Uni.id
  | x :: t, hf => by
    simp only [List.foldl_cons]
    exact Uni.comp (hf x (List.mem_cons_self ..))
      (Uni.foldl f t (fun y hy => hf y (List.mem_cons_of_mem _ hy)))

theorem Uni.ite (b : Bool) {f g : St → St} (hf : Uni f) (hg : Uni g) :
    Uni (fun s => if b then f s else g s) := by
  cases b
  · exact hg
  · exact hf

theorem Uni_emitIf (g : List Nat) (k : Kind) (e r : Nat) : Uni (fun s => emitIf s g k e r) := by
  intro s s' h
  unfold emitIf
  split
  · exact ⟨h, rfl, [], by simp, by simp⟩
  · exact ⟨h, rfl, _, rfl, rfl⟩

theorem Uni_reduceFactor (c : NeoxS.Cfg) (g : List Nat) (n : Nat) : Uni (fun s => reduceFactor c s g n) := by
  intro s s' h
  obtain ⟨st, mi, ti, ke, co, ac⟩ := s
  obtain ⟨st', mi', ti', ke', co', ac'⟩ := s'
  obtain ⟨h1, h2, h3, h4⟩ := h
  simp only at h1 h2 h3 h4
  subst h1 h2 h3 h4
  exact ⟨⟨rfl, rfl, rfl, rfl⟩, rfl, _, rfl, rfl⟩

theorem Uni_flush : Uni NeoxS.flush := by
  intro s s' h
  obtain ⟨st, mi, ti, ke, co, ac⟩ := s
  obtain ⟨st', mi', ti', ke', co', ac'⟩ := s'
  obtain ⟨h1, h2, h3, h4⟩ := h
  simp only at h1 h2 h3 h4
  subst h1 h2 h3 h4
  exact ⟨⟨rfl, rfl, rfl, rfl⟩, rfl, _, rfl, rfl⟩

theorem Uni_reduceA (c : NeoxS.Cfg) (p : Nat) (l : Layer) : Uni (fun s => reduceA c p s l) := by
  unfold reduceA
  cases l.par
  · exact Uni_reduceFactor c _ _
  · exact Uni_reduceFactor c _ _

theorem Uni_reduceG (c : NeoxS.Cfg) (p : Nat) (l : Layer) : Uni (fun s => reduceG c p s l) := by
  unfold reduceG
  cases l.par
  · exact Uni_reduceFactor c _ _
  · exact Uni_reduceFactor c _ _

theorem Uni_gathers (c : NeoxS.Cfg) (p e : Nat) :
    Uni (fun s => (List.range c.t.dp).foldl (fun s d => emitIf s (modelGroup c p d) .allgather e 0) s) :=
  Uni.foldl _ _ (fun _ _ => Uni_emitIf _ _ _ _)

theorem Uni_fwdLayer (c : NeoxS.Cfg) (p : Nat) (fire : Bool) (l : Layer) :
    Uni (fun s => fwdLayer c p fire s l) := by
  unfold fwdLayer
  cases fire <;> cases l.par
  · exact Uni.id
  · exact Uni_gathers c p _
  · exact Uni_reduceA c p l
  · exact Uni.comp (Uni_gathers c p _) (Uni_reduceA c p l)

theorem Uni_bwdLayer (c : NeoxS.Cfg) (p : Nat) (fire : Bool) (l : Layer) :
    Uni (fun s => bwdLayer c p fire s l) := by
  unfold bwdLayer
  cases fire <;> cases l.par
  · exact Uni_gathers c p _
  · exact Uni.id
  · exact Uni.comp (Uni_gathers c p _) (Uni_reduceG c p l)
  · exact Uni_reduceG c p l

theorem Uni_trainPass (c : NeoxS.Cfg) : Uni (trainPass c) := by
  intro s s' h
  have body : ∀ fire : Bool, Uni (fun s => (List.range c.t.pp).foldl (fun s p =>
      ((c.stages.getD p []).reverse).foldl (bwdLayer c p fire)
        ((c.stages.getD p []).foldl (fwdLayer c p fire) s)) s) := fun fire =>
    Uni.foldl _ _ (fun p _ =>
      Uni.comp (Uni.foldl _ _ (fun l _ => Uni_fwdLayer c p fire l))
        (Uni.foldl _ _ (fun l _ => Uni_bwdLayer c p fire l)))
  unfold trainPass
  rw [← h.1, ← h.2.1]
  split
  · exact ⟨h, rfl, [], by simp, by simp⟩
  · obtain ⟨⟨h1, _, h3, h4⟩, k, e, a, b⟩ := body (c.hook && (s.mini + 1) % c.accum == 0) s s' h
    exact ⟨⟨h1, rfl, h3, h4⟩, k, e, a, b⟩

theorem Uni_precondLayer (c : NeoxS.Cfg) (p : Nat) (l : Layer) : Uni (fun s => precondLayer c p s l) := by
  have h1 : Uni (fun s => emitIf s (modelGroup c p (c.t.dataOf (invOf c p l))) .allgather
      (l.outF * l.inF / c.t.mp) 0) := Uni_emitIf _ _ _ _
  have h2 : Uni (fun s => if l.bias && l.par == .col then
      emitIf s (modelGroup c p (c.t.dataOf (invOf c p l))) .allgather (l.outF / c.t.mp) 0 else s) :=
    Uni.ite _ (Uni_emitIf _ _ _ _) Uni.id
  have h3 : Uni (fun s => emitIf s (modelGroup c p (c.t.dataOf (invOf c p l))) .reducescatter
      (l.outF * l.inF / c.t.mp) 0) := Uni_emitIf _ _ _ _
  have h4 : Uni (fun s => if l.bias then
      (match l.par with
       | .col => emitIf s (modelGroup c p (c.t.dataOf (invOf c p l))) .reducescatter (l.outF / c.t.mp) 0
       | .row => emitIf s (modelGroup c p (c.t.dataOf (invOf c p l))) .broadcast l.outF (invOf c p l))
      else s) := by
    refine Uni.ite _ ?_ Uni.id
    cases l.par
    · exact Uni_emitIf _ _ _ _
    · exact Uni_emitIf _ _ _ _
  have h5 : ∀ g : Nat, Uni (fun s => (List.range c.t.mp).foldl (fun s m =>
      emitIf s (dataGroup c p m) .broadcast g (c.t.rankOf p (c.t.dataOf (invOf c p l)) m)) s) :=
    fun g => Uni.foldl _ _ (fun _ _ => Uni_emitIf _ _ _ _)
  exact Uni.comp (Uni.comp (Uni.comp (Uni.comp h1 h2) h3) h4) (h5 _)

theorem Uni_stepOp (c : NeoxS.Cfg) : Uni (stepOp c) := by
  have tail : Uni (fun s => NeoxS.flush ((List.range c.t.pp).foldl
      (fun s p => (c.stages.getD p []).reverse.foldl (precondLayer c p) s) (NeoxS.flush (NeoxS.flush s)))) :=
    Uni.comp (Uni.comp (Uni.comp Uni_flush Uni_flush)
      (Uni.foldl _ _ (fun p _ => Uni.foldl _ _ (fun l _ => Uni_precondLayer c p l)))) Uni_flush
  have red : Uni (fun s => (List.range c.t.pp).foldl (fun s p =>
      (c.stages.getD p []).reverse.foldl (fun s l => reduceG c p (reduceA c p s l) l) s) s) :=
    Uni.foldl _ _ (fun p _ => Uni.foldl _ _ (fun l _ => Uni.comp (Uni_reduceA c p l) (Uni_reduceG c p l)))
  intro s s' h
  obtain ⟨⟨h1, _, h3, h4⟩, k, e, a, b⟩ :=
    Uni.comp (Uni.ite (!c.hook && s.steps % c.fus == 0) red Uni.id) tail s s' h
  unfold stepOp
  rw [← h.1]
  exact ⟨⟨congrArg (· + 1) h1, rfl, h3, h4⟩, k, e, a, b⟩

theorem Uni_apply (c : NeoxS.Cfg) (op : Op) (h : op.isCkpt = false) : Uni (fun s => apply c s op) := by
  cases op
  · exact Uni_trainPass c
  · exact Uni_stepOp c
  · cases h
  · cases h

theorem Uni_ops (c : NeoxS.Cfg) (ops : List Op) (h : ∀ op ∈ ops, op.isCkpt = false) :
    Uni (fun s => ops.foldl (apply c) s) :=
  Uni.foldl _ _ (fun op hop => Uni_apply c op (h op hop))

theorem load_restores_steps_l (c : NeoxS.Cfg) (s : St) (dir dir' fresh : Bool) (ops : List Op)
    (h : ∀ op ∈ ops, op.isCkpt = false) :
    (loadOp c dir' fresh (ops.foldl (apply c) (saveOp c dir s))).steps = s.steps := by
  have hs : (saveOp c dir s).kept = s.steps := by cases dir <;> rfl
  have hk : (ops.foldl (apply c) (saveOp c dir s)).kept = s.steps :=
    ((Uni_ops c ops h (saveOp c dir s) _ (Sim.refl _)).2.1).trans hs
  show (if dir' then ops.foldl (apply c) (saveOp c dir s)
    else emitWorld c (ops.foldl (apply c) (saveOp c dir s)) .barrier).kept = s.steps
  cases dir'
  · exact hk
  · exact hk

theorem resume_same_script_partial_l (c : NeoxS.Cfg) (s : St) (dir : Bool) (ops : List Op)
    (hb : s.comm = { cap := c.cap, buckets := [] }) (hm : s.mini = 0)
    (h : ∀ op ∈ ops, op.isCkpt = false) :
    ∃ ck, (loadOp c dir true (saveOp c dir s)).acts = s.acts ++ ck ∧
      (ops.foldl (apply c) (loadOp c dir true (saveOp c dir s))).acts =
        s.acts ++ ck ++ ((ops.foldl (apply c) s).acts.drop s.acts.length) := by
  have hsim : Sim s (loadOp c dir true (saveOp c dir s)) := by
    refine ⟨?_, hm, ?_, hb⟩ <;> cases dir <;> rfl
  have hck : ∃ ck, (loadOp c dir true (saveOp c dir s)).acts = s.acts ++ ck := by
    cases dir
    · exact ⟨_, by simp [saveOp, loadOp, emitWorld]; rfl⟩
    · exact ⟨_, by simp [saveOp, loadOp, emitWorld]; rfl⟩
  obtain ⟨ck, hck⟩ := hck
  obtain ⟨_, _, extra, a, b⟩ := Uni_ops c ops h s _ hsim
  refine ⟨ck, hck, ?_⟩
  rw [b, a, hck, List.drop_left]

end KV.C11S
