/-
Helper lemmas for C12 (GPT-NeoX 3-D topology assignment): coordinate arithmetic, axis group
lists, `place`/`invWorker`, balance, factor/gradient workers, process groups.
(Single Mathlib modules may be imported; never `import Mathlib`.)
`TopoOK` / `WorkOK` were moved here verbatim from Props/C12.lean.
-/
import KfacVerif.Model.Neox
import KfacVerif.Lemmas.Greedy
import Mathlib.Tactic.Linarith
import Mathlib.Tactic.Ring

namespace KV.C12
open KV KV.Neox

structure TopoOK (t : Topo) : Prop where
  pp : 0 < t.pp
  dp : 0 < t.dp
  mp : 0 < t.mp

/-- dict keys are unique -/
def WorkOK (work : Work) : Prop := (work.map (·.1)).Nodup

theorem coord_rank' (t : Topo) (h : TopoOK t) {p d m : Nat} (hp : p < t.pp) (hd : d < t.dp) (hm : m < t.mp) :
    t.rankOf p d m < t.world ∧ t.pipeOf (t.rankOf p d m) = p ∧ t.dataOf (t.rankOf p d m) = d ∧
      t.modelOf (t.rankOf p d m) = m := by
  obtain ⟨pp, dp, mp⟩ := t
  simp only [Topo.rankOf, Topo.world, Topo.pipeOf, Topo.dataOf, Topo.modelOf] at *
  have hmp : 0 < mp := h.mp
  have hdp : 0 < dp := h.dp
  have hD : 0 < dp * mp := Nat.mul_pos hdp hmp
  have hx : d * mp + m < dp * mp := by nlinarith
  refine ⟨?_, ?_, ?_, ?_⟩
  · have : (p + 1) * (dp * mp) ≤ pp * (dp * mp) := Nat.mul_le_mul_right _ hp
    nlinarith
  · have e : p * (dp * mp) + d * mp + m = (dp * mp) * p + (d * mp + m) := by ring
    rw [e, Nat.mul_add_div hD, Nat.div_eq_of_lt hx]; rfl
  · have e : p * (dp * mp) + d * mp + m = mp * (p * dp + d) + m := by ring
    rw [e, Nat.mul_add_div hmp, Nat.div_eq_of_lt hm, Nat.add_zero, Nat.add_comm, Nat.add_mul_mod_self_right,
      Nat.mod_eq_of_lt hd]
  · have e : p * (dp * mp) + d * mp + m = m + mp * (p * dp + d) := by ring
    rw [e, Nat.add_mul_mod_self_left, Nat.mod_eq_of_lt hm]

theorem rank_coord' (t : Topo) (h : TopoOK t) {r : Nat} (hr : r < t.world) :
    t.pipeOf r < t.pp ∧ t.dataOf r < t.dp ∧ t.modelOf r < t.mp ∧
      t.rankOf (t.pipeOf r) (t.dataOf r) (t.modelOf r) = r := by
  obtain ⟨pp, dp, mp⟩ := t
  simp only [Topo.rankOf, Topo.world, Topo.pipeOf, Topo.dataOf, Topo.modelOf] at *
  have hmp : 0 < mp := h.mp
  have hdp : 0 < dp := h.dp
  have hD : 0 < dp * mp := Nat.mul_pos hdp hmp
  refine ⟨?_, Nat.mod_lt _ hdp, Nat.mod_lt _ hmp, ?_⟩
  · rw [Nat.div_lt_iff_lt_mul hD, ← Nat.mul_assoc]; exact hr
  · have e1 : r / (dp * mp) = r / mp / dp := by rw [Nat.mul_comm dp mp, Nat.div_div_eq_div_mul]
    rw [e1]
    have h1 := Nat.div_add_mod r mp
    have h2 := Nat.div_add_mod (r / mp) dp
    generalize r / mp = q at *
    generalize q / dp = a at *
    generalize q % dp = b at *
    generalize r % mp = c at *
    subst h2
    rw [← h1]; ring

/-! ### generic list facts -/

theorem find?_unique {α} {l : List α} {p : α → Bool} {x : α} (hx : x ∈ l) (hp : p x = true)
    (hu : ∀ y ∈ l, p y = true → y = x) : l.find? p = some x := by
  cases hf : l.find? p with
  | none => exact absurd hp (by simpa using List.find?_eq_none.1 hf x hx)
  | some y => rw [hu y (List.mem_of_find?_eq_some hf) (List.find?_some hf)]

theorem groupWithRank_eq {groups : List (List Nat)} {g : List Nat} {loc : Nat}
    (hg : g ∈ groups) (hloc : loc ∈ g) (hu : ∀ g' ∈ groups, loc ∈ g' → g' = g) :
    groupWithRank loc groups = some g := by
  unfold groupWithRank
  exact find?_unique hg (by simpa using hloc) (fun g' hg' h' => hu g' hg' (by simpa using h'))

theorem sameSet_iff (a b : List Nat) : sameSet a b = true ↔ (∀ x, x ∈ a ↔ x ∈ b) := by
  unfold sameSet
  simp only [Bool.and_eq_true, List.all_eq_true, List.contains_iff_mem]
  constructor
  · rintro ⟨h1, h2⟩ x; exact ⟨h1 x, h2 x⟩
  · intro h; exact ⟨fun x => (h x).1, fun x => (h x).2⟩

/-! ### axis groups -/

theorem mem_dataGroups (t : Topo) (g : List Nat) :
    g ∈ t.dataGroups ↔ ∃ p, p < t.pp ∧ ∃ m, m < t.mp ∧ g = (List.range t.dp).map fun d => t.rankOf p d m := by
  simp [Topo.dataGroups, List.mem_flatMap, List.mem_map, List.mem_range, eq_comm]

theorem mem_modelGroups (t : Topo) (g : List Nat) :
    g ∈ t.modelGroups ↔ ∃ p, p < t.pp ∧ ∃ d, d < t.dp ∧ g = (List.range t.mp).map fun m => t.rankOf p d m := by
  simp [Topo.modelGroups, List.mem_flatMap, List.mem_map, List.mem_range, eq_comm]

theorem dataPeers_eq (c : Cfg) (h : TopoOK c.t) {loc : Nat} (hl : loc < c.t.world) :
    c.dataPeers loc = (List.range c.t.dp).map fun d => c.t.rankOf (c.t.pipeOf loc) d (c.t.modelOf loc) := by
  obtain ⟨h1, h2, h3, h4⟩ := rank_coord' c.t h hl
  unfold Cfg.dataPeers
  rw [groupWithRank_eq (g := (List.range c.t.dp).map fun d => c.t.rankOf (c.t.pipeOf loc) d (c.t.modelOf loc))]
  · rfl
  · exact (mem_dataGroups _ _).2 ⟨_, h1, _, h3, rfl⟩
  · exact List.mem_map.2 ⟨_, List.mem_range.2 h2, h4⟩
  · intro g' hg' hloc
    obtain ⟨p, hp, m, hm, rfl⟩ := (mem_dataGroups _ _).1 hg'
    obtain ⟨d, hd, e⟩ := List.mem_map.1 hloc
    obtain ⟨_, e1, _, e3⟩ := coord_rank' c.t h hp (List.mem_range.1 hd) hm
    rw [e] at e1 e3
    rw [e1, e3]

theorem modelPeers_eq (c : Cfg) (h : TopoOK c.t) {loc : Nat} (hl : loc < c.t.world) :
    c.modelPeers loc = (List.range c.t.mp).map fun m => c.t.rankOf (c.t.pipeOf loc) (c.t.dataOf loc) m := by
  obtain ⟨h1, h2, h3, h4⟩ := rank_coord' c.t h hl
  unfold Cfg.modelPeers
  rw [groupWithRank_eq (g := (List.range c.t.mp).map fun m => c.t.rankOf (c.t.pipeOf loc) (c.t.dataOf loc) m)]
  · rfl
  · exact (mem_modelGroups _ _).2 ⟨_, h1, _, h2, rfl⟩
  · exact List.mem_map.2 ⟨_, List.mem_range.2 h3, h4⟩
  · intro g' hg' hloc
    obtain ⟨p, hp, d, hd, rfl⟩ := (mem_modelGroups _ _).1 hg'
    obtain ⟨m, hm, e⟩ := List.mem_map.1 hloc
    obtain ⟨_, e1, e2, _⟩ := coord_rank' c.t h hp hd (List.mem_range.1 hm)
    rw [e] at e1 e2
    rw [e1, e2]

theorem dataPeers_spec' (c : Cfg) (h : TopoOK c.t) {loc : Nat} (hl : loc < c.t.world) (r : Nat) :
    r ∈ c.dataPeers loc ↔ r < c.t.world ∧ c.t.pipeOf r = c.t.pipeOf loc ∧ c.t.modelOf r = c.t.modelOf loc := by
  obtain ⟨h1, h2, h3, h4⟩ := rank_coord' c.t h hl
  rw [dataPeers_eq c h hl, List.mem_map]
  constructor
  · rintro ⟨d, hd, rfl⟩
    obtain ⟨e0, e1, _, e3⟩ := coord_rank' c.t h h1 (List.mem_range.1 hd) h3
    exact ⟨e0, e1, e3⟩
  · rintro ⟨hr, e1, e3⟩
    obtain ⟨_, r2, _, r4⟩ := rank_coord' c.t h hr
    refine ⟨c.t.dataOf r, List.mem_range.2 r2, ?_⟩
    rw [← e1, ← e3]; exact r4

theorem modelPeers_spec' (c : Cfg) (h : TopoOK c.t) {loc : Nat} (hl : loc < c.t.world) (r : Nat) :
    r ∈ c.modelPeers loc ↔ r < c.t.world ∧ c.t.pipeOf r = c.t.pipeOf loc ∧ c.t.dataOf r = c.t.dataOf loc := by
  obtain ⟨h1, h2, h3, h4⟩ := rank_coord' c.t h hl
  rw [modelPeers_eq c h hl, List.mem_map]
  constructor
  · rintro ⟨m, hm, rfl⟩
    obtain ⟨e0, e1, e2, _⟩ := coord_rank' c.t h h1 h2 (List.mem_range.1 hm)
    exact ⟨e0, e1, e2⟩
  · rintro ⟨hr, e1, e2⟩
    obtain ⟨_, _, r3, r4⟩ := rank_coord' c.t h hr
    refine ⟨c.t.modelOf r, List.mem_range.2 r3, ?_⟩
    rw [← e1, ← e2]; exact r4

theorem stagePeers_spec' (t : Topo) (p r : Nat) :
    r ∈ t.stagePeers p ↔ r < t.world ∧ t.pipeOf r = p := by
  simp [Topo.stagePeers, List.mem_filter, List.mem_range]

/-! ### sortedWork -/

theorem layerLe_iff (a b : String × Nat) :
    layerLe a b = true ↔ b.2 < a.2 ∨ (a.2 = b.2 ∧ b.1 ≤ a.1) := by
  simp [layerLe]

theorem layerLe_total (a b : String × Nat) (h : layerLe a b = false) : layerLe b a = true := by
  have h' : ¬ (b.2 < a.2 ∨ (a.2 = b.2 ∧ b.1 ≤ a.1)) := by
    rw [← layerLe_iff, h]; simp
  rw [layerLe_iff]
  rcases Nat.lt_trichotomy a.2 b.2 with h1 | h1 | h1
  · exact .inl h1
  · right
    refine ⟨h1.symm, ?_⟩
    rcases String.le_total a.1 b.1 with h2 | h2
    · exact h2
    · exact absurd (.inr ⟨h1, h2⟩) h'
  · exact absurd (.inl h1) h'

theorem layerLe_trans (a b c : String × Nat) (h1 : layerLe a b = true) (h2 : layerLe b c = true) :
    layerLe a c = true := by
  rw [layerLe_iff] at *
  rcases h1 with h1 | ⟨h1, h1'⟩ <;> rcases h2 with h2 | ⟨h2, h2'⟩
  · left; omega
  · left; omega
  · left; omega
  · right; exact ⟨by omega, String.le_trans h2' h1'⟩

theorem sortedWork_sorted' (work : Work) :
    (sortedWork work).Pairwise (fun a b => layerLe a b = true) ∧
    (sortedWork work).Perm (work.map fun l => (l.1, sumCosts l.2)) :=
  ⟨KV.Kaisa.sortBy_sorted layerLe layerLe_total layerLe_trans _, KV.Kaisa.sortBy_perm layerLe _⟩

/-! ### place -/

theorem place_cons (loads : List Nat) (l : String) (c : Nat) (t : List (String × Nat)) :
    place loads ((l, c) :: t) =
      ((place (loads.set (argminIdx loads) (loads.getD (argminIdx loads) 0 + c)) t).1,
        (l, argminIdx loads) :: (place (loads.set (argminIdx loads) (loads.getD (argminIdx loads) 0 + c)) t).2) := rfl

theorem place_first_min' (loads : List Nat) (hne : loads ≠ []) (l : String) (cst : Nat) (t : List (String × Nat)) :
    ((place loads ((l, cst) :: t)).2.head? = some (l, argminIdx loads)) ∧
    argminIdx loads < loads.length ∧
    (∀ j, j < loads.length → loads.getD (argminIdx loads) 0 ≤ loads.getD j 0) ∧
    (∀ j, j < argminIdx loads → loads.getD (argminIdx loads) 0 < loads.getD j 0) := by
  rw [place_cons]
  exact ⟨rfl, KV.Kaisa.argminIdx_spec loads hne⟩

theorem place_names : ∀ (items : List (String × Nat)) (loads : List Nat),
    (place loads items).2.map (·.1) = items.map (·.1)
  | [], _ => rfl
  | (l, c) :: t, loads => by
    rw [place_cons, List.map_cons, List.map_cons, place_names t]

theorem place_idx_lt : ∀ (items : List (String × Nat)) (loads : List Nat), loads ≠ [] →
    ∀ x ∈ (place loads items).2, x.2 < loads.length
  | [], _, _, x, hx => by simp [place] at hx
  | (l, c) :: t, loads, hne, x, hx => by
    rw [place_cons] at hx
    rcases List.mem_cons.1 hx with rfl | hx
    · exact (KV.Kaisa.argminIdx_spec loads hne).1
    · have := place_idx_lt t (loads.set (argminIdx loads) (loads.getD (argminIdx loads) 0 + c))
        (by simpa using hne) x hx
      simpa using this

theorem assocGet?_of_mem_keys {β} (k : String) : ∀ (pl : List (String × β)), k ∈ pl.map (·.1) →
    ∃ v, assocGet? k pl = some v ∧ (k, v) ∈ pl
  | [], h => by simp at h
  | (k', v') :: t, h => by
    unfold assocGet?
    by_cases e : k' = k
    · subst e; exact ⟨v', by simp⟩
    · have hk : k ∈ t.map (·.1) := by
        rcases List.mem_cons.1 h with h | h
        · exact absurd h.symm e
        · exact h
      obtain ⟨v, h1, h2⟩ := assocGet?_of_mem_keys k t hk
      exact ⟨v, by simp [e, h1], List.mem_cons_of_mem _ h2⟩

theorem stagePeers_ne_nil (t : Topo) (h : TopoOK t) {p : Nat} (hp : p < t.pp) : t.stagePeers p ≠ [] := by
  obtain ⟨h0, h1, _, _⟩ := coord_rank' t h hp h.dp h.mp
  exact List.ne_nil_of_mem ((stagePeers_spec' t p _).2 ⟨h0, h1⟩)

theorem inv_worker_in_stage' (c : Cfg) (h : TopoOK c.t) {p : Nat} (hp : p < c.t.pp)
    {l : String × List (String × Nat)} (hl : l ∈ c.work) :
    ∃ inv, c.invWorker p l.1 = some inv ∧ inv ∈ c.t.stagePeers p := by
  have hne := stagePeers_ne_nil c.t h hp
  have hne' : List.replicate (c.t.stagePeers p).length 0 ≠ [] := by
    simpa using hne
  have hk : l.1 ∈ (place (List.replicate (c.t.stagePeers p).length 0) (sortedWork c.work)).2.map (·.1) := by
    rw [place_names]
    have : (l.1, sumCosts l.2) ∈ sortedWork c.work :=
      (sortedWork_sorted' c.work).2.mem_iff.2 (List.mem_map.2 ⟨l, hl, rfl⟩)
    exact List.mem_map.2 ⟨_, this, rfl⟩
  obtain ⟨i, h1, h2⟩ := assocGet?_of_mem_keys _ _ hk
  have hi := place_idx_lt _ _ hne' _ h2
  rw [List.length_replicate] at hi
  refine ⟨(c.t.stagePeers p).getD i 0, ?_, KV.Kaisa.getD_mem_of_lt _ _ _ hi⟩
  unfold Cfg.invWorker
  simp only [h1, Option.map_some]

/-! ### balance -/

def Bal (loads : List Nat) (M : Nat) : Prop :=
  ∀ i j, i < loads.length → j < loads.length → loads.getD i 0 ≤ loads.getD j 0 + M

theorem place_bal : ∀ (items : List (String × Nat)) (loads : List Nat) (M : Nat), loads ≠ [] →
    (∀ x ∈ items, x.2 ≤ M) → Bal loads M →
    (place loads items).1.length = loads.length ∧ Bal (place loads items).1 M
  | [], _, _, _, _, hb => ⟨rfl, hb⟩
  | (l, c) :: t, loads, M, hne, hM, hb => by
    rw [place_cons]
    obtain ⟨a1, a2, _⟩ := KV.Kaisa.argminIdx_spec loads hne
    have hc : c ≤ M := hM (l, c) (List.mem_cons_self ..)
    have key : Bal (KV.Kaisa.addLoad loads (argminIdx loads) c) M := by
      intro i j hi hj
      rw [KV.Kaisa.length_addLoad] at hi hj
      rw [KV.Kaisa.getD_addLoad _ _ _ _ a1, KV.Kaisa.getD_addLoad _ _ _ _ a1]
      have b1 := hb i j hi hj
      have b2 := a2 j hj
      have b3 := hb i (argminIdx loads) hi a1
      split <;> split <;> omega
    have ih := place_bal t (KV.Kaisa.addLoad loads (argminIdx loads) c) M
      (by unfold KV.Kaisa.addLoad; simpa using hne)
      (fun x hx => hM x (List.mem_cons_of_mem _ hx)) key
    rw [KV.Kaisa.length_addLoad] at ih
    exact ih

theorem stage_balance' (n : Nat) (hn : 0 < n) (items : List (String × Nat)) :
    ∀ i j, i < n → j < n →
      (place (List.replicate n 0) items).1.getD i 0
        ≤ (place (List.replicate n 0) items).1.getD j 0 + (items.map (·.2)).foldl max 0 := by
  have hne : List.replicate n 0 ≠ [] := by
    intro e; have := congrArg List.length e; simp at this; omega
  obtain ⟨h1, h2⟩ := place_bal items (List.replicate n 0) ((items.map (·.2)).foldl max 0) hne
    (fun x hx => KV.Kaisa.le_foldl_max_map (·.2) hx)
    (by intro i j _ _; rw [KV.Kaisa.getD_replicate_zero, KV.Kaisa.getD_replicate_zero]; omega)
  intro i j hi hj
  rw [List.length_replicate] at h1
  exact h2 i j (by omega) (by omega)

/-! ### factor / gradient workers -/

theorem factor_worker_spec' (c : Cfg) (h : TopoOK c.t) {loc : Nat} (hl : loc < c.t.world)
    {l : String × List (String × Nat)} (hlw : l ∈ c.work) :
    ∃ inv fw, c.invWorker (c.t.pipeOf loc) l.1 = some inv ∧ c.factorWorker loc l.1 = some fw ∧
      fw ∈ c.modelPeers loc ∧ fw ∈ c.dataPeers inv ∧
      ∀ x, x ∈ c.modelPeers loc → x ∈ c.dataPeers inv → x = fw := by
  obtain ⟨l1, l2, l3, l4⟩ := rank_coord' c.t h hl
  obtain ⟨inv, hinv, hst⟩ := inv_worker_in_stage' c h l1 hlw
  obtain ⟨hi, hip⟩ := (stagePeers_spec' _ _ _).1 hst
  obtain ⟨i1, i2, i3, i4⟩ := rank_coord' c.t h hi
  obtain ⟨f0, f1, f2, f3⟩ := coord_rank' c.t h l1 l2 i3
  have hfm : c.t.rankOf (c.t.pipeOf loc) (c.t.dataOf loc) (c.t.modelOf inv) ∈ c.modelPeers loc :=
    (modelPeers_spec' c h hl _).2 ⟨f0, f1, f2⟩
  have hfd : c.t.rankOf (c.t.pipeOf loc) (c.t.dataOf loc) (c.t.modelOf inv) ∈ c.dataPeers inv :=
    (dataPeers_spec' c h hi _).2 ⟨f0, f1.trans hip.symm, f3⟩
  have hu : ∀ x, x ∈ c.modelPeers loc → x ∈ c.dataPeers inv →
      x = c.t.rankOf (c.t.pipeOf loc) (c.t.dataOf loc) (c.t.modelOf inv) := by
    intro x hx1 hx2
    obtain ⟨x0, x1, x2⟩ := (modelPeers_spec' c h hl x).1 hx1
    obtain ⟨_, _, x3⟩ := (dataPeers_spec' c h hi x).1 hx2
    rw [← (rank_coord' c.t h x0).2.2.2, x1, x2, x3]
  refine ⟨inv, _, hinv, ?_, hfm, hfd, hu⟩
  unfold Cfg.factorWorker
  simp only [hinv]
  exact find?_unique hfm (by simpa [Cfg.dataPeers] using hfd)
    (fun y hy hp => hu y hy (by simpa [Cfg.dataPeers] using hp))

theorem isGradWorker_iff (c : Cfg) (h : TopoOK c.t) {loc inv : Nat} (hl : loc < c.t.world)
    {layer : String} (hinv : c.invWorker (c.t.pipeOf loc) layer = some inv) (hi : inv < c.t.world) :
    c.isGradWorker loc layer = true ↔ loc ∈ c.modelPeers inv := by
  unfold Cfg.isGradWorker
  simp only [hinv, List.contains_iff_mem]
  rw [modelPeers_spec' c h hl, modelPeers_spec' c h hi]
  constructor
  · rintro ⟨_, a, b⟩; exact ⟨hl, a.symm, b.symm⟩
  · rintro ⟨_, a, b⟩; exact ⟨hi, a.symm, b.symm⟩

theorem src_spec' (c : Cfg) (h : TopoOK c.t) {loc : Nat} (hl : loc < c.t.world)
    {l : String × List (String × Nat)} (hlw : l ∈ c.work) :
    ∃ inv s, c.invWorker (c.t.pipeOf loc) l.1 = some inv ∧ c.srcGradWorker loc l.1 = some s ∧
      s ∈ c.dataPeers loc ∧ c.t.modelOf s = c.t.modelOf loc ∧ s ∈ c.modelPeers inv ∧
      c.isGradWorker s l.1 = true ∧
      ∀ x, x ∈ c.dataPeers loc → x ∈ c.modelPeers inv → x = s := by
  obtain ⟨l1, l2, l3, l4⟩ := rank_coord' c.t h hl
  obtain ⟨inv, hinv, hst⟩ := inv_worker_in_stage' c h l1 hlw
  obtain ⟨hi, hip⟩ := (stagePeers_spec' _ _ _).1 hst
  obtain ⟨i1, i2, i3, i4⟩ := rank_coord' c.t h hi
  obtain ⟨f0, f1, f2, f3⟩ := coord_rank' c.t h l1 i2 l3
  have hsd : c.t.rankOf (c.t.pipeOf loc) (c.t.dataOf inv) (c.t.modelOf loc) ∈ c.dataPeers loc :=
    (dataPeers_spec' c h hl _).2 ⟨f0, f1, f3⟩
  have hsm : c.t.rankOf (c.t.pipeOf loc) (c.t.dataOf inv) (c.t.modelOf loc) ∈ c.modelPeers inv :=
    (modelPeers_spec' c h hi _).2 ⟨f0, f1.trans hip.symm, f2⟩
  have hu : ∀ x, x ∈ c.dataPeers loc → x ∈ c.modelPeers inv →
      x = c.t.rankOf (c.t.pipeOf loc) (c.t.dataOf inv) (c.t.modelOf loc) := by
    intro x hx1 hx2
    obtain ⟨x0, x1, x3⟩ := (dataPeers_spec' c h hl x).1 hx1
    obtain ⟨_, _, x2⟩ := (modelPeers_spec' c h hi x).1 hx2
    rw [← (rank_coord' c.t h x0).2.2.2, x1, x2, x3]
  refine ⟨inv, _, hinv, ?_, hsd, f3, hsm, ?_, hu⟩
  · unfold Cfg.srcGradWorker
    simp only [hinv]
    exact find?_unique hsd (by simpa [Cfg.modelPeers] using hsm)
      (fun y hy hp => hu y hy (by simpa [Cfg.modelPeers] using hp))
  · exact (isGradWorker_iff c h f0 (by rw [f1]; exact hinv) hi).2 hsm

theorem grad_workers_are_mp_peers' (c : Cfg) (h : TopoOK c.t) {loc : Nat}
    (hl : loc < c.t.world) {l : String × List (String × Nat)} (hlw : l ∈ c.work) :
    ∃ inv, c.invWorker (c.t.pipeOf loc) l.1 = some inv ∧
      (c.isGradWorker loc l.1 = true ↔ loc ∈ c.modelPeers inv) := by
  obtain ⟨inv, hinv, hst⟩ := inv_worker_in_stage' c h (rank_coord' c.t h hl).1 hlw
  exact ⟨inv, hinv, isGradWorker_iff c h hl hinv ((stagePeers_spec' _ _ _).1 hst).1⟩

/-! ### process groups -/

theorem peerGroup_model_iff (c : Cfg) (loc : Nat) :
    c.peerGroup loc = .modelGroup ↔ sameSet (c.t.stagePeers (c.t.pipeOf loc)) (c.modelPeers loc) = true := by
  unfold Cfg.peerGroup
  simp only
  split
  · simp [*]
  · split <;> simp [*]

theorem peerGroup_data_iff (c : Cfg) (loc : Nat) :
    c.peerGroup loc = .dataGroup ↔
      sameSet (c.t.stagePeers (c.t.pipeOf loc)) (c.modelPeers loc) = false ∧
      sameSet (c.t.stagePeers (c.t.pipeOf loc)) (c.dataPeers loc) = true := by
  unfold Cfg.peerGroup
  simp only
  split
  · simp [*]
  · split <;> simp [*]

theorem peerGroup_created (c : Cfg) (loc : Nat) (m : List Nat) (hm : c.peerGroup loc = .created m) :
    m = c.t.stagePeers (c.t.pipeOf loc) := by
  unfold Cfg.peerGroup at hm
  simp only at hm
  split at hm
  · cases hm
  · split at hm
    · cases hm
    · injection hm with hm; exact hm.symm

theorem peer_group_reuse_correct' (c : Cfg) (loc : Nat) :
    (c.peerGroup loc = .modelGroup → ∀ r, r ∈ c.modelPeers loc ↔ r ∈ c.t.stagePeers (c.t.pipeOf loc)) ∧
    (c.peerGroup loc = .dataGroup → ∀ r, r ∈ c.dataPeers loc ↔ r ∈ c.t.stagePeers (c.t.pipeOf loc)) ∧
    (∀ m, c.peerGroup loc = .created m → m = c.t.stagePeers (c.t.pipeOf loc)) := by
  refine ⟨?_, ?_, peerGroup_created c loc⟩
  · intro hm r
    exact ((sameSet_iff _ _).1 ((peerGroup_model_iff c loc).1 hm) r).symm
  · intro hm r
    exact ((sameSet_iff _ _).1 ((peerGroup_data_iff c loc).1 hm).2 r).symm

theorem sameSet_model_iff (c : Cfg) (h : TopoOK c.t) {loc : Nat} (hl : loc < c.t.world) :
    sameSet (c.t.stagePeers (c.t.pipeOf loc)) (c.modelPeers loc) = true ↔ c.t.dp = 1 := by
  obtain ⟨l1, l2, l3, l4⟩ := rank_coord' c.t h hl
  rw [sameSet_iff]
  constructor
  · intro hs
    by_contra hne
    have hdp := h.dp
    -- a data coordinate different from that of `loc`
    obtain ⟨d', hd', hdne⟩ : ∃ d', d' < c.t.dp ∧ d' ≠ c.t.dataOf loc := by
      by_cases e : c.t.dataOf loc = 0
      · exact ⟨1, by omega, by omega⟩
      · exact ⟨0, hdp, fun e' => e e'.symm⟩
    obtain ⟨f0, f1, f2, _⟩ := coord_rank' c.t h l1 hd' l3
    have := (hs _).1 ((stagePeers_spec' _ _ _).2 ⟨f0, f1⟩)
    rw [modelPeers_spec' c h hl] at this
    exact hdne (f2.symm.trans this.2.2)
  · intro hdp x
    rw [stagePeers_spec', modelPeers_spec' c h hl]
    constructor
    · rintro ⟨x0, x1⟩
      have := (rank_coord' c.t h x0).2.1
      exact ⟨x0, x1, by omega⟩
    · rintro ⟨x0, x1, _⟩; exact ⟨x0, x1⟩

theorem sameSet_data_iff (c : Cfg) (h : TopoOK c.t) {loc : Nat} (hl : loc < c.t.world) :
    sameSet (c.t.stagePeers (c.t.pipeOf loc)) (c.dataPeers loc) = true ↔ c.t.mp = 1 := by
  obtain ⟨l1, l2, l3, l4⟩ := rank_coord' c.t h hl
  rw [sameSet_iff]
  constructor
  · intro hs
    by_contra hne
    have hmp := h.mp
    obtain ⟨m', hm', hmne⟩ : ∃ m', m' < c.t.mp ∧ m' ≠ c.t.modelOf loc := by
      by_cases e : c.t.modelOf loc = 0
      · exact ⟨1, by omega, by omega⟩
      · exact ⟨0, hmp, fun e' => e e'.symm⟩
    obtain ⟨f0, f1, _, f3⟩ := coord_rank' c.t h l1 l2 hm'
    have := (hs _).1 ((stagePeers_spec' _ _ _).2 ⟨f0, f1⟩)
    rw [dataPeers_spec' c h hl] at this
    exact hmne (f3.symm.trans this.2.2)
  · intro hmp x
    rw [stagePeers_spec', dataPeers_spec' c h hl]
    constructor
    · rintro ⟨x0, x1⟩
      have := (rank_coord' c.t h x0).2.2.1
      exact ⟨x0, x1, by omega⟩
    · rintro ⟨x0, x1, _⟩; exact ⟨x0, x1⟩

theorem peer_group_branch' (c : Cfg) (h : TopoOK c.t) {loc : Nat} (hl : loc < c.t.world) :
    (c.peerGroup loc = .modelGroup ↔ c.t.dp = 1) ∧
    (c.peerGroup loc = .dataGroup ↔ c.t.dp ≠ 1 ∧ c.t.mp = 1) := by
  refine ⟨(peerGroup_model_iff c loc).trans (sameSet_model_iff c h hl), ?_⟩
  rw [peerGroup_data_iff, sameSet_data_iff c h hl, Ne, ← sameSet_model_iff c h hl]
  simp

theorem newGroupCalls_eq (c : Cfg) (h : TopoOK c.t) {loc : Nat} (hl : loc < c.t.world) :
    c.newGroupCalls loc =
      if c.t.dp = 1 ∨ c.t.mp = 1 then [] else (List.range c.t.pp).map c.t.stagePeers := by
  obtain ⟨b1, b2⟩ := peer_group_branch' c h hl
  unfold Cfg.newGroupCalls
  cases hpg : c.peerGroup loc with
  | modelGroup => simp [b1.1 hpg]
  | dataGroup => simp [(b2.1 hpg).2]
  | created m =>
    have n1 : ¬ c.t.dp = 1 := fun e => by rw [b1.2 e] at hpg; cases hpg
    have n2 : ¬ c.t.mp = 1 := fun e => by rw [b2.2 ⟨n1, e⟩] at hpg; cases hpg
    simp [n1, n2]

theorem new_group_same_order' (c : Cfg) (h : TopoOK c.t) {r r' : Nat} (hr : r < c.t.world) (hr' : r' < c.t.world) :
    c.newGroupCalls r = c.newGroupCalls r' := by
  rw [newGroupCalls_eq c h hr, newGroupCalls_eq c h hr']

theorem own_stage_created' (c : Cfg) (h : TopoOK c.t) {loc : Nat} (hl : loc < c.t.world) (m : List Nat)
    (hm : c.peerGroup loc = .created m) : m ∈ c.newGroupCalls loc := by
  have e := peerGroup_created c loc m hm
  unfold Cfg.newGroupCalls
  rw [hm]
  simp only
  rw [e]
  exact List.mem_map.2 ⟨_, List.mem_range.2 (rank_coord' c.t h hl).1, rfl⟩

end KV.C12
