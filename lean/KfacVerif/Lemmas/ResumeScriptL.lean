/-
Helper lemmas for `resume_same_script` (Staging/ResumeScript.lean): resuming from a checkpoint into a freshly
constructed preconditioner is transparent for the communication script, for bucketed runs too.

The running communicator at a step boundary is `[(k1, none), (k2, none), …]` (keys in first-use order), the fresh
one is `[]`.  Both behave alike until the next factor-update iteration (`flush` emits nothing); during that
iteration they agree on the content of every bucket (`Weq`); after it both key lists are the canonical one
(`canon c`: first-use order of one iteration, which depends on the configuration only), hence the two
communicators are EQUAL and the old `Sim`/`Uni` machinery takes over.
-/
import KfacVerif.Lemmas.NeoxScriptL

namespace KV.C11S
open KV KV.Neox KV.NeoxS

abbrev Bks := List (Comm.Key × Option Comm.Bucket)

/-! ### key lists: `ins` = what `setB` does to the list of keys -/

def ins (K : List Comm.Key) (g : Comm.Key) : List Comm.Key := if g ∈ K then K else K ++ [g]

theorem keys_setB (g : Comm.Key) (v : Option Comm.Bucket) (bs : Bks) :
    (Comm.setB g v bs).map (·.1) = ins (bs.map (·.1)) g := by
  induction bs with
  | nil => simp [Comm.setB, ins]
  | cons kb t ih =>
    obtain ⟨k', b⟩ := kb
    by_cases h : k' = g
    · subst h; simp [Comm.setB, ins]
    · have h' : ¬ g = k' := fun e => h e.symm
      simp only [Comm.setB, beq_iff_eq, h, if_false, List.map_cons, ih]
      unfold ins
      simp only [List.mem_cons, h', false_or]
      split <;> simp

theorem ins_nodup {K : List Comm.Key} (g : Comm.Key) (h : K.Nodup) : (ins K g).Nodup := by
  unfold ins
  split
  · exact h
  · rename_i hg
    rw [List.nodup_append]
    refine ⟨h, by simp, ?_⟩
    intro a ha b hb
    rw [List.mem_singleton.1 hb]
    rintro rfl
    exact hg ha

theorem mem_ins {K : List Comm.Key} {g x : Comm.Key} : x ∈ ins K g ↔ x ∈ K ∨ x = g := by
  unfold ins
  split
  · rename_i hg
    constructor
    · exact fun h => .inl h
    · rintro (h | rfl)
      · exact h
      · exact hg
  · simp

theorem foldl_ins_nodup : ∀ (ρ K : List Comm.Key), K.Nodup → (ρ.foldl ins K).Nodup
  | [], _, h => h
  | g :: t, K, h => by
    rw [List.foldl_cons]
    exact foldl_ins_nodup t _ (ins_nodup g h)

theorem mem_foldl_ins : ∀ (ρ K : List Comm.Key) (x : Comm.Key), x ∈ ρ.foldl ins K ↔ x ∈ K ∨ x ∈ ρ
  | [], K, x => by simp
  | g :: t, K, x => by
    rw [List.foldl_cons, mem_foldl_ins t, mem_ins, List.mem_cons]
    tauto

theorem foldl_ins_of_subset : ∀ (ρ K : List Comm.Key), (∀ x ∈ ρ, x ∈ K) → ρ.foldl ins K = K
  | [], _, _ => rfl
  | g :: t, K, h => by
    have hg : g ∈ K := h g (List.mem_cons_self ..)
    rw [List.foldl_cons, show ins K g = K from if_pos hg]
    exact foldl_ins_of_subset t K (fun x hx => h x (List.mem_cons_of_mem _ hx))

theorem foldl_ins_idem (ρ : List Comm.Key) : ρ.foldl ins (ρ.foldl ins []) = ρ.foldl ins [] :=
  foldl_ins_of_subset ρ _ (fun x hx => (mem_foldl_ins ρ [] x).2 (.inr hx))

/-! ### the effective content of a key: `(k, none)` is as good as an absent key -/

def eff (k : Comm.Key) (bs : Bks) : Option Comm.Bucket := (Comm.lookupB k bs).join

theorem eff_setB_self (k : Comm.Key) (v : Option Comm.Bucket) (bs : Bks) : eff k (Comm.setB k v bs) = v := by
  simp [eff, KV.C08.lookupB_setB_self]

theorem eff_setB_ne (k k' : Comm.Key) (v : Option Comm.Bucket) (bs : Bks) (h : k' ≠ k) :
    eff k (Comm.setB k' v bs) = eff k bs := by
  simp [eff, KV.C08.lookupB_setB_ne _ _ _ _ h]

theorem curB_eff (g : Comm.Key) (bs : Bks) : KV.C08.curB g bs = (eff g bs).getD { items := [] } := by
  unfold KV.C08.curB eff
  cases h : Comm.lookupB g bs with
  | none => rfl
  | some o => cases o <;> rfl

theorem lookupB_notMem (k : Comm.Key) : ∀ (bs : Bks), k ∉ bs.map (·.1) → Comm.lookupB k bs = none
  | [], _ => rfl
  | (k', b) :: t, h => by
    have h1 : ¬ k' = k := fun e => h (by simp [e])
    have h2 : k ∉ t.map (·.1) := fun e => h (by simp only [List.map_cons, List.mem_cons]; exact .inr e)
    simp [Comm.lookupB, h1, lookupB_notMem k t h2]

theorem eff_allnone (k : Comm.Key) : ∀ (bs : Bks), (∀ e ∈ bs, e.2 = none) → eff k bs = none
  | [], _ => rfl
  | (k', b) :: t, h => by
    have hb : b = none := h (k', b) (List.mem_cons_self ..)
    have ih := eff_allnone k t (fun e he => h e (List.mem_cons_of_mem _ he))
    subst hb
    unfold eff at ih ⊢
    by_cases h1 : k' = k
    · simp [Comm.lookupB, h1]
    · simpa [Comm.lookupB, h1] using ih

/-- same keys in the same order (no repetition) and the same effective contents: the same dict -/
theorem bks_ext : ∀ (bs bs' : Bks), bs.map (·.1) = bs'.map (·.1) → (bs.map (·.1)).Nodup →
    (∀ k, eff k bs = eff k bs') → bs = bs'
  | [], [], _, _, _ => rfl
  | [], _ :: _, h, _, _ => by simp at h
  | _ :: _, [], h, _, _ => by simp at h
  | (k, b) :: t, (k', b') :: t', h, hnd, he => by
    simp only [List.map_cons, List.cons.injEq] at h
    obtain ⟨hk, ht⟩ := h
    subst hk
    rw [List.map_cons, List.nodup_cons] at hnd
    have hb : b = b' := by simpa [eff, Comm.lookupB] using he k
    subst hb
    have hnd' : k ∉ t'.map (·.1) := ht ▸ hnd.1
    have : t = t' := by
      refine bks_ext t t' ht hnd.2 ?_
      intro x
      by_cases hx : k = x
      · subst hx
        simp [eff, lookupB_notMem _ _ hnd.1, lookupB_notMem _ _ hnd']
      · simpa [eff, Comm.lookupB, hx] using he x
    rw [this]

theorem map_none_allnone : ∀ (bs : Bks), (∀ e ∈ bs, e.2 = none) →
    bs.map (fun (k, _) => (k, (none : Option Comm.Bucket))) = bs
  | [], _ => rfl
  | (k, b) :: t, h => by
    have hb : b = none := h (k, b) (List.mem_cons_self ..)
    subst hb
    rw [List.map_cons, map_none_allnone t (fun e he => h e (List.mem_cons_of_mem _ he))]

theorem flatMap_allnone : ∀ (bs : Bks), (∀ e ∈ bs, e.2 = none) →
    bs.flatMap (fun (k, b) => match b with | some b => Comm.emit k b | none => []) = []
  | [], _ => rfl
  | (k, b) :: t, h => by
    have hb : b = none := h (k, b) (List.mem_cons_self ..)
    subst hb
    rw [List.flatMap_cons, flatMap_allnone t (fun e he => h e (List.mem_cons_of_mem _ he))]
    rfl

theorem flush_allnone (s : Comm.CState) (h : ∀ e ∈ s.buckets, e.2 = none) : Comm.flush s = (s, []) := by
  obtain ⟨cap, bs⟩ := s
  exact Prod.ext (congrArg (Comm.CState.mk cap) (map_none_allnone bs h)) (flatMap_allnone bs h)

/-! ### communicators that agree on every effective content -/

def Weq (a b : Comm.CState) : Prop := a.cap = b.cap ∧ ∀ k, eff k a.buckets = eff k b.buckets

theorem stepB_Weq (a b : Comm.CState) (g : Comm.Key) (it : Comm.Item) (h : Weq a b) :
    Weq (KV.C08.stepB a g it).1 (KV.C08.stepB b g it).1 ∧ (KV.C08.stepB a g it).2 = (KV.C08.stepB b g it).2 := by
  obtain ⟨hc, he⟩ := h
  have hcur : KV.C08.curB g a.buckets = KV.C08.curB g b.buckets := by rw [curB_eff, curB_eff, he g]
  unfold KV.C08.stepB
  rw [hcur, hc]
  split
  · refine ⟨⟨rfl, ?_⟩, rfl⟩
    intro k
    show eff k (Comm.setB g _ a.buckets) = eff k (Comm.setB g _ b.buckets)
    by_cases hk : g = k
    · subst hk; rw [eff_setB_self, eff_setB_self]
    · rw [eff_setB_ne _ _ _ _ hk, eff_setB_ne _ _ _ _ hk, he k]
  · refine ⟨⟨rfl, ?_⟩, rfl⟩
    intro k
    show eff k (Comm.setB g _ a.buckets) = eff k (Comm.setB g _ b.buckets)
    by_cases hk : g = k
    · subst hk; rw [eff_setB_self, eff_setB_self]
    · rw [eff_setB_ne _ _ _ _ hk, eff_setB_ne _ _ _ _ hk, he k]

theorem arB_Weq (a b : Comm.CState) (g : Comm.Key) (tid : Nat) (shape : List Nat) (es dt : Nat) (sym : Bool)
    (h : Weq a b) :
    Weq (Comm.allreduceBucketed a g tid shape es dt sym).1 (Comm.allreduceBucketed b g tid shape es dt sym).1 ∧
    (Comm.allreduceBucketed a g tid shape es dt sym).2.1 = (Comm.allreduceBucketed b g tid shape es dt sym).2.1 := by
  by_cases hacc : g.length ≠ 1 ∧ KV.C08.shapeOk shape sym = true
  · rw [KV.C08.arB_accept a g tid shape es dt sym hacc.1 hacc.2,
      KV.C08.arB_accept b g tid shape es dt sym hacc.1 hacc.2]
    exact stepB_Weq a b g _ h
  · obtain ⟨a1, a2⟩ := KV.C08.arB_reject a g tid shape es dt sym hacc
    obtain ⟨b1, b2⟩ := KV.C08.arB_reject b g tid shape es dt sym hacc
    rw [a1, a2, b1, b2]
    exact ⟨h, rfl⟩

/-- the keys a bucketed request adds: a function of the request alone -/
theorem arB_keys (g : Comm.Key) (shape : List Nat) (sym : Bool) : ∃ ρ : List Comm.Key,
    ∀ (s : Comm.CState) (tid es dt : Nat),
      (Comm.allreduceBucketed s g tid shape es dt sym).1.cap = s.cap ∧
      (Comm.allreduceBucketed s g tid shape es dt sym).1.buckets.map (·.1) = ρ.foldl ins (s.buckets.map (·.1)) := by
  by_cases hacc : g.length ≠ 1 ∧ KV.C08.shapeOk shape sym = true
  · refine ⟨[g], ?_⟩
    intro s tid es dt
    rw [KV.C08.arB_accept s g tid shape es dt sym hacc.1 hacc.2]
    refine ⟨KV.C08.cap_stepB _ _ _, ?_⟩
    show (KV.C08.stepB s g _).1.buckets.map (·.1) = ins (s.buckets.map (·.1)) g
    unfold KV.C08.stepB
    split <;> exact keys_setB _ _ _
  · refine ⟨[], ?_⟩
    intro s tid es dt
    rw [(KV.C08.arB_reject s g tid shape es dt sym hacc).1]
    exact ⟨rfl, rfl⟩

theorem allreduce_fst (s : Comm.CState) (g : Comm.Key) (tid : Nat) (shape : List Nat) (sym : Bool) :
    (Comm.allreduce s g tid shape sym).1 = s :=
  (ar_inv (fun _ => True) s g tid shape sym (fun _ => trivial)).1

theorem allreduce_ev (s s' : Comm.CState) (g : Comm.Key) (tid : Nat) (shape : List Nat) (sym : Bool) :
    (Comm.allreduce s g tid shape sym).2.1 = (Comm.allreduce s' g tid shape sym).2.1 := by
  unfold Comm.allreduce
  split
  · rfl
  · cases Comm.checkShape shape sym <;> rfl

/-! ### `Sim` / `Uni` relative to a relation between the communicators -/

def SimR (R : Comm.CState → Comm.CState → Prop) (s s' : St) : Prop :=
  s.steps = s'.steps ∧ s.mini = s'.mini ∧ s.tid = s'.tid ∧ R s.comm s'.comm

def UniR (R : Comm.CState → Comm.CState → Prop) (f : St → St) : Prop :=
  ∀ s s', SimR R s s' → SimR R (f s) (f s') ∧
    ∃ extra, (f s).acts = s.acts ++ extra ∧ (f s').acts = s'.acts ++ extra

variable {R : Comm.CState → Comm.CState → Prop}

theorem UniR.id : UniR R (fun s => s) := fun _ _ h => ⟨h, [], by simp, by simp⟩

theorem UniR.comp {f g : St → St} (hf : UniR R f) (hg : UniR R g) : UniR R (fun s => g (f s)) := by
  intro s s' h
  obtain ⟨h1, e1, a1, b1⟩ := hf s s' h
  obtain ⟨h2, e2, a2, b2⟩ := hg _ _ h1
  exact ⟨h2, e1 ++ e2, by rw [a2, a1, List.append_assoc], by rw [b2, b1, List.append_assoc]⟩

theorem UniR.foldl {α : Type} (f : St → α → St) : ∀ (l : List α),
    (∀ x ∈ l, UniR R (fun s => f s x)) → UniR R (fun s => l.foldl f s)
  | [], _ => UniR.id
  | x :: t, hf => by
    simp only [List.foldl_cons]
    exact UniR.comp (hf x (List.mem_cons_self ..))
      (UniR.foldl f t (fun y hy => hf y (List.mem_cons_of_mem _ hy)))

theorem UniR.ite (b : Bool) {f g : St → St} (hf : UniR R f) (hg : UniR R g) :
    UniR R (fun s => if b then f s else g s) := by
  cases b
  · exact hg
  · exact hf

theorem UniR_emitIf (g : List Nat) (k : Kind) (e r : Nat) : UniR R (fun s => emitIf s g k e r) := by
  intro s s' h
  unfold emitIf
  split
  · exact ⟨h, [], by simp, by simp⟩
  · exact ⟨h, _, rfl, rfl⟩

theorem UniR_gathers (c : NeoxS.Cfg) (p e : Nat) :
    UniR R (fun s => (List.range c.t.dp).foldl (fun s d => emitIf s (modelGroup c p d) .allgather e 0) s) :=
  UniR.foldl _ _ (fun _ _ => UniR_emitIf _ _ _ _)

/-- what the relation has to provide: `reduce_*_factor` respects it -/
def RF (R : Comm.CState → Comm.CState → Prop) (c : NeoxS.Cfg) : Prop :=
  ∀ g n, UniR R (fun s => reduceFactor c s g n)

theorem UniR_reduceA (c : NeoxS.Cfg) (h : RF R c) (p : Nat) (l : Layer) : UniR R (fun s => reduceA c p s l) := by
  unfold reduceA
  cases l.par
  · exact h _ _
  · exact h _ _

theorem UniR_reduceG (c : NeoxS.Cfg) (h : RF R c) (p : Nat) (l : Layer) : UniR R (fun s => reduceG c p s l) := by
  unfold reduceG
  cases l.par
  · exact h _ _
  · exact h _ _

theorem UniR_fwdLayer (c : NeoxS.Cfg) (p : Nat) (fire : Bool) (h : fire = true → RF R c) (l : Layer) :
    UniR R (fun s => fwdLayer c p fire s l) := by
  unfold fwdLayer
  cases fire <;> cases l.par
  · exact UniR.id
  · exact UniR_gathers c p _
  · exact UniR_reduceA c (h rfl) p l
  · exact UniR.comp (UniR_gathers c p _) (UniR_reduceA c (h rfl) p l)

theorem UniR_bwdLayer (c : NeoxS.Cfg) (p : Nat) (fire : Bool) (h : fire = true → RF R c) (l : Layer) :
    UniR R (fun s => bwdLayer c p fire s l) := by
  unfold bwdLayer
  cases fire <;> cases l.par
  · exact UniR_gathers c p _
  · exact UniR.id
  · exact UniR.comp (UniR_gathers c p _) (UniR_reduceG c (h rfl) p l)
  · exact UniR_reduceG c (h rfl) p l

/-- the hooks of one pass -/
def bodyT (c : NeoxS.Cfg) (fire : Bool) (s : St) : St :=
  (List.range c.t.pp).foldl (fun s p =>
    ((c.stages.getD p []).reverse).foldl (bwdLayer c p fire)
      ((c.stages.getD p []).foldl (fwdLayer c p fire) s)) s

/-- the factor reductions of `step()` when the factors are not updated in the hooks -/
def red (c : NeoxS.Cfg) (s : St) : St :=
  (List.range c.t.pp).foldl (fun s p =>
    (c.stages.getD p []).reverse.foldl (fun s l => reduceG c p (reduceA c p s l) l) s) s

/-- preconditioning + gradient broadcast of every layer -/
def precondAll (c : NeoxS.Cfg) (s : St) : St :=
  (List.range c.t.pp).foldl (fun s p => (c.stages.getD p []).reverse.foldl (precondLayer c p) s) s

theorem trainPass_eq (c : NeoxS.Cfg) (s : St) : trainPass c s =
    if s.steps % c.fus != 0 then s else
      { bodyT c (c.hook && (s.mini + 1) % c.accum == 0) s with mini := s.mini + 1 } := rfl

theorem stepOp_eq (c : NeoxS.Cfg) (s : St) : stepOp c s =
    let t := NeoxS.flush (precondAll c (NeoxS.flush (NeoxS.flush
      (if !c.hook && s.steps % c.fus == 0 then red c s else s))))
    { t with steps := t.steps + 1, mini := 0 } := rfl

theorem UniR_bodyT (c : NeoxS.Cfg) (fire : Bool) (h : fire = true → RF R c) : UniR R (bodyT c fire) :=
  UniR.foldl _ _ (fun p _ =>
    UniR.comp (UniR.foldl _ _ (fun l _ => UniR_fwdLayer c p fire h l))
      (UniR.foldl _ _ (fun l _ => UniR_bwdLayer c p fire h l)))

theorem UniR_red (c : NeoxS.Cfg) (h : RF R c) : UniR R (red c) :=
  UniR.foldl _ _ (fun p _ => UniR.foldl _ _ (fun l _ => UniR.comp (UniR_reduceA c h p l) (UniR_reduceG c h p l)))

theorem UniR_precondLayer (c : NeoxS.Cfg) (p : Nat) (l : Layer) : UniR R (fun s => precondLayer c p s l) := by
  have h1 : UniR R (fun s => emitIf s (modelGroup c p (c.t.dataOf (invOf c p l))) .allgather
      (l.outF * l.inF / c.t.mp) 0) := UniR_emitIf _ _ _ _
  have h2 : UniR R (fun s => if l.bias && l.par == .col then
      emitIf s (modelGroup c p (c.t.dataOf (invOf c p l))) .allgather (l.outF / c.t.mp) 0 else s) :=
    UniR.ite _ (UniR_emitIf _ _ _ _) UniR.id
  have h3 : UniR R (fun s => emitIf s (modelGroup c p (c.t.dataOf (invOf c p l))) .reducescatter
      (l.outF * l.inF / c.t.mp) 0) := UniR_emitIf _ _ _ _
  have h4 : UniR R (fun s => if l.bias then
      (match l.par with
       | .col => emitIf s (modelGroup c p (c.t.dataOf (invOf c p l))) .reducescatter (l.outF / c.t.mp) 0
       | .row => emitIf s (modelGroup c p (c.t.dataOf (invOf c p l))) .broadcast l.outF (invOf c p l))
      else s) := by
    refine UniR.ite _ ?_ UniR.id
    cases l.par
    · exact UniR_emitIf _ _ _ _
    · exact UniR_emitIf _ _ _ _
  have h5 : ∀ g : Nat, UniR R (fun s => (List.range c.t.mp).foldl (fun s m =>
      emitIf s (dataGroup c p m) .broadcast g (c.t.rankOf p (c.t.dataOf (invOf c p l)) m)) s) :=
    fun g => UniR.foldl _ _ (fun _ _ => UniR_emitIf _ _ _ _)
  exact UniR.comp (UniR.comp (UniR.comp (UniR.comp h1 h2) h3) h4) (h5 _)

theorem UniR_precondAll (c : NeoxS.Cfg) : UniR R (precondAll c) :=
  UniR.foldl _ _ (fun p _ => UniR.foldl _ _ (fun l _ => UniR_precondLayer c p l))

/-- functions that respect EVERY relation do not touch the communicator -/
theorem comm_of_UniR {f : St → St} (h : ∀ R, UniR R f) (s : St) : (f s).comm = s.comm :=
  ((h (fun a b => a = s.comm ∧ b = s.comm) s s ⟨rfl, rfl, rfl, rfl, rfl⟩).1.2.2.2).1

theorem comm_bodyT_false (c : NeoxS.Cfg) (s : St) : (bodyT c false s).comm = s.comm :=
  comm_of_UniR (fun _ => UniR_bodyT c false (fun h => by cases h)) s

theorem comm_precondAll (c : NeoxS.Cfg) (s : St) : (precondAll c s).comm = s.comm :=
  comm_of_UniR (fun _ => UniR_precondAll c) s

/-! ### `reduce_*_factor` respects `Weq` -/

theorem RF_Weq (c : NeoxS.Cfg) : RF Weq c := by
  intro g n s s' h
  obtain ⟨h1, h2, h3, h4⟩ := h
  unfold reduceFactor
  cases hb : c.bucketed
  · simp only [Bool.false_eq_true, if_false]
    refine ⟨⟨h1, h2, congrArg (· + 1) h3, ?_⟩, _, rfl, ?_⟩
    · show Weq (Comm.allreduce s.comm g s.tid [n, n] c.sym).1 (Comm.allreduce s'.comm g s'.tid [n, n] c.sym).1
      rw [allreduce_fst, allreduce_fst]
      exact h4
    · show s'.acts ++ _ = s'.acts ++ _
      rw [← h3, allreduce_ev s.comm s'.comm]
  · simp only [if_true]
    obtain ⟨w, e⟩ := arB_Weq s.comm s'.comm g s.tid [n, n] c.esize 0 c.sym h4
    refine ⟨⟨h1, h2, congrArg (· + 1) h3, ?_⟩, _, rfl, ?_⟩
    · show Weq (Comm.allreduceBucketed s.comm g s.tid [n, n] c.esize 0 c.sym).1
        (Comm.allreduceBucketed s'.comm g s'.tid [n, n] c.esize 0 c.sym).1
      rw [← h3]
      exact w
    · show s'.acts ++ _ = s'.acts ++ _
      rw [← h3, e]

/-! ### the keys an iteration adds -/

/-- `f` adds a fixed sequence of keys (and keeps the capacity) -/
def KE (f : St → St) : Prop :=
  ∃ ρ : List Comm.Key, ∀ s, (f s).comm.cap = s.comm.cap ∧
    (f s).comm.buckets.map (·.1) = ρ.foldl ins (s.comm.buckets.map (·.1))

theorem KE.id : KE (fun s => s) := ⟨[], fun _ => ⟨rfl, rfl⟩⟩

theorem KE.comp {f g : St → St} (hf : KE f) (hg : KE g) : KE (fun s => g (f s)) := by
  obtain ⟨r1, h1⟩ := hf
  obtain ⟨r2, h2⟩ := hg
  refine ⟨r1 ++ r2, fun s => ⟨((h2 (f s)).1).trans (h1 s).1, ?_⟩⟩
  rw [(h2 (f s)).2, (h1 s).2, List.foldl_append]

theorem KE.foldl {α : Type} (f : St → α → St) : ∀ (l : List α),
    (∀ x ∈ l, KE (fun s => f s x)) → KE (fun s => l.foldl f s)
  | [], _ => KE.id
  | x :: t, hf => by
    simp only [List.foldl_cons]
    exact KE.comp (hf x (List.mem_cons_self ..))
      (KE.foldl f t (fun y hy => hf y (List.mem_cons_of_mem _ hy)))

theorem KE_emitIf (g : List Nat) (k : Kind) (e r : Nat) : KE (fun s => emitIf s g k e r) := by
  refine ⟨[], fun s => ?_⟩
  unfold emitIf
  split <;> exact ⟨rfl, rfl⟩

theorem KE_gathers (c : NeoxS.Cfg) (p e : Nat) :
    KE (fun s => (List.range c.t.dp).foldl (fun s d => emitIf s (modelGroup c p d) .allgather e 0) s) :=
  KE.foldl _ _ (fun _ _ => KE_emitIf _ _ _ _)

theorem KE_reduceFactor (c : NeoxS.Cfg) (g : List Nat) (n : Nat) : KE (fun s => reduceFactor c s g n) := by
  cases hb : c.bucketed
  · refine ⟨[], fun s => ?_⟩
    unfold reduceFactor
    simp only [hb, Bool.false_eq_true, if_false]
    show (Comm.allreduce s.comm g s.tid [n, n] c.sym).1.cap = _ ∧
      (Comm.allreduce s.comm g s.tid [n, n] c.sym).1.buckets.map (·.1) = _
    rw [allreduce_fst]
    exact ⟨rfl, rfl⟩
  · obtain ⟨ρ, h⟩ := arB_keys g [n, n] c.sym
    refine ⟨ρ, fun s => ?_⟩
    unfold reduceFactor
    simp only [hb, if_true]
    exact h s.comm s.tid c.esize 0

theorem KE_reduceA (c : NeoxS.Cfg) (p : Nat) (l : Layer) : KE (fun s => reduceA c p s l) := by
  unfold reduceA
  cases l.par
  · exact KE_reduceFactor c _ _
  · exact KE_reduceFactor c _ _

theorem KE_reduceG (c : NeoxS.Cfg) (p : Nat) (l : Layer) : KE (fun s => reduceG c p s l) := by
  unfold reduceG
  cases l.par
  · exact KE_reduceFactor c _ _
  · exact KE_reduceFactor c _ _

theorem KE_fwdLayer (c : NeoxS.Cfg) (p : Nat) (fire : Bool) (l : Layer) :
    KE (fun s => fwdLayer c p fire s l) := by
  unfold fwdLayer
  cases fire <;> cases l.par
  · exact KE.id
  · exact KE_gathers c p _
  · exact KE_reduceA c p l
  · exact KE.comp (KE_gathers c p _) (KE_reduceA c p l)

theorem KE_bwdLayer (c : NeoxS.Cfg) (p : Nat) (fire : Bool) (l : Layer) :
    KE (fun s => bwdLayer c p fire s l) := by
  unfold bwdLayer
  cases fire <;> cases l.par
  · exact KE_gathers c p _
  · exact KE.id
  · exact KE.comp (KE_gathers c p _) (KE_reduceG c p l)
  · exact KE_reduceG c p l

theorem KE_bodyT (c : NeoxS.Cfg) (fire : Bool) : KE (bodyT c fire) :=
  KE.foldl _ _ (fun p _ =>
    KE.comp (KE.foldl _ _ (fun l _ => KE_fwdLayer c p fire l))
      (KE.foldl _ _ (fun l _ => KE_bwdLayer c p fire l)))

theorem KE_red (c : NeoxS.Cfg) : KE (red c) :=
  KE.foldl _ _ (fun p _ => KE.foldl _ _ (fun l _ => KE.comp (KE_reduceA c p l) (KE_reduceG c p l)))

/-- one factor-update iteration: the hooks of a firing pass, or the reductions of `step()` -/
def iter (c : NeoxS.Cfg) (s : St) : St := if c.hook then bodyT c true s else red c s

theorem KE_iter (c : NeoxS.Cfg) : KE (iter c) := by
  unfold iter
  cases c.hook
  · exact KE_red c
  · exact KE_bodyT c true

/-- the key sequence of one iteration -/
noncomputable def sigma (c : NeoxS.Cfg) : List Comm.Key := Classical.choose (KE_iter c)

theorem sigma_spec (c : NeoxS.Cfg) (s : St) : (iter c s).comm.cap = s.comm.cap ∧
    (iter c s).comm.buckets.map (·.1) = (sigma c).foldl ins (s.comm.buckets.map (·.1)) :=
  Classical.choose_spec (KE_iter c) s

/-- the keys of the communicator once an iteration has happened: first-use order of one iteration -/
noncomputable def canon (c : NeoxS.Cfg) : List Comm.Key := (sigma c).foldl ins []

theorem canon_nodup (c : NeoxS.Cfg) : (canon c).Nodup := foldl_ins_nodup _ _ List.nodup_nil

theorem UniR_iter (c : NeoxS.Cfg) (h : RF R c) : UniR R (iter c) := by
  unfold iter
  cases c.hook
  · exact UniR_red c h
  · exact UniR_bodyT c true (fun _ => h)

/-! ### reachable states -/

/-- the communicator of every state of a run without checkpoints -/
def RI (c : NeoxS.Cfg) (s : St) : Prop :=
  s.comm.cap = c.cap ∧ (s.comm.buckets.map (·.1) = [] ∨ s.comm.buckets.map (·.1) = canon c)

theorem keys_iter (c : NeoxS.Cfg) (s : St)
    (h : s.comm.buckets.map (·.1) = [] ∨ s.comm.buckets.map (·.1) = canon c) :
    (iter c s).comm.buckets.map (·.1) = canon c := by
  rw [(sigma_spec c s).2]
  rcases h with h | h
  · rw [h]; rfl
  · rw [h]; exact foldl_ins_idem _

theorem RI_iter (c : NeoxS.Cfg) (s : St) (h : RI c s) : RI c (iter c s) :=
  ⟨((sigma_spec c s).1).trans h.1, .inr (keys_iter c s h.2)⟩

theorem RI_trainPass (c : NeoxS.Cfg) (s : St) (h : RI c s) : RI c (trainPass c s) := by
  rw [trainPass_eq]
  split
  · exact h
  · cases hf : (c.hook && (s.mini + 1) % c.accum == 0)
    · show RI c (bodyT c false s)
      unfold RI
      rw [comm_bodyT_false]
      exact h
    · have hh : c.hook = true := by
        cases hc : c.hook
        · rw [hc] at hf; cases hf
        · rfl
      have e : bodyT c true s = iter c s := by unfold iter; rw [if_pos hh]
      show RI c (bodyT c true s)
      rw [e]
      exact RI_iter c s h

theorem comm_flush (s : St) : (NeoxS.flush s).comm = (Comm.flush s.comm).1 := rfl

theorem flush_cap_keys (s : Comm.CState) : (Comm.flush s).1.cap = s.cap ∧
    (Comm.flush s).1.buckets.map (·.1) = s.buckets.map (·.1) := by
  unfold Comm.flush
  refine ⟨rfl, ?_⟩
  simp [List.map_map, Function.comp_def]

theorem RI_flush (c : NeoxS.Cfg) (s : St) (h : RI c s) : RI c (NeoxS.flush s) := by
  unfold RI
  rw [comm_flush, (flush_cap_keys _).1, (flush_cap_keys _).2]
  exact h

theorem RI_stepOp (c : NeoxS.Cfg) (s : St) (h : RI c s) : RI c (stepOp c s) := by
  rw [stepOp_eq]
  have h0 : RI c (if (!c.hook && s.steps % c.fus == 0) = true then red c s else s) := by
    split
    · rename_i hc
      have hh : c.hook = false := by
        cases hk : c.hook
        · rfl
        · rw [hk] at hc; cases hc
      have e : red c s = iter c s := by unfold iter; rw [hh]; rfl
      rw [e]
      exact RI_iter c s h
    · exact h
  have h1 := RI_flush c _ (RI_flush c _ h0)
  have h2 : RI c (precondAll c (NeoxS.flush (NeoxS.flush
      (if (!c.hook && s.steps % c.fus == 0) = true then red c s else s)))) := by
    unfold RI
    rw [comm_precondAll]
    exact h1
  exact RI_flush c _ h2

theorem stepOp_allnone (c : NeoxS.Cfg) (s : St) : ∀ e ∈ (stepOp c s).comm.buckets, e.2 = none := by
  rw [stepOp_eq]
  intro e he
  have he' : e ∈ (Comm.flush (precondAll c (NeoxS.flush (NeoxS.flush
      (if (!c.hook && s.steps % c.fus == 0) = true then red c s else s)))).comm).1.buckets := he
  unfold Comm.flush at he'
  simp only [List.mem_map] at he'
  obtain ⟨x, _, rfl⟩ := he'
  rfl

theorem stepOp_mini (c : NeoxS.Cfg) (s : St) : (stepOp c s).mini = 0 := rfl

theorem RI_init (c : NeoxS.Cfg) : RI c (St.init c) := ⟨rfl, .inl rfl⟩

theorem RI_run (c : NeoxS.Cfg) (ops : List Op) (h : ∀ op ∈ ops, op.isCkpt = false) : RI c (run c ops) := by
  unfold run
  refine foldl_inv (RI c) _ _ _ (RI_init c) ?_
  intro s op hop hs
  have := h op hop
  cases op
  · exact RI_trainPass c s hs
  · exact RI_stepOp c s hs
  · cases this
  · cases this

/-! ### the two continuations -/

/-- before the next iteration: the running communicator (all buckets flushed) against the fresh one -/
def P0c (c : NeoxS.Cfg) (a b : Comm.CState) : Prop :=
  a.cap = c.cap ∧ (∀ e ∈ a.buckets, e.2 = none) ∧
    (a.buckets.map (·.1) = [] ∨ a.buckets.map (·.1) = canon c) ∧ b = { cap := c.cap, buckets := [] }

theorem P0c_Weq (c : NeoxS.Cfg) {a b : Comm.CState} (h : P0c c a b) : Weq a b := by
  obtain ⟨h1, h2, _, rfl⟩ := h
  exact ⟨h1, fun k => (eff_allnone k _ h2).trans rfl⟩

theorem UniR_flush_P0c (c : NeoxS.Cfg) : UniR (P0c c) NeoxS.flush := by
  intro s s' h
  obtain ⟨h1, h2, h3, h4⟩ := h
  have ea : Comm.flush s.comm = (s.comm, []) := flush_allnone _ h4.2.1
  have eb : Comm.flush s'.comm = (s'.comm, []) := by rw [h4.2.2.2]; rfl
  unfold NeoxS.flush
  simp only [ea, eb]
  exact ⟨⟨h1, h2, h3, h4⟩, [], by simp, by simp⟩

/-- the next iteration makes the two communicators equal -/
theorem iter_P0 (c : NeoxS.Cfg) (s s' : St) (h : SimR (P0c c) s s') :
    Sim (iter c s) (iter c s') ∧
      ∃ extra, (iter c s).acts = s.acts ++ extra ∧ (iter c s').acts = s'.acts ++ extra := by
  have hw : SimR Weq s s' := ⟨h.1, h.2.1, h.2.2.1, P0c_Weq c h.2.2.2⟩
  obtain ⟨⟨h1, h2, h3, hc, he⟩, ex⟩ := UniR_iter c (RF_Weq c) s s' hw
  refine ⟨⟨h1, h2, h3, ?_⟩, ex⟩
  obtain ⟨_, _, hk, hb⟩ := h.2.2.2
  have k1 : (iter c s).comm.buckets.map (·.1) = canon c := keys_iter c s hk
  have k2 : (iter c s').comm.buckets.map (·.1) = canon c := keys_iter c s' (.inl (by rw [hb]; rfl))
  have hbk : (iter c s).comm.buckets = (iter c s').comm.buckets :=
    bks_ext _ _ (k1.trans k2.symm) (k1 ▸ canon_nodup c) he
  revert hc hbk
  generalize (iter c s).comm = a
  generalize (iter c s').comm = b
  intro hc hbk
  cases a; cases b
  simp only at hc hbk
  subst hc hbk
  rfl

/-- either still waiting for the next iteration, or already the same -/
def Ph (c : NeoxS.Cfg) (s s' : St) : Prop := SimR (P0c c) s s' ∨ Sim s s'

def UniP (c : NeoxS.Cfg) (f : St → St) : Prop :=
  ∀ s s', Ph c s s' → Ph c (f s) (f s') ∧
    ∃ extra, (f s).acts = s.acts ++ extra ∧ (f s').acts = s'.acts ++ extra

theorem UniP_of_Uni (c : NeoxS.Cfg) {f : St → St} (hu : Uni f)
    (h0 : ∀ s s', SimR (P0c c) s s' → Ph c (f s) (f s') ∧
      ∃ extra, (f s).acts = s.acts ++ extra ∧ (f s').acts = s'.acts ++ extra) : UniP c f := by
  intro s s' h
  rcases h with h | h
  · exact h0 s s' h
  · obtain ⟨h1, _, ex⟩ := hu s s' h
    exact ⟨.inr h1, ex⟩

theorem UniP_trainPass (c : NeoxS.Cfg) : UniP c (trainPass c) := by
  refine UniP_of_Uni c (Uni_trainPass c) ?_
  intro s s' h
  rw [trainPass_eq, trainPass_eq, ← h.1, ← h.2.1]
  split
  · exact ⟨.inl h, [], by simp, by simp⟩
  · cases hf : (c.hook && (s.mini + 1) % c.accum == 0)
    · obtain ⟨⟨h1, _, h3, h4⟩, ex⟩ := UniR_bodyT (R := P0c c) c false (fun h => by cases h) s s' h
      exact ⟨.inl ⟨h1, rfl, h3, h4⟩, ex⟩
    · have hh : c.hook = true := by
        cases hc : c.hook
        · rw [hc] at hf; cases hf
        · rfl
      have e : ∀ s, bodyT c true s = iter c s := fun s => by unfold iter; rw [if_pos hh]
      rw [e, e]
      obtain ⟨⟨h1, _, h3, h4⟩, ex⟩ := iter_P0 c s s' h
      exact ⟨.inr ⟨h1, rfl, h3, h4⟩, ex⟩

theorem Uni_precondAll (c : NeoxS.Cfg) : Uni (precondAll c) :=
  Uni.foldl _ _ (fun p _ => Uni.foldl _ _ (fun l _ => Uni_precondLayer c p l))

theorem UniP_stepOp (c : NeoxS.Cfg) : UniP c (stepOp c) := by
  refine UniP_of_Uni c (Uni_stepOp c) ?_
  intro s s' h
  have tailU : Uni (fun s => NeoxS.flush (precondAll c (NeoxS.flush (NeoxS.flush s)))) :=
    Uni.comp (Uni.comp (Uni.comp Uni_flush Uni_flush) (Uni_precondAll c)) Uni_flush
  have tailP : UniR (P0c c) (fun s => NeoxS.flush (precondAll c (NeoxS.flush (NeoxS.flush s)))) :=
    UniR.comp (UniR.comp (UniR.comp (UniR_flush_P0c c) (UniR_flush_P0c c)) (UniR_precondAll c))
      (UniR_flush_P0c c)
  rw [stepOp_eq, stepOp_eq, ← h.1]
  cases hc : (!c.hook && s.steps % c.fus == 0)
  · simp only [Bool.false_eq_true, if_false]
    obtain ⟨⟨h1, _, h3, h4⟩, ex⟩ := tailP s s' h
    exact ⟨.inl ⟨congrArg (· + 1) h1, rfl, h3, h4⟩, ex⟩
  · simp only [if_true]
    have hh : c.hook = false := by
      cases hk : c.hook
      · rfl
      · rw [hk] at hc; cases hc
    have e : ∀ s, red c s = iter c s := fun s => by unfold iter; rw [hh]; rfl
    rw [e, e]
    obtain ⟨hs, e1, a1, b1⟩ := iter_P0 c s s' h
    obtain ⟨⟨h1, _, h3, h4⟩, _, e2, a2, b2⟩ := tailU _ _ hs
    refine ⟨.inr ⟨congrArg (· + 1) h1, rfl, h3, h4⟩, e1 ++ e2, ?_, ?_⟩
    · show (NeoxS.flush (precondAll c (NeoxS.flush (NeoxS.flush (iter c s))))).acts = _
      rw [a2, a1, List.append_assoc]
    · show (NeoxS.flush (precondAll c (NeoxS.flush (NeoxS.flush (iter c s'))))).acts = _
      rw [b2, b1, List.append_assoc]

theorem UniP_ops (c : NeoxS.Cfg) : ∀ (ops : List Op), (∀ op ∈ ops, op.isCkpt = false) →
    UniP c (fun s => ops.foldl (apply c) s)
  | [], _ => fun _ _ h => ⟨h, [], by simp, by simp⟩
  | op :: t, h => by
    have hop : UniP c (fun s => apply c s op) := by
      have := h op (List.mem_cons_self ..)
      cases op
      · exact UniP_trainPass c
      · exact UniP_stepOp c
      · cases this
      · cases this
    have ht := UniP_ops c t (fun o ho => h o (List.mem_cons_of_mem _ ho))
    intro s s' hs
    obtain ⟨h1, e1, a1, b1⟩ := hop s s' hs
    obtain ⟨h2, e2, a2, b2⟩ := ht _ _ h1
    refine ⟨h2, e1 ++ e2, ?_, ?_⟩
    · show (t.foldl (apply c) (apply c s op)).acts = _
      rw [a2, a1, List.append_assoc]
    · show (t.foldl (apply c) (apply c s' op)).acts = _
      rw [b2, b1, List.append_assoc]

/-- the statement for a state whose communicator is as at a step boundary of a run -/
theorem resume_same_script_state (c : NeoxS.Cfg) (s : St) (dir : Bool) (ops : List Op)
    (hri : RI c s) (hn : ∀ e ∈ s.comm.buckets, e.2 = none) (hm : s.mini = 0)
    (h : ∀ op ∈ ops, op.isCkpt = false) :
    ∃ ck, (loadOp c dir true (saveOp c dir s)).acts = s.acts ++ ck ∧
      (ops.foldl (apply c) (loadOp c dir true (saveOp c dir s))).acts =
        s.acts ++ ck ++ ((ops.foldl (apply c) s).acts.drop s.acts.length) := by
  have hsim : SimR (P0c c) s (loadOp c dir true (saveOp c dir s)) := by
    refine ⟨?_, hm, ?_, ⟨hri.1, hn, hri.2, ?_⟩⟩ <;> cases dir <;> rfl
  have hck : ∃ ck, (loadOp c dir true (saveOp c dir s)).acts = s.acts ++ ck := by
    cases dir
    · exact ⟨_, by simp [saveOp, loadOp, emitWorld]; rfl⟩
    · exact ⟨_, by simp [saveOp, loadOp, emitWorld]; rfl⟩
  obtain ⟨ck, hck⟩ := hck
  obtain ⟨_, extra, a, b⟩ := UniP_ops c ops h s _ (.inl hsim)
  refine ⟨ck, hck, ?_⟩
  rw [b, a, hck, List.drop_left]

end KV.C11S
