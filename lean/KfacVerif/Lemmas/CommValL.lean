/- Helper lemmas for the value-level statements about the bucketed all-reduce (M-CommVal),
   `Staging/CommValProps.lean`. -/
import KfacVerif.Model.CommVal
import KfacVerif.Lemmas.Bucket

/-!
Structure:
* `split`: flatten / capacity / dtype invariants with an arbitrary open bucket `cur`;
* `split` against M-Comm's `run` (`run_split`);
* bucket lengths depend on the shapes only (`split_lengths_congr`), `chunks`;
* explicit recursions `resultsRec` / `perTensorRec`, bridges to the `range … getD` forms;
* `vsum` of concatenations (via `Comm.sumRanks`), `unflatten` of a summed bucket;
* `results_eq_perTensor`.
-/

namespace KV.CommVL
open KV KV.CommV

/-! ### `split`: flatten -/

theorem emit_flatten (cur : List Sub) : (emit cur).flatten = cur := by
  unfold emit
  cases cur <;> simp

theorem mem_emit {cur b : List Sub} (h : b ∈ emit cur) : b = cur := by
  unfold emit at h
  split at h
  · cases h
  · simpa using h

theorem split_flatten_gen (cap es : Nat) (subs cur : List Sub) :
    (split cap es subs cur).flatten = cur ++ subs := by
  induction subs generalizing cur with
  | nil => simp [split, emit_flatten]
  | cons s t ih =>
    unfold split
    split
    · rw [List.flatten_append, emit_flatten, ih]; rfl
    · rw [ih]; simp

/-! ### `split`: an invariant of the open bucket holds for every bucket -/

theorem split_inv (P : List Sub → Prop) (cap es : Nat)
    (h1 : ∀ s, P [s])
    (hstep : ∀ cur s, P cur → flushNow cap es cur s = false → P (cur ++ [s]))
    (subs cur : List Sub) (hc : P cur) : ∀ b ∈ split cap es subs cur, P b := by
  induction subs generalizing cur with
  | nil =>
    intro b hb
    rw [split] at hb
    rw [mem_emit hb]; exact hc
  | cons s t ih =>
    intro b hb
    rw [split] at hb
    split at hb
    · rcases List.mem_append.1 hb with hb | hb
      · rw [mem_emit hb]; exact hc
      · exact ih [s] (h1 s) b hb
    · rename_i hf
      exact ih (cur ++ [s]) (hstep cur s hc (by simpa using hf)) b hb

theorem bucketBytes_append (es : Nat) (a b : List Sub) :
    bucketBytes es (a ++ b) = bucketBytes es a + bucketBytes es b := by
  simp [bucketBytes]

theorem split_capacity_gen (cap es : Nat) (subs cur : List Sub)
    (hc : 2 ≤ cur.length → bucketBytes es cur ≤ cap) :
    ∀ b ∈ split cap es subs cur, 2 ≤ b.length → bucketBytes es b ≤ cap := by
  apply split_inv (fun b => 2 ≤ b.length → bucketBytes es b ≤ cap) cap es _ _ subs cur hc
  · intro s h; simp at h
  · intro cur s _ hf _
    simp only [flushNow, Bool.or_eq_false_iff, decide_eq_false_iff_not, Nat.not_lt] at hf
    rw [bucketBytes_append]
    simpa [bucketBytes] using hf.1

theorem split_dtype_gen (cap es : Nat) (subs cur : List Sub)
    (hc : ∀ x ∈ cur, ∀ y ∈ cur, x.dtype = y.dtype) :
    ∀ b ∈ split cap es subs cur, ∀ x ∈ b, ∀ y ∈ b, x.dtype = y.dtype := by
  apply split_inv (fun b => ∀ x ∈ b, ∀ y ∈ b, x.dtype = y.dtype) cap es _ _ subs cur hc
  · intro s x hx y hy
    rw [List.mem_singleton.1 hx, List.mem_singleton.1 hy]
  · intro cur s hcur hf
    simp only [flushNow, Bool.or_eq_false_iff] at hf
    have key : ∀ a ∈ cur, a.dtype = s.dtype := by
      intro a ha
      cases hcu : cur with
      | nil => rw [hcu] at ha; cases ha
      | cons h t =>
        have hh : h ∈ cur := by rw [hcu]; exact List.mem_cons_self ..
        have h2 := hf.2
        simp [hcu] at h2
        rw [hcur a ha h hh, h2]
    intro x hx y hy
    rcases List.mem_append.1 hx with hx | hx <;> rcases List.mem_append.1 hy with hy | hy
    · exact hcur x hx y hy
    · rw [List.mem_singleton.1 hy]; exact key x hx
    · rw [List.mem_singleton.1 hx]; exact (key y hy).symm
    · rw [List.mem_singleton.1 hx, List.mem_singleton.1 hy]

/-! ### `split` against M-Comm -/

def toItem (es : Nat) (s : Sub) : Comm.Item :=
  { tid := s.tid, elems := s.data.length, esize := es, dtype := s.dtype }

def opOf (g : Comm.Key) (es : Nat) (s : Sub) : Comm.Op :=
  .reduceB g s.tid [s.data.length] es s.dtype false

def evOf (g : Comm.Key) (b : List Sub) : Comm.Event :=
  .allreduce g (b.map (·.tid)) ((b.map fun s => s.data.length).sum)

/-- the dict of M-Comm when only group `g` has been used and `cur` is its open bucket -/
def St (g : Comm.Key) (es : Nat) (cur : List Sub) (bs : List (Comm.Key × Option Comm.Bucket)) : Prop :=
  bs = [(g, some { items := cur.map (toItem es) })] ∨ (bs = [] ∧ cur = [])

theorem size_toItem (es : Nat) (cur : List Sub) :
    Comm.Bucket.size { items := cur.map (toItem es) } = bucketBytes es cur := by
  simp [Comm.Bucket.size, bucketBytes, toItem, Function.comp_def]
  rfl

theorem dtype_toItem (es : Nat) (cur : List Sub) :
    Comm.Bucket.dtype? { items := cur.map (toItem es) } = cur.head?.map (·.dtype) := by
  cases cur <;> simp [Comm.Bucket.dtype?, toItem]

theorem emit_toItem (g : Comm.Key) (es : Nat) (cur : List Sub) :
    Comm.emit g { items := cur.map (toItem es) } = (emit cur).map (evOf g) := by
  cases cur with
  | nil => simp [Comm.emit, emit]
  | cons s t => simp [Comm.emit, emit, evOf, toItem, Function.comp_def]

theorem St_cur {g : Comm.Key} {es : Nat} {cur : List Sub} {bs} (h : St g es cur bs) :
    C08.curB g bs = { items := cur.map (toItem es) } := by
  rcases h with h | ⟨h, hc⟩
  · subst h; simp [C08.curB, Comm.lookupB]
  · subst h; subst hc; simp [C08.curB, Comm.lookupB]

theorem St_setB {g : Comm.Key} {es : Nat} {cur : List Sub} {bs} (h : St g es cur bs)
    (v : Option Comm.Bucket) : Comm.setB g v bs = [(g, v)] := by
  rcases h with h | ⟨h, _⟩
  · subst h; simp [Comm.setB]
  · subst h; simp [Comm.setB]

theorem mkItem_eq (es : Nat) (s : Sub) :
    C08.mkItem s.tid [s.data.length] es s.dtype false = toItem es s := by
  simp [C08.mkItem, toItem, Comm.commElems, Comm.numel]

theorem flushNow_toItem (cap es : Nat) (cur : List Sub) (s : Sub) :
    C08.flushNow cap { items := cur.map (toItem es) } (toItem es s) = flushNow cap es cur s := by
  unfold C08.flushNow
  rw [size_toItem, dtype_toItem]
  unfold flushNow Sub.bytes
  cases cur <;> rfl

theorem step_St (cap es : Nat) (g : Comm.Key) (hg : g.length ≠ 1) (cur : List Sub) (s : Sub) (bs)
    (h : St g es cur bs) :
    Comm.step { cap := cap, buckets := bs } (opOf g es s) =
      if flushNow cap es cur s then
        ({ cap := cap, buckets := [(g, some { items := [s].map (toItem es) })] },
          (emit cur).map (evOf g), .future)
      else
        ({ cap := cap, buckets := [(g, some { items := (cur ++ [s]).map (toItem es) })] }, [], .future) := by
  have hs : C08.shapeOk [s.data.length] false = true := rfl
  unfold opOf Comm.step
  simp only
  rw [C08.arB_accept _ g _ _ _ _ _ hg hs, mkItem_eq]
  unfold C08.stepB
  simp only [St_cur h, flushNow_toItem, St_setB h, emit_toItem]
  split <;> simp

theorem run_split (cap es : Nat) (g : Comm.Key) (hg : g.length ≠ 1) (subs cur : List Sub) (bs)
    (h : St g es cur bs) :
    (Comm.run { cap := cap, buckets := bs } (subs.map (opOf g es) ++ [Comm.Op.flush])).2
      = (split cap es subs cur).map (evOf g) := by
  induction subs generalizing cur bs with
  | nil =>
    rw [List.map_nil, List.nil_append, C08.run_cons, C08.run_nil, split]
    simp only [List.append_nil]
    rw [(C08.step_flush _).2]
    rcases h with h | ⟨h, hc⟩
    · subst h
      simp [Comm.flush, emit_toItem]
    · subst h; subst hc
      simp [Comm.flush, emit]
  | cons s t ih =>
    rw [List.map_cons, List.cons_append, C08.run_cons, step_St cap es g hg cur s bs h, split]
    split
    · simp only [List.map_append]
      rw [ih [s] _ (Or.inl rfl)]
    · simp only [List.nil_append]
      rw [ih (cur ++ [s]) _ (Or.inl rfl)]

/-! ### bucket lengths depend on the shapes only -/

/-- what the cutting rule looks at -/
def shp (s : Sub) : Nat × Nat := (s.dtype, s.data.length)

theorem sameShape_shp {a b : List Sub} (h : sameShape a b = true) : a.map shp = b.map shp := by
  induction a generalizing b with
  | nil => cases b <;> simp_all [sameShape]
  | cons x t ih =>
    cases b with
    | nil => simp [sameShape] at h
    | cons y u =>
      simp only [sameShape, List.length_cons, List.zip_cons_cons, List.all_cons, Bool.and_eq_true,
        beq_iff_eq, Nat.add_right_cancel_iff] at h
      have := @ih u (by simp [sameShape, h.1, h.2.2])
      simp [shp, this, h.2.1.1.2, h.2.1.2]

theorem bucketBytes_shp (es : Nat) {a b : List Sub} (h : a.map shp = b.map shp) :
    bucketBytes es a = bucketBytes es b := by
  have : ∀ c : List Sub, bucketBytes es c = ((c.map shp).map fun p => p.2 * es).sum := by
    intro c; simp [bucketBytes, shp, Function.comp_def]; rfl
  rw [this, this, h]

theorem flushNow_shp (cap es : Nat) {a b : List Sub} {s s' : Sub} (h : a.map shp = b.map shp)
    (hs : shp s = shp s') : flushNow cap es a s = flushNow cap es b s' := by
  have h1 : s.dtype = s'.dtype := congrArg Prod.fst hs
  have h2 : s.data.length = s'.data.length := congrArg Prod.snd hs
  unfold flushNow Sub.bytes
  rw [bucketBytes_shp es h, h1, h2]
  cases a with
  | nil => cases b with
    | nil => rfl
    | cons y u => simp at h
  | cons x t => cases b with
    | nil => simp at h
    | cons y u =>
      simp only [List.map_cons, List.cons.injEq] at h
      have : x.dtype = y.dtype := congrArg Prod.fst h.1
      simp [this]

theorem emit_lengths {a b : List Sub} (h : a.length = b.length) :
    (emit a).map List.length = (emit b).map List.length := by
  cases a with
  | nil => cases b with
    | nil => rfl
    | cons y u => simp at h
  | cons x t => cases b with
    | nil => simp at h
    | cons y u => simpa [emit] using h

theorem split_lengths_congr (cap es : Nat) (a b cura curb : List Sub) (h : a.map shp = b.map shp)
    (hc : cura.map shp = curb.map shp) :
    (split cap es a cura).map List.length = (split cap es b curb).map List.length := by
  have hl : ∀ {c d : List Sub}, c.map shp = d.map shp → c.length = d.length := by
    intro c d hcd; simpa using congrArg List.length hcd
  induction a generalizing b cura curb with
  | nil =>
    cases b with
    | nil => simpa [split] using emit_lengths (hl hc)
    | cons y u => simp at h
  | cons x t ih =>
    cases b with
    | nil => simp at h
    | cons y u =>
      simp only [List.map_cons, List.cons.injEq] at h
      rw [split, split, flushNow_shp cap es hc h.1]
      split
      · rw [List.map_append, List.map_append, emit_lengths (hl hc), ih u [x] [y] h.2 (by simp [h.1])]
      · exact ih u _ _ h.2 (by simp [hc, h.1])

/-- cut a list into consecutive pieces of the given lengths -/
def chunks {α : Type} : List Nat → List α → List (List α)
  | [], _ => []
  | n :: t, l => l.take n :: chunks t (l.drop n)

theorem chunks_flatten {α : Type} (X : List (List α)) : chunks (X.map List.length) X.flatten = X := by
  induction X with
  | nil => rfl
  | cons x t ih =>
    simp only [List.map_cons, List.flatten_cons, chunks, List.take_left', List.drop_left', ih]

/-- members with the same shapes are cut at the same positions -/
theorem split_eq_chunks (cap es : Nat) (a b : List Sub) (h : a.map shp = b.map shp) :
    split cap es b [] = chunks ((split cap es a []).map List.length) b := by
  have h1 := chunks_flatten (split cap es b [])
  rw [split_flatten_gen, List.nil_append] at h1
  rw [split_lengths_congr cap es a b [] [] h rfl]
  exact h1.symm

/-! ### explicit recursions -/

def dflt : Sub := ⟨0, 0, []⟩

/-- `results` by recursion over the own buckets; `bs` are the bucket lists of all members -/
def resultsRec : List (List Sub) → List (List (List Sub)) → List (Nat × List Int)
  | [], _ => []
  | b :: rest, bs =>
    unflatten b (vsum (bs.map fun x => flatten (x.headD []))) ++ resultsRec rest (bs.map List.tail)

/-- `perTensor` by recursion over the own requests -/
def perTensorRec : List Sub → List (List Sub) → List (Nat × List Int)
  | [], _ => []
  | s :: t, members =>
    (s.tid, vsum (members.map fun x => (x.headD dflt).data)) :: perTensorRec t (members.map List.tail)

theorem getD_succ_tail {α : Type} (l : List α) (i : Nat) (d : α) : l.getD (i + 1) d = l.tail.getD i d := by
  cases l <;> simp

theorem getD_zero_headD {α : Type} (l : List α) (d : α) : l.getD 0 d = l.headD d := by
  cases l <;> simp

theorem results_rec (mine : List (List Sub)) (bs : List (List (List Sub))) :
    ((List.range mine.length).flatMap fun i =>
      unflatten (mine.getD i []) (vsum (bs.map fun b => flatten (b.getD i [])))) = resultsRec mine bs := by
  induction mine generalizing bs with
  | nil => rfl
  | cons b rest ih =>
    rw [List.length_cons, List.range_succ_eq_map, List.flatMap_cons, List.flatMap_map, resultsRec,
      ← ih (bs.map List.tail)]
    congr 1
    · simp only [getD_zero_headD, List.headD_cons]
    · simp [Function.comp_def]

theorem perTensor_rec (mine : List Sub) (members : List (List Sub)) :
    ((List.range mine.length).map fun j =>
      ((mine.getD j dflt).tid, vsum (members.map fun subs => (subs.getD j dflt).data)))
      = perTensorRec mine members := by
  induction mine generalizing members with
  | nil => rfl
  | cons s t ih =>
    rw [List.length_cons, List.range_succ_eq_map, List.map_cons, List.map_map, perTensorRec,
      ← ih (members.map List.tail)]
    congr 1
    · simp only [getD_zero_headD, List.headD_cons]
    · simp [Function.comp_def]

theorem perTensorRec_append (a b : List Sub) (members : List (List Sub)) :
    perTensorRec (a ++ b) members
      = perTensorRec a members ++ perTensorRec b (members.map (List.drop a.length)) := by
  induction a generalizing members with
  | nil =>
    have : (List.drop 0 : List Sub → List Sub) = id := funext fun x => rfl
    simp [perTensorRec, this]
  | cons s t ih =>
    have e : (members.map List.tail).map (List.drop t.length)
        = members.map (List.drop (s :: t).length) := by
      rw [List.map_map]
      apply List.map_congr_left
      intro x _
      cases x <;> simp
    rw [List.cons_append, perTensorRec, perTensorRec, ih, e, List.cons_append]

/-! ### `vsum` -/

theorem vsum_eq (vs : List (List Int)) : vsum vs = Comm.sumRanks vs := by
  induction vs with
  | nil => rfl
  | cons v t ih =>
    cases t with
    | nil => rfl
    | cons w t' =>
      show List.zipWith (· + ·) v (vsum (w :: t')) = Comm.vecAdd v (Comm.sumRanks (w :: t'))
      rw [ih]; rfl

def len (s : Sub) : Nat := s.data.length

/-- unflattening the sum of the members' flattened buckets `x.take k` with the own tensors `p` -/
theorem unflatten_vsum (p : List Sub) (k : Nat) (members : List (List Sub)) (hne : members ≠ [])
    (hsh : ∀ x ∈ members, (x.take k).map len = p.map len) :
    unflatten p (vsum (members.map fun x => flatten (x.take k))) = perTensorRec p members := by
  induction p generalizing k members with
  | nil => rfl
  | cons s t ih =>
    have hx : ∀ x ∈ members, ∃ x0 xt k', x = x0 :: xt ∧ k = k' + 1 ∧ x0.data.length = s.data.length ∧
        (xt.take k').map len = t.map len := by
      intro x hxm
      have := hsh x hxm
      cases k with
      | zero => simp at this
      | succ k' =>
        cases x with
        | nil => simp at this
        | cons x0 xt =>
          simp only [List.take_succ_cons, List.map_cons, List.cons.injEq] at this
          exact ⟨x0, xt, k', rfl, rfl, this.1, this.2⟩
    obtain ⟨k', hk⟩ : ∃ k', k = k' + 1 := by
      cases members with
      | nil => exact absurd rfl hne
      | cons x _ =>
        obtain ⟨_, _, k', _, hk, _⟩ := hx x (List.mem_cons_self ..)
        exact ⟨k', hk⟩
    subst hk
    have e1 : (members.map fun x => flatten (x.take (k' + 1)))
        = (members.map fun x => ((x.headD dflt).data, flatten (x.tail.take k'))).map fun q => q.1 ++ q.2 := by
      rw [List.map_map]
      apply List.map_congr_left
      intro x hxm
      obtain ⟨x0, xt, k'', rfl, _, _, _⟩ := hx x hxm
      simp [flatten]
    have hlen : ∀ q ∈ (members.map fun x => ((x.headD dflt).data, flatten (x.tail.take k'))),
        q.1.length = s.data.length := by
      intro q hq
      simp only [List.mem_map] at hq
      obtain ⟨x, hxm, rfl⟩ := hq
      obtain ⟨x0, xt, k'', rfl, _, h0, _⟩ := hx x hxm
      simpa using h0
    have hA : (Comm.sumRanks ((members.map fun x => ((x.headD dflt).data, flatten (x.tail.take k'))).map
        (·.1))).length = s.data.length := by
      apply C08.sumRanks_length _ _ (by simpa using hne)
      intro v hv
      obtain ⟨q, hq, rfl⟩ := List.mem_map.1 hv
      exact hlen q hq
    rw [e1, vsum_eq, C08.sumRanks_append _ _ hlen, unflatten, perTensorRec,
      List.take_left' hA, List.drop_left' hA]
    congr 1
    · rw [vsum_eq]; simp [List.map_map, Function.comp_def]
    · have := ih k' (members.map List.tail) (by simpa using hne) (by
        intro y hy
        simp only [List.mem_map] at hy
        obtain ⟨x, hxm, rfl⟩ := hy
        obtain ⟨x0, xt, k'', rfl, hk, _, h2⟩ := hx x hxm
        have : k'' = k' := by omega
        subst this
        simpa using h2)
      rw [← this, vsum_eq]
      simp [List.map_map, Function.comp_def]

/-! ### the main lemma -/

theorem resultsRec_chunks (L : List Nat) (mine : List Sub) (members : List (List Sub))
    (hL : L.sum = mine.length) (hne : members ≠ [])
    (hsh : ∀ x ∈ members, x.map len = mine.map len) :
    resultsRec (chunks L mine) (members.map (chunks L)) = perTensorRec mine members := by
  induction L generalizing mine members with
  | nil =>
    have : mine = [] := by simpa using hL.symm
    subst this
    rfl
  | cons n t ih =>
    simp only [List.sum_cons] at hL
    have hn : (mine.take n).length = n := by simp; omega
    have ih' := ih (mine.drop n) (members.map (List.drop n)) (by simp; omega) (by simpa using hne) (by
      intro y hy
      simp only [List.mem_map] at hy
      obtain ⟨x, hxm, rfl⟩ := hy
      rw [List.map_drop, List.map_drop, hsh x hxm])
    have hC := unflatten_vsum (mine.take n) n members hne (by
      intro x hxm
      rw [List.map_take, List.map_take, hsh x hxm])
    conv_rhs => rw [← List.take_append_drop n mine]
    rw [perTensorRec_append, hn, ← hC, ← ih']
    simp [chunks, resultsRec, List.map_map, Function.comp_def]

theorem results_eq_perTensor (cap es : Nat) (members : List (List Sub)) (m : Nat)
    (hm : m < members.length)
    (hs : ∀ a ∈ members, ∀ b ∈ members, sameShape a b = true) :
    results cap es members m = perTensor members m := by
  have hmem : members[m] ∈ members := List.getElem_mem hm
  have hne : members ≠ [] := by intro h; simp [h] at hm
  have hshp : ∀ x ∈ members, members[m].map shp = x.map shp :=
    fun x hx => sameShape_shp (hs _ hmem x hx)
  have hbs : (members.map fun subs => split cap es subs [])
      = members.map (chunks ((split cap es members[m] []).map List.length)) :=
    List.map_congr_left fun x hx => split_eq_chunks cap es _ x (hshp x hx)
  have hmine : members.getD m [] = members[m] := by simp [List.getD_eq_getElem?_getD, hm]
  have hmine2 : (members.map (chunks ((split cap es members[m] []).map List.length))).getD m []
      = chunks ((split cap es members[m] []).map List.length) members[m] := by
    simp [List.getD_eq_getElem?_getD, hm]
  unfold results perTensor
  simp only
  rw [hbs, hmine, hmine2, results_rec, ← dflt, perTensor_rec]
  refine resultsRec_chunks _ _ _ ?_ hne ?_
  · have := congrArg List.length (split_flatten_gen cap es members[m] [])
    rw [List.length_flatten] at this
    simpa using this
  · intro x hx
    have := congrArg (List.map Prod.snd) (hshp x hx)
    simp only [List.map_map] at this
    exact this.symm

end KV.CommVL
