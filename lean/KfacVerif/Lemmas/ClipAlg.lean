/- Helper lemmas for C07 (single Mathlib modules may be imported; never `import Mathlib`). -/
import KfacVerif.Model.Alg
import KfacVerif.Model.Spec
import KfacVerif.Lemmas.SpecC05
import Mathlib.Analysis.Real.Sqrt
import Mathlib.Data.Rat.Cast.Order
import Mathlib.Tactic.Positivity
import Mathlib.Tactic.Linarith
import Mathlib.Tactic.FieldSimp
import Mathlib.Tactic.Ring

namespace KV.C07

/-- the clip scale; `S = Σ_layers <V_l, D_l>` -/
noncomputable def nu (kl lr S : ℝ) : ℝ :=
  if S * lr ^ 2 = 0 then 1 else min 1 (Real.sqrt (kl / |S * lr ^ 2|))

/-! ### the real clip scale -/

theorem nu_zero (kl lr S : ℝ) (h : S * lr ^ 2 = 0) : nu kl lr S = 1 := by
  simp [nu, h]

theorem nu_nz (kl lr S : ℝ) (h : S * lr ^ 2 ≠ 0) :
    nu kl lr S = min 1 (Real.sqrt (kl / |S * lr ^ 2|)) := by
  simp [nu, h]

theorem nu_pos' (kl lr S : ℝ) (hk : 0 < kl) : 0 < nu kl lr S := by
  by_cases h : S * lr ^ 2 = 0
  · rw [nu_zero _ _ _ h]; exact one_pos
  · rw [nu_nz _ _ _ h]
    exact lt_min one_pos (Real.sqrt_pos.mpr (div_pos hk (abs_pos.mpr h)))

theorem nu_le_one' (kl lr S : ℝ) : nu kl lr S ≤ 1 := by
  by_cases h : S * lr ^ 2 = 0
  · rw [nu_zero _ _ _ h]
  · rw [nu_nz _ _ _ h]; exact min_le_left _ _

theorem nu_nonneg (kl lr S : ℝ) : 0 ≤ nu kl lr S := by
  by_cases h : S * lr ^ 2 = 0
  · rw [nu_zero _ _ _ h]; exact zero_le_one
  · rw [nu_nz _ _ _ h]; exact le_min zero_le_one (Real.sqrt_nonneg _)

theorem abs_S_lr (lr S : ℝ) : |S * lr ^ 2| = lr ^ 2 * |S| := by
  rw [abs_mul, abs_pow, sq_abs, mul_comm]

theorem nu_bound' (kl lr S : ℝ) (hk : 0 ≤ kl) : nu kl lr S ^ 2 * (lr ^ 2 * |S|) ≤ kl := by
  by_cases h : S * lr ^ 2 = 0
  · rw [nu_zero _ _ _ h, ← abs_S_lr, h]; simpa using hk
  · have hz : 0 < |S * lr ^ 2| := abs_pos.mpr h
    have hx : 0 ≤ kl / |S * lr ^ 2| := div_nonneg hk hz.le
    have h1 : nu kl lr S ^ 2 ≤ kl / |S * lr ^ 2| := by
      calc nu kl lr S ^ 2 ≤ (Real.sqrt (kl / |S * lr ^ 2|)) ^ 2 := by
            apply pow_le_pow_left₀ (nu_nonneg _ _ _)
            rw [nu_nz _ _ _ h]; exact min_le_right _ _
        _ = kl / |S * lr ^ 2| := Real.sq_sqrt hx
    rw [← abs_S_lr]
    calc nu kl lr S ^ 2 * |S * lr ^ 2| ≤ kl / |S * lr ^ 2| * |S * lr ^ 2| :=
          mul_le_mul_of_nonneg_right h1 hz.le
      _ = kl := div_mul_cancel₀ _ hz.ne'

theorem nu_inactive_iff (kl lr S : ℝ) (_hk : 0 < kl) (hs : S * lr ^ 2 ≠ 0) :
    nu kl lr S = 1 ↔ lr ^ 2 * |S| ≤ kl := by
  have hz : 0 < |S * lr ^ 2| := abs_pos.mpr hs
  rw [nu_nz _ _ _ hs, min_eq_left_iff, Real.one_le_sqrt, ← abs_S_lr, one_le_div hz]

/-! ### the rational square -/

theorem min_one_sqrt_sq (x : ℝ) (hx : 0 ≤ x) : (min 1 (Real.sqrt x)) ^ 2 = min 1 x := by
  by_cases h : 1 ≤ x
  · rw [min_eq_left (Real.one_le_sqrt.mpr h), min_eq_left h, one_pow]
  · have h' : x ≤ 1 := (not_le.mp h).le
    rw [min_eq_right (Real.sqrt_le_one.mpr h'), min_eq_right h', Real.sq_sqrt hx]

theorem nuSq_eq (kl lr S : ℚ) :
    KV.Alg.nuSq kl lr S = if S * lr * lr = 0 then 1 else min 1 (kl / |S * lr * lr|) := by
  unfold KV.Alg.nuSq
  simp only [beq_iff_eq]
  split
  · rfl
  · congr 2
    split
    · rw [abs_of_neg (by assumption)]
    · rw [abs_of_nonneg (not_lt.mp (by assumption))]

theorem nuSq_spec' (kl lr S : ℚ) (hk : 0 ≤ kl) :
    ((KV.Alg.nuSq kl lr S : ℚ) : ℝ) = nu (kl : ℝ) (lr : ℝ) (S : ℝ) ^ 2 := by
  rw [nuSq_eq]
  have e : ((S * lr * lr : ℚ) : ℝ) = (S : ℝ) * (lr : ℝ) ^ 2 := by push_cast; ring
  by_cases h : S * lr * lr = 0
  · have h' : (S : ℝ) * (lr : ℝ) ^ 2 = 0 := by rw [← e, h]; simp
    rw [if_pos h, nu_zero _ _ _ h']; simp
  · have h' : (S : ℝ) * (lr : ℝ) ^ 2 ≠ 0 := by
      rw [← e]; exact_mod_cast h
    rw [if_neg h, nu_nz _ _ _ h', min_one_sqrt_sq]
    · rw [← e]; push_cast; rfl
    · exact div_nonneg (by exact_mod_cast hk) (abs_nonneg _)

/-! ### inner product split -/

theorem sumTo_succ (a : ℕ) (f : ℕ → ℚ) : KV.Alg.sumTo (a + 1) f = KV.Alg.sumTo a f + f a := by
  simp [KV.Alg.sumTo, List.range_succ, List.map_append, List.foldl_append]

theorem sumTo_add (g : ℕ) (u v : ℕ → ℚ) :
    KV.Alg.sumTo g (fun i => u i + v i) = KV.Alg.sumTo g u + KV.Alg.sumTo g v := by
  induction g with
  | zero => simp [KV.Alg.sumTo]
  | succ n ih => rw [sumTo_succ, sumTo_succ, sumTo_succ, ih]; ring

theorem inner_split' (g a : ℕ) (V D : KV.Alg.Mat) :
    KV.Alg.inner g (a + 1) V D =
      KV.Alg.inner g a V D + KV.Alg.sumTo g fun i => KV.Alg.ent V i a * KV.Alg.ent D i a := by
  unfold KV.Alg.inner
  rw [← sumTo_add]
  congr 1
  funext i
  exact sumTo_succ a _

/-! ### `Spec.step` only rescales -/

open KV.Precond KV.Spec

theorem map_getD_range {α : Type _} (L : List α) (d : α) (n : ℕ) (h : L.length = n) :
    (List.range n).map (fun l => L.getD l d) = L := by
  subst h
  apply List.ext_getElem
  · simp
  · intro i h1 h2
    simp at h1
    simp [List.getElem?_eq_getElem h1]

/-- the state after the factor/refresh phases of `step` -/
def pre (c : SCfg) (s : SSt) : SSt :=
  stepB c (s.steps % s.hyper.ius.val s.steps == 0) (s.hyper.damping.val s.steps)
    (stepA c (!c.hook && s.steps % s.hyper.fus.val s.steps == 0) (s.hyper.decay.val s.steps) s)

/-- the unclipped preconditioned gradients -/
def unclipped (c : SCfg) (s : SSt) : List V :=
  (idxs c).map fun l => precond c (pre c s) l (s.hyper.damping.val s.steps)

theorem step_out (c : SCfg) (s : SSt) :
    (step c s).out =
      stepOut c (s.hyper.damping.val s.steps) (s.hyper.kl.val s.steps) (s.hyper.lr.val s.steps) (pre c s) := by
  rw [step_eq]; rfl

theorem step_out_noclip (c : SCfg) (s : SSt) :
    (step c { s with hyper := { s.hyper with kl := .const none } }).out = unclipped c s := by
  rw [step_out]
  show stepOut c _ none _ (stepB c _ _ (stepA c _ _ (wh _ s))) = _
  rw [stepA_wh, stepB_wh, stepOut_wh]
  rfl

theorem only_rescales' (c : SCfg) (s : SSt) :
    let vs := (idxs c).map fun l =>
      let s1 := Spec.step c { s with hyper := { s.hyper with kl := .const none } }
      s1.out.getD l .garbage
    (s.hyper.kl.val s.steps = none → (Spec.step c s).out = vs) ∧
    (∀ k, s.hyper.kl.val s.steps = some k → ∃ n, (Spec.step c s).out = vs.map fun v => V.scale n v) := by
  intro vs
  have hvs : vs = unclipped c s := by
    show (idxs c).map (fun l => (Spec.step c _).out.getD l .garbage) = _
    rw [step_out_noclip]
    exact map_getD_range _ _ _ (by simp [unclipped, idxs])
  rw [hvs]
  constructor
  · intro h
    rw [step_out, h]; rfl
  · intro k h
    rw [step_out, h]
    exact ⟨_, rfl⟩

end KV.C07
