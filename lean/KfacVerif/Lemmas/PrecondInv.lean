/-
Invariants of the M-Precond state machine used by C03 (script well-formedness).
(Single Mathlib modules may be imported; never `import Mathlib`.)
-/
import KfacVerif.Lemmas.SchedBase
import KfacVerif.Lemmas.PrecondInv7


namespace KV.C03
open KV KV.Sched2 KV.Precond

/-- what C06 proves of every KAISA assignment, restated for the abstract `Assign` -/
structure CfgOK (c : Cfg) : Prop where
  accum_pos : 0 < c.accum
  workers_lt : ∀ l r, r ∈ c.asg.workers l → r < c.world
  invA_mem : ∀ l, c.asg.invA l ∈ c.asg.workers l
  invG_mem : ∀ l, c.asg.invG l ∈ c.asg.workers l
  recv_lt : ∀ r r', r' ∈ c.asg.recv r → r' < c.world
  src_recv : ∀ r l, r < c.world → c.asg.src r l ∈ c.asg.recv r

def isStep : Op → Bool | .step => true | _ => false
def isTrainPass : Op → Bool | .fwdBwd true => true | _ => false

/-- histories made of whole training iterations: `accum` training passes followed by `step`;
    anything else (eval passes, reset_batch, memory_usage, state_dict, checkpoint round trips,
    scheduler changes) only at iteration boundaries -/
inductive WholeIter (c : Cfg) : List Op → Prop where
  | nil : WholeIter c []
  | iter (rest : List Op) : WholeIter c rest →
      WholeIter c (List.replicate c.accum (.fwdBwd true) ++ .step :: rest)
  | other (op : Op) (rest : List Op) : isStep op = false → isTrainPass op = false →
      WholeIter c rest → WholeIter c (op :: rest)

/-- hyper-parameter schedules never return a zero interval (`steps % 0` is a ZeroDivisionError) -/
def HyperOK (h : Hyper) : Prop := (∀ s, 0 < h.fus.val s) ∧ (∀ s, 0 < h.ius.val s)

def histHyperOK : List Op → Prop
  | [] => True
  | .setHyper h :: t => HyperOK h ∧ histHyperOK t
  | _ :: t => histHyperOK t

def wfAuxS (n : Nat) : List (List Nat) → List GAct → Bool
  | _, [] => true
  | seen, .issue m d :: t =>
    m.all (· < n) && decide (2 ≤ m.length) &&
      (match d.kind with | .broadcast => m.contains d.root | .allreduce => true) &&
      wfAuxS n (seen ++ [m]) t
  | seen, .wait r id :: t => decide (id < seen.length) && (seen.getD id []).contains r && wfAuxS n seen t
  | seen, .stall _ _ :: t => wfAuxS n seen t


/-! ### bridges to the helper development (`KV.PI`, Lemmas/PrecondInv1–5.lean) -/

theorem wfAuxS_eq_wfS (n : Nat) (seen : List (List Nat)) (acts : List GAct) :
    wfAuxS n seen acts = KV.PI.wfS n seen acts := by
  induction acts generalizing seen with
  | nil => rfl
  | cons a t ih =>
    cases a with
    | issue m d => simp only [wfAuxS, KV.PI.wfS, ih]; rfl
    | wait r id => simp only [wfAuxS, KV.PI.wfS, ih]
    | stall r q => simp only [wfAuxS, KV.PI.wfS, ih]

theorem CfgOK.asgOK {c : Cfg} (hc : CfgOK c) : KV.PI.AsgOK c :=
  ⟨hc.workers_lt, hc.invA_mem, hc.invG_mem, hc.recv_lt, hc.src_recv⟩

/-- MAIN LEMMA 1 (all histories): waits follow own issues, members are ranks, roots are members,
    no single-member group communicates -/
theorem script_wf_any (c : Cfg) (hc : CfgOK c) (h : Hyper) (ops : List Op)
    (hne : (run c (Precond.St.init c h) ops).err = none) :
    wfAuxS c.world [] (run c (Precond.St.init c h) ops).acts = true := by
  rw [wfAuxS_eq_wfS]
  exact KV.PI.wfS_run c hc.asgOK h ops

theorem ne_step_of {op : Op} (h : isStep op = false) : op ≠ .step := by
  rintro rfl; simp [isStep] at h

theorem ne_train_of {op : Op} (h : isTrainPass op = false) : op ≠ .fwdBwd true := by
  rintro rfl; simp [isTrainPass] at h

/-- whole iterations lead from boundary to boundary -/
theorem WholeIter.bd {c : Cfg} (hc : CfgOK c) {ops : List Op} (hw : WholeIter c ops) :
    ∀ s, KV.PI.Bd c s → KV.PI.Bd c (run c s ops) := by
  induction hw with
  | nil => intro s h; exact h
  | iter rest _ ih =>
    intro s h
    rw [KV.PI.run_append, KV.PI.run_cons]
    exact ih _ (KV.PI.block_ok hc.asgOK h)
  | other op rest h1 h2 _ ih =>
    intro s h
    rw [KV.PI.run_cons]
    exact ih _ (KV.PI.other_ok hc.asgOK op (ne_step_of h1) (ne_train_of h2) h)

/-- MAIN LEMMA 2 (whole iterations): additionally no getter is reached while its request is queued -/
theorem script_wf_whole (c : Cfg) (hc : CfgOK c) (h : Hyper) (hh : HyperOK h) (ops : List Op)
    (hw : WholeIter c ops) (hho : histHyperOK ops)
    (hne : (run c (Precond.St.init c h) ops).err = none) :
    wf c.world (run c (Precond.St.init c h) ops).acts = true :=
  (hw.bd hc _ (KV.PI.Bd.init c h)).wf

end KV.C03
