/-
M-Precond: the checkpoint round trip restores step count, hyper-parameters and factor values on
every rank (frame reasoning through the getters, the inverse computations and the broadcasts).
Core Lean only.
-/
import KfacVerif.Model.PrecondExt
import KfacVerif.Lemmas.SpecFrames

set_option linter.unusedSimpArgs false

namespace KV.PF
open KV KV.Precond
open KV.Spec (foldl_pres foldl_inv' foldl_estab)

/-! ### `getL` / `setL` -/

/-- cell `(r, l)` exists -/
def InR (s : St) (r l : Nat) : Prop := r < s.ranks.length ∧ l < (s.ranks.getD r []).length

instance (s : St) (r l : Nat) : Decidable (InR s r l) := by unfold InR; infer_instance

theorem getL_setL (s : St) (r l : Nat) (x : LState) (r' l' : Nat) :
    getL (setL s r l x) r' l' = if r' = r ∧ l' = l ∧ InR s r l then x else getL s r' l' := by
  simp only [getL, Precond.setL, InR, List.getD_eq_getElem?_getD, List.getElem?_set]
  by_cases hr : r = r'
  · subst hr
    by_cases hrl : r < s.ranks.length
    · simp only [hrl, if_true, true_and, Option.getD_some, List.getElem?_set]
      by_cases hl : l = l'
      · subst hl
        by_cases hll : l < (s.ranks[r]?.getD []).length
        · simp [hll]
        · simp [hll]
      · have : ¬ l' = l := fun e => hl e.symm
        simp [hl, this]
    · simp [hrl]
  · have : ¬ r' = r := fun e => hr e.symm
    simp [hr, this]

theorem InR_setL (s : St) (r l : Nat) (x : LState) (r' l' : Nat) : InR (setL s r l x) r' l' ↔ InR s r' l' := by
  simp only [InR, Precond.setL, List.length_set, List.getD_eq_getElem?_getD, List.getElem?_set]
  by_cases hr : r = r'
  · subst hr
    by_cases hrl : r < s.ranks.length
    · simp [hrl]
    · simp [hrl]
  · simp [hr]

/-! ### what a round trip must keep -/

def K (x : LState) : Option V × Option V × Option V × Option V :=
  (x.aFactor.map (·.val), x.gFactor.map (·.val), x.aBatch, x.gBatch)

structure Fr (t t' : St) : Prop where
  steps : t'.steps = t.steps
  hyper : t'.hyper = t.hyper
  lay : ∀ r l, K (getL t' r l) = K (getL t r l)

/-- only the script, the counters or the error flag differ -/
structure Rd (t t' : St) : Prop where
  steps : t'.steps = t.steps
  hyper : t'.hyper = t.hyper
  ranks : t'.ranks = t.ranks

theorem Rd.refl (t : St) : Rd t t := ⟨rfl, rfl, rfl⟩

theorem Rd.getL {t t' : St} (h : Rd t t') (r l : Nat) : Precond.getL t' r l = Precond.getL t r l := by
  unfold Precond.getL; rw [h.ranks]

theorem Rd.fr {t t' : St} (h : Rd t t') : Fr t t' := ⟨h.steps, h.hyper, fun r l => by rw [h.getL]⟩

theorem Fr.refl (t : St) : Fr t t := ⟨rfl, rfl, fun _ _ => rfl⟩

theorem Fr.trans {a b c : St} (h : Fr a b) (h' : Fr b c) : Fr a c :=
  ⟨h'.steps.trans h.steps, h'.hyper.trans h.hyper, fun r l => (h'.lay r l).trans (h.lay r l)⟩

theorem Rd.fail {t t' : St} (h : Rd t t') (r : Nat) (w : String) : Rd t (fail t' r w) := by
  unfold Precond.fail
  split
  · exact h
  · exact ⟨h.steps, h.hyper, h.ranks⟩

theorem Rd.read {t s s1 : St} {r : Nat} {sl f : Option Slot} (h : Rd t s) (e : readSlot s r sl = (s1, f)) :
    Rd t s1 ∧ f.map (·.val) = sl.map (·.val) := by
  unfold readSlot at e
  cases sl with
  | none => simp only [Prod.mk.injEq] at e; obtain ⟨rfl, rfl⟩ := e; exact ⟨h, rfl⟩
  | some x =>
    obtain ⟨v, p⟩ := x
    cases p <;> simp only [Prod.mk.injEq] at e <;> obtain ⟨rfl, rfl⟩ := e
    · exact ⟨h, rfl⟩
    · exact ⟨⟨h.steps, h.hyper, h.ranks⟩, rfl⟩
    · exact ⟨⟨h.steps, h.hyper, h.ranks⟩, rfl⟩

/-- conditional getter reads (definitionally the `if` expressions of the model) -/
def readIf (b : Bool) (s : St) (r : Nat) (sl : Option Slot) : St × Option Slot :=
  if b then readSlot s r sl else (s, sl)

theorem Rd.readIf {t s s1 : St} {r : Nat} {sl f : Option Slot} {b : Bool} (h : Rd t s)
    (e : PF.readIf b s r sl = (s1, f)) :
    Rd t s1 ∧ f.map (·.val) = sl.map (·.val) := by
  unfold PF.readIf at e
  split at e
  · exact h.read e
  · simp only [Prod.mk.injEq] at e; obtain ⟨rfl, rfl⟩ := e; exact ⟨h, rfl⟩

theorem Rd.issue {t s s1 : St} {m : List Nat} {d : Desc} {id : Nat} (h : Rd t s) (e : issue s m d = (s1, id)) :
    Rd t s1 := by
  unfold Precond.issue at e
  simp only [Prod.mk.injEq] at e
  obtain ⟨rfl, rfl⟩ := e
  exact ⟨h.steps, h.hyper, h.ranks⟩

theorem Fr.setL {t : St} {r l : Nat} {x : LState} (hx : K x = K (Precond.getL t r l)) :
    Fr t (Precond.setL t r l x) := by
  refine ⟨rfl, rfl, fun r' l' => ?_⟩
  rw [getL_setL]
  split
  · rename_i hh; rw [hh.1, hh.2.1, hx]
  · rfl

/-- a write after some reads -/
theorem Rd.setL {t s : St} (h : Rd t s) {r l : Nat} {x : LState} (hx : K x = K (Precond.getL t r l)) :
    Fr t (Precond.setL s r l x) :=
  h.fr.trans (Fr.setL (by rw [h.getL]; exact hx))

theorem Fr.fold {α : Type} (f : St → α → St) (hf : ∀ t a, Fr t (f t a)) (L : List α) (t : St) :
    Fr t (L.foldl f t) := by
  induction L generalizing t with
  | nil => exact Fr.refl _
  | cons a r ih => simp only [List.foldl_cons]; exact (hf t a).trans (ih _)

theorem Fr.forRanks (c : Cfg) (f : St → Nat → St) (hf : ∀ t a, Fr t (f t a)) (t : St) :
    Fr t (forRanks c t f) := Fr.fold f hf _ t

/-! ### the inverse computations and broadcasts keep factors and batches -/

/-- `rdk h => s1 f h1 hf`: split the outermost `match readSlot .. with | (s1, f) => ..` -/
syntax "rdk " term:max " => " ident ident ident ident : tactic
macro_rules
  | `(tactic| rdk $h => $s1 $f $h1 $hf) => `(tactic|
      (try extract_lets
       split
       rename_i _ $s1:ident $f:ident heq__
       obtain ⟨$h1:ident, $hf:ident⟩ := Rd.read $h heq__
       try extract_lets))

syntax "rdkif " term:max " => " ident ident ident ident : tactic
macro_rules
  | `(tactic| rdkif $h => $s1 $f $h1 $hf) => `(tactic|
      (try extract_lets
       split
       rename_i _ $s1:ident $f:ident heq__
       obtain ⟨$h1:ident, $hf:ident⟩ := Rd.readIf $h heq__
       try extract_lets))

macro "beta_goal" : tactic => `(tactic| try dsimp -zeta -iota only)

theorem Fr.computeAInv (c : Cfg) (s : St) (r l : Nat) (d : Rat) : Fr s (computeAInv c s r l d) := by
  unfold Precond.computeAInv
  extract_lets x
  split
  · exact ((Rd.refl s).fail _ _).fr
  · split
    rename_i s1 f heq
    obtain ⟨h1, hf⟩ := (Rd.refl s).read heq
    extract_lets x1 fv
    split
    · exact h1.setL (by simp +zetaDelta [K, h1.getL, hf])
    · exact h1.setL (by simp +zetaDelta [K, h1.getL, hf])

theorem Fr.computeGInv (c : Cfg) (s : St) (r l : Nat) (d : Rat) : Fr s (computeGInv c s r l d) := by
  unfold Precond.computeGInv
  extract_lets x
  split
  · exact ((Rd.refl s).fail _ _).fr
  · rdk (Rd.refl s) => s1 f h1 hf
    split
    · rdk h1 => s2 da h2 hda
      split
      · exact (h2.fail _ _).fr
      · split
        · exact h2.setL (by simp +zetaDelta [K, h1.getL, h2.getL, hf, hda])
        · exact h2.setL (by simp +zetaDelta [K, h1.getL, h2.getL, hf, hda])
    · exact h1.setL (by simp +zetaDelta [K, h1.getL, hf])

theorem Fr.bcastField (c : Cfg) (s : St) (l src elems : Nat)
    (get : LState → Option Slot) (set : LState → Option Slot → LState)
    (hset : ∀ x o, K (set x o) = K x) : Fr s (bcastField c s l src elems get set) := by
  unfold Precond.bcastField
  extract_lets members
  split
  · exact Fr.refl _
  · split
    rename_i s1 id heq
    have h1 := (Rd.refl s).issue heq
    refine h1.fr.trans (Fr.fold _ (fun t r => ?_) _ _)
    exact Fr.setL (hset _ _)

theorem Fr.bcastA_eigen_body (c : Cfg) (l : Nat) (s : St) (r : Nat) :
    Fr s (
      let src := c.asg.invA l
      let x := getL s r l
      let (s, qa) := readSlot s r x.qa
      let x := { getL s r l with qa := qa }
      let (s, da) := readIf (qa.isSome && !c.prediv) s r x.da
      let x := { getL s r l with qa := qa, da := da }
      if qa.isNone || (!c.prediv && da.isNone) then
        if r == src then Precond.fail s r "broadcast A inv from src that has not computed it" else
        let (s, af) := readSlot s r x.aFactor
        let x := { getL s r l with qa := qa, da := da, aFactor := af }
        if af.isNone then Precond.fail s r "a_factor is None when allocating the receive buffer" else
        Precond.setL s r l { x with qa := some ⟨.garbage, .ready⟩, da := some ⟨.garbage, .ready⟩ }
      else Precond.setL s r l x) := by
  rdk (Rd.refl s) => s1 qa h1 hqa
  rdkif h1 => s2 da h2 hda
  split
  · split
    · exact (h2.fail _ _).fr
    · rdk h2 => s3 af h3 haf
      split
      · exact (h3.fail _ _).fr
      · exact h3.setL (by simp +zetaDelta [K, h1.getL, h2.getL, h3.getL, hqa, hda, haf])
  · exact h2.setL (by simp +zetaDelta [K, h1.getL, h2.getL, hqa, hda])

theorem Fr.bcastA_inv_body (c : Cfg) (l : Nat) (s : St) (r : Nat) :
    Fr s (
      let src := c.asg.invA l
      let x := getL s r l
      let (s, ai) := readSlot s r x.aInv
      let x := { getL s r l with aInv := ai }
      if ai.isNone then
        if r == src then Precond.fail s r "broadcast A inv from src that has not computed it" else
        let (s, af) := readSlot s r x.aFactor
        let x := { getL s r l with aInv := ai, aFactor := af }
        if af.isNone then Precond.fail s r "a_factor is None when allocating the receive buffer" else
        Precond.setL s r l { x with aInv := some ⟨.garbage, .ready⟩ }
      else Precond.setL s r l x) := by
  rdk (Rd.refl s) => s1 ai h1 hai
  split
  · split
    · exact (h1.fail _ _).fr
    · rdk h1 => s3 af h3 haf
      split
      · exact (h3.fail _ _).fr
      · exact h3.setL (by simp +zetaDelta [K, h1.getL, h3.getL, hai, haf])
  · exact h1.setL (by simp +zetaDelta [K, h1.getL, hai])

theorem Fr.broadcastAInv (c : Cfg) (s : St) (l : Nat) : Fr s (broadcastAInv c s l) := by
  unfold Precond.broadcastAInv
  split
  · have h1 := Fr.fold _ (fun s r => Fr.bcastA_eigen_body c l s r) (c.asg.workers l) s
    have h2 := h1.trans (Fr.bcastField c _ l (c.asg.invA l)
      ((c.layers.getD l ⟨0, 0⟩).aDim * (c.layers.getD l ⟨0, 0⟩).aDim)
      (·.qa) (fun x v => { x with qa := v }) (fun _ _ => rfl))
    split
    · exact h2
    · exact h2.trans (Fr.bcastField c _ l (c.asg.invA l) _ (·.da) (fun x v => { x with da := v }) (fun _ _ => rfl))
  · have h1 := Fr.fold _ (fun s r => Fr.bcastA_inv_body c l s r) (c.asg.workers l) s
    exact h1.trans (Fr.bcastField c _ l (c.asg.invA l) _ (·.aInv) (fun x v => { x with aInv := v }) (fun _ _ => rfl))

theorem Fr.bcastG_eigen_body (c : Cfg) (l : Nat) (s : St) (r : Nat) :
    Fr s (
      let src := c.asg.invG l
      let x := getL s r l
      let (s, qg) := readSlot s r x.qg
      let x := { getL s r l with qg := qg }
      let (s, dg) := readIf (qg.isSome && !c.prediv) s r x.dg
      let x := { getL s r l with qg := qg, dg := dg }
      let (s, dgda) := readIf (qg.isSome && c.prediv) s r x.dgda
      let x := { getL s r l with qg := qg, dg := dg, dgda := dgda }
      if qg.isNone || (!c.prediv && dg.isNone) || (c.prediv && dgda.isNone) then
        if r == src then Precond.fail s r "broadcast G inv from src that has not computed it" else
        let (s, gf) := readSlot s r x.gFactor
        let x := { getL s r l with qg := qg, dg := dg, dgda := dgda, gFactor := gf }
        if gf.isNone then Precond.fail s r "g_factor is None when allocating the receive buffer" else
        if c.prediv then
          let (s, af) := readSlot s r x.aFactor
          let x := { getL s r l with qg := qg, dg := dg, dgda := dgda, gFactor := gf, aFactor := af }
          if af.isNone then Precond.fail s r "a_factor is None when allocating the receive buffer" else
          Precond.setL s r l { x with qg := some ⟨.garbage, .ready⟩, dgda := some ⟨.garbage, .ready⟩ }
        else Precond.setL s r l { x with qg := some ⟨.garbage, .ready⟩, dg := some ⟨.garbage, .ready⟩ }
      else Precond.setL s r l x) := by
  rdk (Rd.refl s) => s1 qg h1 hqg
  rdkif h1 => s2 dg h2 hdg
  rdkif h2 => s3 dgda h3 hdgda
  split
  · split
    · exact (h3.fail _ _).fr
    · rdk h3 => s4 gf h4 hgf
      split
      · exact (h4.fail _ _).fr
      · split
        · rdk h4 => s5 af h5 haf
          split
          · exact (h5.fail _ _).fr
          · exact h5.setL (by
              simp +zetaDelta [K, h1.getL, h2.getL, h3.getL, h4.getL, h5.getL, hqg, hdg, hdgda, hgf, haf])
        · exact h4.setL (by simp +zetaDelta [K, h1.getL, h2.getL, h3.getL, h4.getL, hqg, hdg, hdgda, hgf])
  · exact h3.setL (by simp +zetaDelta [K, h1.getL, h2.getL, h3.getL, hqg, hdg, hdgda])

theorem Fr.bcastG_inv_body (c : Cfg) (l : Nat) (s : St) (r : Nat) :
    Fr s (
      let src := c.asg.invG l
      let x := getL s r l
      let (s, gi) := readSlot s r x.gInv
      let x := { getL s r l with gInv := gi }
      if gi.isNone then
        if r == src then Precond.fail s r "broadcast G inv from src that has not computed it" else
        let (s, gf) := readSlot s r x.gFactor
        let x := { getL s r l with gInv := gi, gFactor := gf }
        if gf.isNone then Precond.fail s r "g_factor is None when allocating the receive buffer" else
        Precond.setL s r l { x with gInv := some ⟨.garbage, .ready⟩ }
      else Precond.setL s r l x) := by
  rdk (Rd.refl s) => s1 gi h1 hgi
  split
  · split
    · exact (h1.fail _ _).fr
    · rdk h1 => s3 gf h3 hgf
      split
      · exact (h3.fail _ _).fr
      · exact h3.setL (by simp +zetaDelta [K, h1.getL, h3.getL, hgi, hgf])
  · exact h1.setL (by simp +zetaDelta [K, h1.getL, hgi])

theorem Fr.broadcastGInv (c : Cfg) (s : St) (l : Nat) : Fr s (broadcastGInv c s l) := by
  unfold Precond.broadcastGInv
  split
  · extract_lets src dims g s1 s2
    have h1 : Fr s s1 := Fr.fold _ (fun s r => Fr.bcastG_eigen_body c l s r) (c.asg.workers l) s
    have h2 : Fr s s2 := h1.trans (Fr.bcastField c _ l (c.asg.invG l) _
      (·.qg) (fun x v => { x with qg := v }) (fun _ _ => rfl))
    clear_value s2 s1
    split
    · exact h2.trans (Fr.bcastField c _ l (c.asg.invG l) _ (·.dgda) (fun x v => { x with dgda := v }) (fun _ _ => rfl))
    · exact h2.trans (Fr.bcastField c _ l (c.asg.invG l) _ (·.dg) (fun x v => { x with dg := v }) (fun _ _ => rfl))
  · have h1 := Fr.fold _ (fun s r => Fr.bcastG_inv_body c l s r) (c.asg.workers l) s
    exact h1.trans (Fr.bcastField c _ l (c.asg.invG l) _ (·.gInv) (fun x v => { x with gInv := v }) (fun _ _ => rfl))

/-! ### `state_dict` -/

theorem Fr.saveBody (s : St) (r l : Nat) :
    Fr s (
      let (s, a) := readSlot s r (getL s r l).aFactor
      let s := Precond.setL s r l { getL s r l with aFactor := a }
      let (s, g) := readSlot s r (getL s r l).gFactor
      Precond.setL s r l { getL s r l with gFactor := g }) := by
  split
  rename_i s1 a heq
  obtain ⟨h1, ha⟩ := (Rd.refl s).read heq
  extract_lets x1 s1'
  have e1 : Fr s s1' := h1.setL (by simp +zetaDelta [K, h1.getL, ha])
  clear_value s1' x1
  split
  rename_i s2 g heq2
  obtain ⟨h2, hg⟩ := (Rd.refl s1').read heq2
  exact e1.trans (h2.setL (by simp +zetaDelta [K, h2.getL, hg]))

theorem Fr.saveState (c : Cfg) (s : St) (f : Bool) : Fr s (saveState c s f) := by
  unfold Precond.saveState
  split
  · exact Fr.refl _
  · exact Fr.forRanks c _ (fun t r => Fr.fold _ (fun t l => Fr.saveBody t r l) _ _) _

/-! ### `load_state_dict` in stages -/

def plFresh (c : Cfg) (s : St) : St :=
  { St.init c s.hyper with
    steps := s.steps, pass := s.pass, nIssued := s.nIssued, nextReq := s.nextReq, script := s.script,
    defs := s.defs }

def strip (o : Option Slot) : Option Slot := o.map fun x => { x with pend := .ready }

/-- factors of one cell assigned from the saved state -/
def cp (s1 t : St) (r l : Nat) : St :=
  setL t r l { getL t r l with aFactor := strip (getL s1 r l).aFactor, gFactor := strip (getL s1 r l).gFactor }

def plCopy (c : Cfg) (s1 : St) : St :=
  forRanks c (plFresh c s1) fun t r => (layerIdxs c).foldl (fun t l => cp s1 t r l) t

def plInv (c : Cfg) (damping : Rat) (t : St) : St :=
  (layerIdxs c).foldl (fun t l =>
    let t := forRanks c t fun t r => computeGInv c (computeAInv c t r l damping) r l damping
    if c.asg.bcastInv then broadcastGInv c (broadcastAInv c t l) l else t) t

theorem saveLoad_eq (c : Cfg) (s : St) (f ci : Bool) :
    Precond.saveLoad c s f ci =
      if !f then plFresh c (saveState c s f) else
      if !ci then plCopy c (saveState c s f) else
      plInv c ((plCopy c (saveState c s f)).hyper.damping.val (plCopy c (saveState c s f)).steps)
        (plCopy c (saveState c s f)) :=
  rfl

theorem Fr.plInv (c : Cfg) (d : Rat) (t : St) : Fr t (plInv c d t) := by
  unfold PF.plInv
  refine Fr.fold _ (fun t l => ?_) _ _
  beta_goal
  extract_lets t1
  have h1 : Fr t t1 := Fr.forRanks c _ (fun t r => (Fr.computeAInv c t r l d).trans (Fr.computeGInv c _ r l d)) _
  clear_value t1
  split
  · exact h1.trans ((Fr.broadcastAInv c t1 l).trans (Fr.broadcastGInv c _ l))
  · exact h1

theorem getL_plFresh (c : Cfg) (s : St) (r l : Nat) : getL (plFresh c s) r l = {} := by
  simp only [getL, plFresh, St.init, List.getD_eq_getElem?_getD, List.getElem?_replicate]
  split
  · simp only [Option.getD_some, List.getElem?_replicate]
    split <;> rfl
  · rfl

theorem InR_plFresh (c : Cfg) (s : St) (r l : Nat) (hr : r < c.world) (hl : l < c.layers.length) :
    InR (plFresh c s) r l := by
  simp [InR, plFresh, St.init, hr, hl, List.getD_eq_getElem?_getD, List.getElem?_replicate]

/-- the loaded cell -/
def tgt (s1 : St) (r l : Nat) : LState :=
  { aFactor := strip (getL s1 r l).aFactor, gFactor := strip (getL s1 r l).gFactor }

def CellOK (s1 : St) (r l : Nat) (t : St) : Prop :=
  InR t r l ∧ (getL t r l = {} ∨ getL t r l = tgt s1 r l)

theorem cp_ok (s1 t : St) (r l r' l' : Nat) (h : CellOK s1 r l t) : CellOK s1 r l (cp s1 t r' l') := by
  refine ⟨(InR_setL _ _ _ _ _ _).mpr h.1, ?_⟩
  unfold cp
  rw [getL_setL]
  split
  · rename_i hh
    obtain ⟨rfl, rfl, _⟩ := hh
    right
    rcases h.2 with e | e <;> rw [e] <;> rfl
  · exact h.2

theorem cp_keep (s1 t : St) (r l r' l' : Nat) (h : getL t r l = tgt s1 r l) :
    getL (cp s1 t r' l') r l = tgt s1 r l := by
  unfold cp
  rw [getL_setL]
  split
  · rename_i hh
    obtain ⟨rfl, rfl, _⟩ := hh
    rw [h]; rfl
  · exact h

theorem cp_est (s1 t : St) (r l : Nat) (h : CellOK s1 r l t) : getL (cp s1 t r l) r l = tgt s1 r l := by
  unfold cp
  rw [getL_setL, if_pos ⟨rfl, rfl, h.1⟩]
  rcases h.2 with e | e <;> rw [e] <;> rfl

theorem plCopy_cell (c : Cfg) (s1 : St) (r l : Nat) (hr : r < c.world) (hl : l < c.layers.length) :
    getL (plCopy c s1) r l = tgt s1 r l := by
  unfold plCopy Precond.forRanks
  have hin : ∀ (t : St) (r' : Nat), CellOK s1 r l t →
      CellOK s1 r l ((layerIdxs c).foldl (fun t l => cp s1 t r' l) t) := fun t r' ht =>
    foldl_inv' (CellOK s1 r l) _ (fun t l' ht => cp_ok s1 t r l r' l' ht) _ _ ht
  refine foldl_estab (CellOK s1 r l) (fun t => getL t r l = tgt s1 r l) _ r
    (fun t r' ht => hin t r' ht) (fun t r' _ hp => ?_) (fun t ht => ?_) _ _
    ⟨InR_plFresh c s1 r l hr hl, Or.inl (getL_plFresh c s1 r l)⟩
    (Or.inr (by simp [worldRanks, hr]))
  · exact foldl_inv' (fun t => getL t r l = tgt s1 r l) _ (fun t l' ht => cp_keep s1 t r l r' l' ht) _ _ hp
  · exact foldl_estab (CellOK s1 r l) (fun t => getL t r l = tgt s1 r l) _ l
      (fun t l' ht => cp_ok s1 t r l r l' ht) (fun t l' _ hp => cp_keep s1 t r l r l' hp)
      (fun t ht => cp_est s1 t r l ht) _ _ ht (Or.inr (by simp [layerIdxs, hl]))

theorem plCopy_scalars (c : Cfg) (s1 : St) : (plCopy c s1).steps = s1.steps ∧ (plCopy c s1).hyper = s1.hyper := by
  unfold plCopy Precond.forRanks
  have h : ∀ (t : St) (r : Nat), ((layerIdxs c).foldl (fun t l => cp s1 t r l) t).steps = t.steps ∧
      ((layerIdxs c).foldl (fun t l => cp s1 t r l) t).hyper = t.hyper := fun t r =>
    ⟨foldl_pres St.steps (fun t l => cp s1 t r l) (fun _ _ => rfl) _ _,
     foldl_pres St.hyper (fun t l => cp s1 t r l) (fun _ _ => rfl) _ _⟩
  exact ⟨foldl_pres St.steps _ (fun t r => (h t r).1) _ _, foldl_pres St.hyper _ (fun t r => (h t r).2) _ _⟩

theorem strip_val (o : Option Slot) : (strip o).map (·.val) = o.map (·.val) := by
  cases o <;> rfl

/-- **round trip on every rank** -/
theorem roundtrip (c : Cfg) (s : St) (ci : Bool) (r l : Nat) (hr : r < c.world) (hl : l < c.layers.length) :
    (Precond.saveLoad c s true ci).steps = s.steps ∧ (Precond.saveLoad c s true ci).hyper = s.hyper ∧
    ((getL (Precond.saveLoad c s true ci) r l).aFactor.map (·.val)) = ((getL s r l).aFactor.map (·.val)) ∧
    ((getL (Precond.saveLoad c s true ci) r l).gFactor.map (·.val)) = ((getL s r l).gFactor.map (·.val)) ∧
    (getL (Precond.saveLoad c s true ci) r l).aBatch = none ∧
    (getL (Precond.saveLoad c s true ci) r l).gBatch = none := by
  have h1 := Fr.saveState c s true
  have h2 := plCopy_scalars c (saveState c s true)
  have h3 := plCopy_cell c (saveState c s true) r l hr hl
  have h4 : (Precond.saveLoad c s true ci).steps = (plCopy c (saveState c s true)).steps ∧
      (Precond.saveLoad c s true ci).hyper = (plCopy c (saveState c s true)).hyper ∧
      K (getL (Precond.saveLoad c s true ci) r l) = K (getL (plCopy c (saveState c s true)) r l) := by
    rw [saveLoad_eq]
    simp only [Bool.not_true, Bool.false_eq_true, if_false]
    split
    · exact ⟨rfl, rfl, rfl⟩
    · have h := Fr.plInv c ((plCopy c (saveState c s true)).hyper.damping.val (plCopy c (saveState c s true)).steps)
        (plCopy c (saveState c s true))
      exact ⟨h.steps, h.hyper, h.lay r l⟩
  obtain ⟨h41, h42, h43⟩ := h4
  rw [h3] at h43
  have h5 := h1.lay r l
  simp only [K, tgt, strip_val, Prod.mk.injEq] at h43 h5
  exact ⟨h41.trans (h2.1.trans h1.steps), h42.trans (h2.2.trans h1.hyper), h43.1.trans h5.1,
    h43.2.1.trans h5.2.1, h43.2.2.1, h43.2.2.2⟩

theorem saveLoad_is_loadInto (c : Cfg) (s : St) (f ci : Bool) :
    Precond.saveLoad c s f ci = Precond.loadInto c (Precond.saveState c s f) (Precond.saveState c s f) f ci :=
  rfl

end KV.PF
