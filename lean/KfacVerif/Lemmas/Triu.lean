/- Helper lemmas (single Mathlib modules may be imported; never `import Mathlib`). -/
import KfacVerif.Model.Comm
import KfacVerif.Model.Misc

namespace KV.C14
open KV KV.Comm

def Square (A : Mat) (n : Nat) : Prop := A.length = n ∧ ∀ r ∈ A, r.length = n
def Symm (A : Mat) (n : Nat) : Prop := ∀ i j, i < n → j < n → A.get i j = A.get j i

/-- elementwise sum of a non-empty family of equally shaped matrices (the dense all-reduce) -/
def matSum : List Mat → Mat
  | [] => []
  | [A] => A
  | A :: t => matAdd A (matSum t)

/-! ### triangular-number arithmetic -/

/-- number of entries in rows `0..i-1` of the upper triangle of an `n × n` matrix -/
def off (n : Nat) : Nat → Nat
  | 0 => 0
  | i + 1 => off n i + (n - i)

theorem off_succ (n i : Nat) : off n (i + 1) = off n i + (n - i) := rfl

theorem off_le_succ (n i : Nat) : off n i ≤ off n (i + 1) := by
  rw [off_succ]; omega

theorem off_mono (n : Nat) {a b : Nat} (h : a ≤ b) : off n a ≤ off n b := by
  induction b with
  | zero => have : a = 0 := by omega
            subst this; exact Nat.le_refl _
  | succ b ih =>
    by_cases hab : a = b + 1
    · subst hab; exact Nat.le_refl _
    · exact Nat.le_trans (ih (by omega)) (off_le_succ n b)

/-- `i * (i - 1)` is even -/
theorem pred_mul_even (i : Nat) : i * (i - 1) / 2 * 2 = i * (i - 1) := by
  induction i with
  | zero => rfl
  | succ k ih =>
    cases k with
    | zero => rfl
    | succ m =>
      have e : (m + 1 + 1) * (m + 1 + 1 - 1) = (m + 1) * (m + 1 - 1) + (m + 1) * 2 := by
        simp only [Nat.add_sub_cancel]
        rw [Nat.add_mul (m+1) 1 (m+1), Nat.mul_add (m+1) m 1]; omega
      rw [e, Nat.add_mul_div_right _ _ (by decide : 0 < 2), Nat.add_mul, ih]

theorem two_off (n i : Nat) (h : i ≤ n) : 2 * off n i + i * (i - 1) = 2 * (i * n) := by
  induction i with
  | zero => simp [off]
  | succ k ih =>
    have ih := ih (by omega)
    rw [off_succ]
    simp only [Nat.add_sub_cancel]
    cases k with
    | zero => simp [off]
    | succ m =>
      simp only [Nat.add_sub_cancel] at ih
      have e1 : (m + 1 + 1) * (m + 1) = (m + 1) * m + 2 * (m + 1) := by
        rw [Nat.add_mul (m+1) 1 (m+1), Nat.mul_add (m+1) m 1]; omega
      have e2 : (m + 1 + 1) * n = (m + 1) * n + n := by
        rw [Nat.add_mul (m+1) 1 n]; omega
      rw [e1, e2]
      omega

theorem off_eq (n i : Nat) (h : i ≤ n) : off n i = i * n - i * (i - 1) / 2 := by
  have h1 := two_off n i h
  have h2 := pred_mul_even i
  omega

theorem triuPos_eq (n i j : Nat) (h : i ≤ n) : triuPos n i j = off n i + (j - i) := by
  unfold triuPos; rw [off_eq n i h]

theorem off_self (n : Nat) : off n n = n * (n + 1) / 2 := by
  have h1 := two_off n n (Nat.le_refl _)
  have h2 := pred_mul_even n
  have h3 : n * (n + 1) = n * (n - 1) + 2 * n := by
    cases n with
    | zero => rfl
    | succ m =>
      simp only [Nat.add_sub_cancel]
      rw [Nat.mul_add (m+1) (m+1) 1, Nat.mul_add (m+1) m 1]; omega
  have h4 : n * (n + 1) / 2 = n * (n - 1) / 2 + n := by
    rw [h3, Nat.mul_comm 2 n, Nat.add_mul_div_right _ _ (by decide : 0 < 2)]
  have h5 : n * n = n * (n - 1) + n := by
    cases n with
    | zero => rfl
    | succ m =>
      simp only [Nat.add_sub_cancel]
      rw [Nat.mul_add (m+1) m 1]; omega
  omega

/-! ### packing -/

theorem getD_append_left' (l l' : List Int) (d : Int) (i : Nat) (h : i < l.length) :
    (l ++ l').getD i d = l.getD i d := by
  simp only [List.getD_eq_getElem?_getD, List.getElem?_append_left h]

theorem getD_append_right' (l l' : List Int) (d : Int) (i : Nat) (h : l.length ≤ i) :
    (l ++ l').getD i d = l'.getD (i - l.length) d := by
  simp only [List.getD_eq_getElem?_getD, List.getElem?_append_right h]

theorem length_getTriuAux (n : Nat) : ∀ (rows : List (List Int)) (k : Nat),
    (∀ r ∈ rows, r.length = n) → k + rows.length ≤ n →
    (getTriuAux k rows).length = off n (k + rows.length) - off n k
  | [], k, _, _ => by simp [getTriuAux]
  | r :: t, k, hr, hk => by
    have hlen : r.length = n := hr r (by simp)
    have ih := length_getTriuAux n t (k + 1) (fun r h => hr r (by simp [h]))
      (by simp at hk; omega)
    have m1 := off_succ n k
    have m2 : off n (k + 1) ≤ off n (k + 1 + t.length) := off_mono n (by omega)
    simp only [getTriuAux, List.length_append, List.length_drop, List.length_cons, ih, hlen]
    rw [show k + (t.length + 1) = k + 1 + t.length by omega]
    omega

theorem length_getTriu {A : Mat} {n : Nat} (hA : Square A n) :
    (getTriu A).length = n * (n + 1) / 2 := by
  have := length_getTriuAux n A 0 hA.2 (by rw [hA.1]; omega)
  rw [getTriu, this, hA.1, ← off_self]; simp [off]

theorem getD_getTriuAux (n : Nat) : ∀ (rows : List (List Int)) (k i j : Nat),
    (∀ r ∈ rows, r.length = n) → k + rows.length ≤ n → i < rows.length → k + i ≤ j → j < n →
    (getTriuAux k rows).getD (off n (k + i) - off n k + (j - (k + i))) 0
      = (rows.getD i []).getD j 0
  | [], _, _, _, _, _, hi, _, _ => by simp at hi
  | r :: t, k, 0, j, hr, hk, _, hij, hj => by
    have hlen : r.length = n := hr r (by simp)
    simp only [getTriuAux, Nat.add_zero, Nat.sub_self, Nat.zero_add, List.getD_cons_zero]
    rw [getD_append_left' _ _ _ _ (by simp [hlen]; omega)]
    simp only [List.getD_eq_getElem?_getD, List.getElem?_drop]
    congr 2; omega
  | r :: t, k, i + 1, j, hr, hk, hi, hij, hj => by
    have hlen : r.length = n := hr r (by simp)
    simp only [List.length_cons] at hk hi
    have ih := getD_getTriuAux n t (k + 1) i j (fun r h => hr r (by simp [h]))
      (by omega) (by omega) (by omega) hj
    have m1 := off_succ n k
    have m2 : off n (k + 1) ≤ off n (k + 1 + i) := off_mono n (by omega)
    simp only [getTriuAux, List.getD_cons_succ]
    rw [getD_append_right' _ _ _ _ (by
      simp only [List.length_drop, hlen]
      rw [show k + (i + 1) = k + 1 + i by omega]; omega)]
    rw [← ih]
    congr 1
    simp only [List.length_drop, hlen]
    rw [show k + (i + 1) = k + 1 + i by omega]; omega

theorem getD_getTriu {A : Mat} {n i j : Nat} (hA : Square A n) (hij : i ≤ j) (hj : j < n) :
    (getTriu A).getD (triuPos n i j) 0 = A.get i j := by
  have := getD_getTriuAux n A 0 i j hA.2 (by rw [hA.1]; omega) (by rw [hA.1]; omega)
    (by omega) hj
  rw [triuPos_eq n i j (by omega), getTriu, Mat.get, ← this]
  simp [off]

/-! ### unpacking -/

theorem length_fillTriu (n : Nat) (v : List Int) : (fillTriu n v).length = n := by
  simp [fillTriu]

theorem square_fillTriu (n : Nat) (v : List Int) : Square (fillTriu n v) n := by
  refine ⟨length_fillTriu n v, ?_⟩
  intro r hr
  simp only [fillTriu, List.mem_map] at hr
  obtain ⟨i, _, rfl⟩ := hr
  simp

theorem get_fillTriu (n : Nat) (v : List Int) {i j : Nat} (hi : i < n) (hj : j < n) :
    (fillTriu n v).get i j =
      if i ≤ j then v.getD (triuPos n i j) 0 else v.getD (triuPos n j i) 0 := by
  simp [fillTriu, Mat.get, List.getD_eq_getElem?_getD, hi, hj]

theorem symm_fillTriu (n : Nat) (v : List Int) : Symm (fillTriu n v) n := by
  intro i j hi hj
  rw [get_fillTriu n v hi hj, get_fillTriu n v hj hi]
  by_cases h1 : i ≤ j <;> by_cases h2 : j ≤ i <;> simp [h1, h2]
  · have : i = j := by omega
    subst this; rfl
  · omega

theorem get_eq_getElem {A : Mat} {n i j : Nat} (hA : Square A n) (hi : i < n) (hj : j < n) :
    A.get i j = (A[i]'(by rw [hA.1]; exact hi))[j]'(by
      rw [hA.2 _ (List.getElem_mem _)]; exact hj) := by
  have h1 : i < A.length := by rw [hA.1]; exact hi
  have h2 : j < (A[i]).length := by rw [hA.2 _ (List.getElem_mem _)]; exact hj
  simp [Mat.get, List.getD_eq_getElem?_getD, h1, h2]

theorem fill_get' {A : Mat} {n : Nat} (hA : Square A n) (hS : Symm A n) :
    fillTriu n (getTriu A) = A := by
  apply List.ext_getElem
  · rw [length_fillTriu, hA.1]
  · intro i h1 h2
    have hi : i < n := by rw [length_fillTriu] at h1; exact h1
    have hrow : (A[i]).length = n := hA.2 _ (List.getElem_mem _)
    apply List.ext_getElem
    · rw [(square_fillTriu n _).2 _ (List.getElem_mem _), hrow]
    · intro j h3 h4
      have hj : j < n := by rw [hrow] at h4; exact h4
      rw [← get_eq_getElem (square_fillTriu n _) hi hj, ← get_eq_getElem hA hi hj,
        get_fillTriu n _ hi hj]
      by_cases hij : i ≤ j
      · rw [if_pos hij, getD_getTriu hA hij hj]
      · rw [if_neg hij, getD_getTriu hA (by omega) hi, hS i j hi hj]

/-- row `k` of the unpacked matrix, from the diagonal on, is a slice of `v` -/
theorem fill_row_drop (n : Nat) (v : List Int) (k : Nat) (hk : k < n)
    (hv : off n n ≤ v.length) :
    (((List.range n).map fun j =>
        if k ≤ j then v.getD (triuPos n k j) 0 else v.getD (triuPos n j k) 0).drop k)
      = (v.drop (off n k)).take (n - k) := by
  have m1 := off_succ n k
  have m2 : off n (k + 1) ≤ off n n := off_mono n (by omega)
  apply List.ext_getElem
  · simp only [List.length_drop, List.length_map, List.length_range, List.length_take]
    omega
  · intro t h1 h2
    simp only [List.length_drop, List.length_map, List.length_range] at h1
    simp only [List.getElem_drop, List.getElem_map, List.getElem_range, List.getElem_take]
    rw [if_pos (by omega), triuPos_eq n k _ (by omega), List.getD_eq_getElem?_getD,
      List.getElem?_eq_getElem (by omega)]
    simp only [Option.getD_some]
    congr 1; omega

theorem getTriuAux_fill (n : Nat) (v : List Int) (hv : v.length = off n n) :
    ∀ (m k : Nat), k + m = n →
    getTriuAux k ((List.range' k m).map fun i => (List.range n).map fun j =>
        if i ≤ j then v.getD (triuPos n i j) 0 else v.getD (triuPos n j i) 0)
      = v.drop (off n k)
  | 0, k, h => by
    have : k = n := by omega
    subst this
    simp [getTriuAux, List.drop_eq_nil_iff, hv]
  | m + 1, k, h => by
    have ih := getTriuAux_fill n v hv m (k + 1) (by omega)
    simp only [List.range'_succ, List.map_cons, getTriuAux]
    rw [ih, fill_row_drop n v k (by omega) (by omega), off_succ,
      ← List.drop_drop, List.take_append_drop]

theorem get_fill' {n : Nat} {v : List Int} (hv : v.length = n * (n + 1) / 2) :
    getTriu (fillTriu n v) = v := by
  have := getTriuAux_fill n v (by rw [hv, off_self]) n 0 (by omega)
  rw [List.range_eq_range'] at this
  rw [getTriu, fillTriu, List.range_eq_range', this]
  simp [off]

/-! ### linearity -/

theorem getTriuAux_add (n : Nat) : ∀ (A B : Mat) (k : Nat),
    (∀ r ∈ A, r.length = n) → (∀ r ∈ B, r.length = n) →
    getTriuAux k (matAdd A B) = vecAdd (getTriuAux k A) (getTriuAux k B)
  | [], _, _, _, _ => by simp [matAdd, vecAdd, getTriuAux]
  | _ :: _, [], _, _, _ => by simp [matAdd, vecAdd, getTriuAux]
  | a :: A, b :: B, k, hA, hB => by
    have ha : a.length = n := hA a (by simp)
    have hb : b.length = n := hB b (by simp)
    have ih := getTriuAux_add n A B (k + 1) (fun r h => hA r (by simp [h]))
      (fun r h => hB r (by simp [h]))
    simp only [matAdd, vecAdd] at ih ⊢
    simp only [List.zipWith_cons_cons, getTriuAux, ih]
    rw [List.zipWith_append (by simp [ha, hb]), List.drop_zipWith]

theorem getTriu_add' {A B : Mat} {n : Nat} (hA : Square A n) (hB : Square B n) :
    getTriu (matAdd A B) = vecAdd (getTriu A) (getTriu B) :=
  getTriuAux_add n A B 0 hA.2 hB.2

theorem square_matAdd {A B : Mat} {n : Nat} (hA : Square A n) (hB : Square B n) :
    Square (matAdd A B) n := by
  refine ⟨by simp [matAdd, hA.1, hB.1], ?_⟩
  intro r hr
  obtain ⟨i, hi, rfl⟩ := List.mem_iff_getElem.1 hr
  simp only [matAdd, List.getElem_zipWith, List.length_zipWith]
  rw [hA.2 _ (List.getElem_mem _), hB.2 _ (List.getElem_mem _)]; simp

theorem get_matAdd {A B : Mat} {n i j : Nat} (hA : Square A n) (hB : Square B n)
    (hi : i < n) (hj : j < n) : (matAdd A B).get i j = A.get i j + B.get i j := by
  rw [get_eq_getElem (square_matAdd hA hB) hi hj, get_eq_getElem hA hi hj,
    get_eq_getElem hB hi hj]
  simp [matAdd]

theorem symm_matAdd {A B : Mat} {n : Nat} (hA : Square A n) (hB : Square B n)
    (sA : Symm A n) (sB : Symm B n) : Symm (matAdd A B) n := by
  intro i j hi hj
  rw [get_matAdd hA hB hi hj, get_matAdd hA hB hj hi, sA i j hi hj, sB i j hi hj]

theorem sumRanks_getTriu {n : Nat} : ∀ (Ms : List Mat), Ms ≠ [] →
    (∀ A ∈ Ms, Square A n) → (∀ A ∈ Ms, Symm A n) →
    sumRanks (Ms.map getTriu) = getTriu (matSum Ms) ∧ Square (matSum Ms) n ∧ Symm (matSum Ms) n
  | [], h, _, _ => absurd rfl h
  | [A], _, hsq, hsy => ⟨rfl, hsq A (by simp), hsy A (by simp)⟩
  | A :: B :: t, _, hsq, hsy => by
    obtain ⟨e, q, s⟩ := sumRanks_getTriu (B :: t) (by simp)
      (fun X h => hsq X (by simp [h])) (fun X h => hsy X (by simp [h]))
    have qA := hsq A (by simp)
    have sA := hsy A (by simp)
    refine ⟨?_, square_matAdd qA q, symm_matAdd qA q sA s⟩
    simp only [List.map_cons, sumRanks, matSum] at e ⊢
    rw [e, getTriu_add' qA q]

theorem sym_reduce' {n : Nat} (Ms : List Mat) (hne : Ms ≠ [])
    (hsq : ∀ A ∈ Ms, Square A n) (hsy : ∀ A ∈ Ms, Symm A n) :
    fillTriu n (sumRanks (Ms.map getTriu)) = matSum Ms := by
  obtain ⟨e, q, s⟩ := sumRanks_getTriu Ms hne hsq hsy
  rw [e, fill_get' q s]

/-! ### shape validation -/

theorem checkShape_nonsquare (shape : List Nat) (h : ¬ ∃ n, shape = [n, n]) :
    checkShape shape true = .error .nonSquare := by
  unfold checkShape
  simp only [if_true]
  split
  · rename_i a b
    by_cases hab : a = b
    · subst hab; exact absurd ⟨a, rfl⟩ h
    · simp [hab]
  · rfl

theorem checkShape_square (n : Nat) (sym : Bool) : checkShape [n, n] sym = .ok () := by
  unfold checkShape; cases sym <;> simp

end KV.C14
