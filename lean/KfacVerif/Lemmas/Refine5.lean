/-
Refinement Precond ⟶ Spec, part 5: the inverse phase of one layer ⟷ `Spec.refresh`.
Core Lean only.
-/
import KfacVerif.Lemmas.Refine4

namespace KV.Refine
open KV KV.Precond

/-- the assumptions on the configuration (the fields of `CfgOK2` in Lemmas/Refine.lean) -/
structure CfgOK (c : Cfg) : Prop where
  world_pos : 0 < c.world
  accum_pos : 0 < c.accum
  workers_lt : ∀ l r, r ∈ c.asg.workers l → r < c.world
  invA_mem : ∀ l, c.asg.invA l ∈ c.asg.workers l
  invG_mem : ∀ l, c.asg.invG l ∈ c.asg.workers l
  prediv_coloc : c.prediv = true → ∀ l, c.asg.invA l = c.asg.invG l
  nobi_single : c.asg.bcastInv = false → ∀ l, c.asg.workers l = [c.asg.invA l]
  nobg_all : c.asg.bcastGrad = false → ∀ l r, r < c.world → r ∈ c.asg.workers l
  recv_lt : ∀ r r', r' ∈ c.asg.recv r → r' < c.world
  src_recv : ∀ r l, r < c.world → c.asg.src r l ∈ c.asg.recv r
  src_worker : ∀ r l, r < c.world → c.asg.src r l ∈ c.asg.workers l
  rows : ∀ r, r < c.world → ∃ r0, r0 < c.world ∧ (c.asg.recv r0).head? = some r0 ∧ r ∈ c.asg.recv r0

theorem Eff.at {c s s' K G} (e : Eff c s s' K G) (r l : Nat) [Decidable (K r l)] :
    cell s' r l = if K r l then G r l (cell s r l) else cell s r l := by
  split
  · rename_i h; exact e.hit r l h
  · rename_i h; exact e.miss r l h

/-- the inverse phase of `step()` for one layer -/
def invStep (c : Cfg) (damping : Rat) (s : St) (l : Nat) : St :=
  let s := computeAInv c s (c.asg.invA l) l damping
  let s := if c.asg.bcastInv then broadcastAInv c s l else s
  let s := computeGInv c s (c.asg.invG l) l damping
  if c.asg.bcastInv then broadcastGInv c s l else s

theorem invStep_ok {c d s l} (he : OK (invStep c d s l)) : OK s := by
  unfold invStep at he
  cases hb : c.asg.bcastInv <;> simp only [hb, Bool.false_eq_true, if_false, if_true] at he
  · exact computeAInv_ok (computeGInv_ok he)
  · exact computeAInv_ok (broadcastAInv_ok (computeGInv_ok (broadcastGInv_ok he)))

def refreshL (m : Method) (p : Bool) (d : Rat) (y : Spec.SLayer) : Spec.SLayer :=
  match m with
  | .eigen =>
    if p then
      { y with qa := some (.eigQ (y.aFactor.getD .zero)), qg := some (.eigQ (y.gFactor.getD .zero)),
               dgda := some (.outerInv (.eigD (y.gFactor.getD .zero)) (.eigD (y.aFactor.getD .zero)) d),
               da := none, dg := none }
    else
      { y with qa := some (.eigQ (y.aFactor.getD .zero)), da := some (.eigD (y.aFactor.getD .zero)),
               qg := some (.eigQ (y.gFactor.getD .zero)), dg := some (.eigD (y.gFactor.getD .zero)) }
  | .inverse => { y with aInv := some (.inv (y.aFactor.getD .zero) d), gInv := some (.inv (y.gFactor.getD .zero) d) }

def SOmp (m : Method) (p : Bool) (v : LV) (y : Spec.SLayer) : Prop :=
  match m with
  | .eigen => v.qa = y.qa ∧ v.qg = y.qg ∧ (if p then v.dgda = y.dgda else v.da = y.da ∧ v.dg = y.dg)
  | .inverse => v.aInv = y.aInv ∧ v.gInv = y.gInv

theorem SO_eq (c : Cfg) (v y) : SO c v y = SOmp c.method c.prediv v y := rfl

theorem invSO_true (m : Method) (p : Bool) (d : Rat) (v : Nat → LV) (y : Spec.SLayer) (a g r : Nat)
    (W : List Nat) (hg : g ∈ W) (hr : r ∈ W) (hco : p = true → a = g)
    (hfa : (v a).aFactor = y.aFactor) (hfg : (v g).gFactor = y.gFactor) :
    let c1 := fun x => if x = a then gCA m d (v x) else v x
    let c2 := fun x => if x ∈ W then bcA m p (c1 a) (c1 x) else c1 x
    let c3 := fun x => if x = g then gCG m p d (c2 x) else c2 x
    let c4 := fun x => if x ∈ W then bcG m p (c3 g) (c3 x) else c3 x
    SOmp m p (c4 r) (refreshL m p d y) := by
  intro c1 c2 c3 c4
  have L6 : c4 r = bcG m p (c3 g) (c3 r) := if_pos hr
  have L4 : c3 g = gCG m p d (c2 g) := if_pos rfl
  have L3g : c2 g = bcA m p (c1 a) (c1 g) := if_pos hg
  have L3r : c2 r = bcA m p (c1 a) (c1 r) := if_pos hr
  have L1 : c1 a = gCA m d (v a) := if_pos rfl
  have Lc1g : (c1 g).gFactor = (v g).gFactor := by
    simp only [c1]; split <;> cases m <;> rfl
  have Lc3r : c3 r = c2 r ∨ c3 r = gCG m p d (c2 r) := by
    simp only [c3]; split
    · right; rfl
    · left; rfl
  rw [L6, L4, L3g]
  cases p
  · rcases Lc3r with h | h <;> rw [h, L3r, L1] <;> cases m <;>
      simp [SOmp, bcG, gCG, bcA, gCA, refreshL, hfa, Lc1g, hfg]
  · have := hco rfl
    subst this
    rcases Lc3r with h | h <;> rw [h, L3r, L1] <;> cases m <;>
      simp [SOmp, bcG, gCG, bcA, gCA, refreshL, hfa, hfg]


/-- refreshed second-order data of the reference machine -/
theorem refresh_getS {c : Cfg} {t : Spec.SSt} {l : Nat} (hl : l < t.layers.length) (d : Rat) :
    Spec.getS (Spec.refresh (Spec.ofCfg c) t l d) l = refreshL c.method c.prediv d (Spec.getS t l) := by
  unfold Spec.refresh refreshL
  simp only [Spec.ofCfg]
  cases hm : c.method <;> simp only []
  · by_cases hp : c.prediv = true
    · simp only [hp, if_true]; rw [getS_setS_same hl]
    · simp only [hp, if_false, Bool.false_eq_true]; rw [getS_setS_same hl]
  · rw [getS_setS_same hl]

theorem refresh_getS_ne (c : Cfg) (t : Spec.SSt) {l l' : Nat} (h : l' ≠ l) (d : Rat) :
    Spec.getS (Spec.refresh (Spec.ofCfg c) t l d) l' = Spec.getS t l' := by
  unfold Spec.refresh
  simp only [Spec.ofCfg]
  cases hm : c.method <;> simp only []
  · by_cases hp : c.prediv = true
    · simp only [hp, if_true]; rw [getS_setS_ne _ _ h]
    · simp only [hp, if_false, Bool.false_eq_true]; rw [getS_setS_ne _ _ h]
  · rw [getS_setS_ne _ _ h]

theorem refresh_glob (c : Cfg) (t : Spec.SSt) (l : Nat) (d : Rat) :
    let t' := Spec.refresh (Spec.ofCfg c) t l d
    t'.steps = t.steps ∧ t'.mini = t.mini ∧ t'.pass = t.pass ∧ t'.hyper = t.hyper ∧ t'.defs = t.defs ∧
      t'.out = t.out ∧ t'.layers.length = t.layers.length := by
  unfold Spec.refresh
  simp only [Spec.ofCfg]
  cases hm : c.method <;> simp only []
  · by_cases hp : c.prediv = true <;> simp [hp, Spec.setS]
  · simp [Spec.setS]

/-! ### the fields untouched by the inverse phase -/

def base (v : LV) : Option V × Nat × Option V × Nat × Option V × Option V :=
  (v.aBatch, v.aCount, v.gBatch, v.gCount, v.aFactor, v.gFactor)

def sbase (y : Spec.SLayer) : Option (List V) × Nat × Option (List V) × Nat × Option V × Option V :=
  (y.aBatch, y.aCount, y.gBatch, y.gCount, y.aFactor, y.gFactor)

theorem base_gCA (m d v) : base (gCA m d v) = base v := by cases m <;> rfl
theorem base_gCG (m p d v) : base (gCG m p d v) = base v := by cases m <;> cases p <;> rfl
theorem base_bcA (m p R v) : base (bcA m p R v) = base v := by cases m <;> cases p <;> rfl
theorem base_bcG (m p R v) : base (bcG m p R v) = base v := by cases m <;> cases p <;> rfl
theorem sbase_refreshL (m p d y) : sbase (refreshL m p d y) = sbase y := by cases m <;> cases p <;> rfl

theorem CellRel.of_base {c r l v y v' y'} (h : CellRel c r l v y) (hb : base v' = base v)
    (hs : sbase y' = sbase y) (hso : r ∈ c.asg.workers l → SO c v' y') : CellRel c r l v' y' := by
  simp only [base, sbase, Prod.mk.injEq] at hb hs
  obtain ⟨b1, b2, b3, b4, b5, b6⟩ := hb
  obtain ⟨s1, s2, s3, s4, s5, s6⟩ := hs
  exact ⟨by rw [b1, s1]; exact h.aBatch, by rw [b2, s2]; exact h.aCount, by rw [b3, s3]; exact h.gBatch,
    by rw [b4, s4]; exact h.gCount, by rw [b5, s5]; exact h.aFactor, by rw [b6, s6]; exact h.gFactor, hso⟩

theorem TLay.of_sbase {c y y'} (h : TLay c y) (hs : sbase y' = sbase y) : TLay c y' := by
  simp only [sbase, Prod.mk.injEq] at hs
  obtain ⟨s1, s2, s3, s4, s5, s6⟩ := hs
  exact ⟨by rw [s1]; exact h.aLen, by rw [s3]; exact h.gLen⟩

theorem base_ite (b : Prop) [Decidable b] (v w : LV) (h : base w = base v) :
    base (if b then w else v) = base v := by
  split
  · exact h
  · rfl

theorem invSO_false (m : Method) (p : Bool) (d : Rat) (v : LV) (y : Spec.SLayer)
    (hfa : v.aFactor = y.aFactor) (hfg : v.gFactor = y.gFactor) :
    SOmp m p (gCG m p d (gCA m d v)) (refreshL m p d y) := by
  cases m <;> cases p <;> simp [SOmp, gCG, gCA, refreshL, hfa, hfg]

/-- the inverse phase of one layer ⟷ `Spec.refresh` -/
theorem invStep_rel {c s t} (hc : CfgOK c) (h : Rel c s t) {l : Nat} (hl : l < c.layers.length) (d : Rat)
    (he : OK (invStep c d s l)) :
    Rel c (invStep c d s l) (Spec.refresh (Spec.ofCfg c) t l d) := by
  have ha := hc.invA_mem l
  have hg := hc.invG_mem l
  have haw := hc.workers_lt l _ ha
  have hgw := hc.workers_lt l _ hg
  have htl : l < t.layers.length := by rw [h.tlen]; exact hl
  obtain ⟨hT, hC⟩ := h.lay l hl
  obtain ⟨g1, g2, g3, g4, g5, g6, g7⟩ := refresh_glob c t l d
  unfold invStep at he ⊢
  cases hb : c.asg.bcastInv <;> simp only [hb, Bool.false_eq_true, if_false, if_true] at he ⊢
  · -- no broadcasts: the inverse worker is the only gradient worker
    have hWeq := hc.nobi_single hb l
    have hga : c.asg.invG l = c.asg.invA l := by
      rw [hWeq] at hg; simpa using hg
    rw [hga] at he ⊢
    have o1 := computeGInv_ok he
    have e1 := computeAInv_eff h.shape haw hl d o1
    have e3 := computeGInv_eff e1.shape haw hl d he
    have e := e1.comp e3
    refine h.layer l (e.same.steps.trans (h.steps.trans g1.symm)) (e.same.mini.trans (h.mini.trans g2.symm))
      (e.same.pass.trans (h.pass.trans g3.symm)) (e.same.hyper.trans (h.hyper.trans g4.symm))
      (e.same.defs.trans (h.defs.trans g5.symm)) e.same.outGrads g6 e.shape g7
      (fun r l' hne => e.miss r l' (fun k => hne k.2)) (fun l' hne => refresh_getS_ne c t hne d) ?_
    intro _
    rw [LayRel, refresh_getS htl]
    refine ⟨hT.of_sbase (sbase_refreshL ..), fun r hr => ?_⟩
    have cr := hC r hr
    by_cases hra : r = c.asg.invA l
    · subst hra
      rw [e.hit _ _ ⟨rfl, rfl⟩]
      refine cr.of_base ((base_gCG ..).trans (base_gCA ..)) (sbase_refreshL ..) (fun _ => ?_)
      rw [SO_eq]
      exact invSO_false _ _ _ _ _ cr.aFactor cr.gFactor
    · rw [e.miss _ _ (fun k => hra k.1)]
      refine cr.of_base rfl (sbase_refreshL ..) (fun hw => ?_)
      rw [hWeq] at hw
      exact absurd (by simpa using hw) hra
  · -- with broadcasts
    have o3 := broadcastGInv_ok he
    have o2 := computeGInv_ok o3
    have o1 := broadcastAInv_ok o2
    have e1 := computeAInv_eff h.shape haw hl d o1
    have hroot1 : rootA c.method c.prediv (cell (computeAInv c s (c.asg.invA l) l d) (c.asg.invA l) l) := by
      rw [e1.hit _ _ ⟨rfl, rfl⟩]
      unfold rootA gCA
      cases c.method <;> simp
    have e2 := broadcastAInv_eff e1.shape hl (hc.workers_lt l) ha hroot1 o2
    have e3 := computeGInv_eff e2.shape hgw hl d o3
    have hroot3 : rootG c.method c.prediv
        (cell (computeGInv c (broadcastAInv c (computeAInv c s (c.asg.invA l) l d) l) (c.asg.invG l) l d)
          (c.asg.invG l) l) := by
      rw [e3.hit _ _ ⟨rfl, rfl⟩]
      unfold rootG gCG
      cases c.method <;> cases c.prediv <;> simp
    have e4 := broadcastGInv_eff e3.shape hl (hc.workers_lt l) hg hroot3 he
    generalize computeAInv c s (c.asg.invA l) l d = s1 at *
    generalize broadcastAInv c s1 l = s2 at *
    generalize computeGInv c s2 (c.asg.invG l) l d = s3 at *
    generalize broadcastGInv c s3 l = s4 at *
    have hsame := ((e1.same.trans e2.same).trans e3.same).trans e4.same
    refine h.layer l (hsame.steps.trans (h.steps.trans g1.symm)) (hsame.mini.trans (h.mini.trans g2.symm))
      (hsame.pass.trans (h.pass.trans g3.symm)) (hsame.hyper.trans (h.hyper.trans g4.symm))
      (hsame.defs.trans (h.defs.trans g5.symm)) hsame.outGrads g6 e4.shape g7
      (fun r l' hne => by
        rw [e4.miss r l' (fun k => hne k.2), e3.miss r l' (fun k => hne k.2), e2.miss r l' (fun k => hne k.2),
          e1.miss r l' (fun k => hne k.2)])
      (fun l' hne => refresh_getS_ne c t hne d) ?_
    intro _
    rw [LayRel, refresh_getS htl]
    refine ⟨hT.of_sbase (sbase_refreshL ..), fun r hr => ?_⟩
    have cr := hC r hr
    -- the cells of layer `l` after each phase
    have c1 : ∀ x, cell s1 x l = if x = c.asg.invA l then gCA c.method d (cell s x l) else cell s x l := by
      intro x; rw [e1.at x l]; simp
    have c2 : ∀ x, cell s2 x l = if x ∈ c.asg.workers l then
        bcA c.method c.prediv (cell s1 (c.asg.invA l) l) (cell s1 x l) else cell s1 x l := by
      intro x; rw [e2.at x l]; simp
    have c3 : ∀ x, cell s3 x l = if x = c.asg.invG l then gCG c.method c.prediv d (cell s2 x l) else cell s2 x l := by
      intro x; rw [e3.at x l]; simp
    have c4 : ∀ x, cell s4 x l = if x ∈ c.asg.workers l then
        bcG c.method c.prediv (cell s3 (c.asg.invG l) l) (cell s3 x l) else cell s3 x l := by
      intro x; rw [e4.at x l]; simp
    have hbase : base (cell s4 r l) = base (cell s r l) := by
      rw [c4]
      refine (base_ite _ _ _ (base_bcG ..)).trans ?_
      rw [c3]
      refine (base_ite _ _ _ (base_gCG ..)).trans ?_
      rw [c2]
      refine (base_ite _ _ _ (base_bcA ..)).trans ?_
      rw [c1]
      exact base_ite _ _ _ (base_gCA ..)
    refine cr.of_base hbase (sbase_refreshL ..) (fun hw => ?_)
    rw [SO_eq]
    have key := invSO_true c.method c.prediv d (fun x => cell s x l) (Spec.getS t l)
      (c.asg.invA l) (c.asg.invG l) r (c.asg.workers l) hg hw (fun hp => hc.prediv_coloc hp l)
      (hC _ haw).aFactor (hC _ hgw).gFactor
    rw [c4, c3, c3, c2, c2, c1, c1, c1]
    exact key

end KV.Refine
