/-
Helper lemmas for C17 / C06 about `argminIdx`, `sortBy`, `placeAll`.
(Single Mathlib modules may be imported here; never `import Mathlib`.)
-/
import KfacVerif.Model.Kaisa

namespace KV.Kaisa
open KV

/-! ### argminIdx -/

theorem argminIdx_cons_cons (x y : Nat) (ys : List Nat) :
    argminIdx (x :: y :: ys) =
      if x ≤ (y :: ys).getD (argminIdx (y :: ys)) 0 then 0 else argminIdx (y :: ys) + 1 := by
  rfl

theorem argminIdx_spec : ∀ (l : List Nat), l ≠ [] →
    argminIdx l < l.length ∧
    (∀ j, j < l.length → l.getD (argminIdx l) 0 ≤ l.getD j 0) ∧
    (∀ j, j < argminIdx l → l.getD (argminIdx l) 0 < l.getD j 0)
  | [], h => absurd rfl h
  | [x], _ => by simp [argminIdx]
  | x :: y :: ys, _ => by
    have ih := argminIdx_spec (y :: ys) (by simp)
    rw [argminIdx_cons_cons]
    obtain ⟨h1, h2, h3⟩ := ih
    split
    · rename_i hle
      refine ⟨by simp, ?_, by intro j hj; omega⟩
      intro j hj
      cases j with
      | zero => simp
      | succ j =>
        simp only [List.getD_cons_zero, List.getD_cons_succ]
        have := h2 j (by simpa using hj)
        omega
    · rename_i hle
      refine ⟨by simpa using h1, ?_, ?_⟩
      · intro j hj
        cases j with
        | zero => simp only [List.getD_cons_zero, List.getD_cons_succ]; omega
        | succ j => simp only [List.getD_cons_succ]; exact h2 j (by simpa using hj)
      · intro j hj
        cases j with
        | zero => simp only [List.getD_cons_zero, List.getD_cons_succ]; omega
        | succ j => simp only [List.getD_cons_succ]; exact h3 j (by omega)

theorem getD_map_of_lt {α β} (f : α → β) (l : List α) (j : Nat) (d : β) (d' : α)
    (h : j < l.length) : (l.map f).getD j d = f (l.getD j d') := by
  simp [List.getD_eq_getElem?_getD, h]

theorem getD_mem_of_lt {α} (l : List α) (j : Nat) (d : α) (h : j < l.length) : l.getD j d ∈ l := by
  simp [List.getD_eq_getElem?_getD, h]

theorem exists_getD_of_mem {α} (l : List α) (d : α) {x : α} (h : x ∈ l) :
    ∃ j, j < l.length ∧ l.getD j d = x := by
  obtain ⟨j, hj, rfl⟩ := List.getElem_of_mem h
  exact ⟨j, hj, by simp [List.getD_eq_getElem?_getD, hj]⟩

/-! ### insertBy / sortBy -/

section sort
variable {α : Type _}

theorem insertBy_perm (le : α → α → Bool) (a : α) : ∀ t, (insertBy le a t).Perm (a :: t)
  | [] => .refl _
  | b :: t => by
    simp only [insertBy]; split
    · exact .refl _
    · exact ((insertBy_perm le a t).cons b).trans (.swap a b t)

theorem sortBy_perm (le : α → α → Bool) : ∀ l, (sortBy le l).Perm l
  | [] => .refl _
  | a :: t => (insertBy_perm le a _).trans ((sortBy_perm le t).cons a)

theorem insertBy_sorted (le : α → α → Bool)
    (total : ∀ a b, le a b = false → le b a = true)
    (trans : ∀ a b c, le a b = true → le b c = true → le a c = true) (a : α) :
    ∀ t, t.Pairwise (fun x y => le x y = true) → (insertBy le a t).Pairwise (fun x y => le x y = true)
  | [], _ => by simp [insertBy]
  | b :: t, h => by
    rw [List.pairwise_cons] at h
    simp only [insertBy]; split
    · rename_i hab
      refine List.pairwise_cons.2 ⟨?_, List.pairwise_cons.2 h⟩
      intro x hx
      rcases List.mem_cons.1 hx with rfl | hx
      · exact hab
      · exact trans _ _ _ hab (h.1 x hx)
    · rename_i hab
      refine List.pairwise_cons.2 ⟨?_, insertBy_sorted le total trans a t h.2⟩
      intro x hx
      have hx' := (insertBy_perm le a t).mem_iff.1 hx
      rcases List.mem_cons.1 hx' with rfl | hx'
      · exact total _ _ (by simpa using hab)
      · exact h.1 x hx'

theorem sortBy_sorted (le : α → α → Bool)
    (total : ∀ a b, le a b = false → le b a = true)
    (trans : ∀ a b c, le a b = true → le b c = true → le a c = true) :
    ∀ l, (sortBy le l).Pairwise (fun x y => le x y = true)
  | [] => List.Pairwise.nil
  | a :: t => insertBy_sorted le total trans a _ (sortBy_sorted le total trans t)

theorem filter_insertBy_pos (le : α → α → Bool) (p : α → Bool) (a : α) (hpa : p a = true)
    (h : ∀ b, p b = true → le a b = true) :
    ∀ t, (insertBy le a t).filter p = a :: t.filter p
  | [] => by simp [insertBy, hpa]
  | b :: t => by
    simp only [insertBy]; split
    · simp [List.filter_cons, hpa]
    · rename_i hab
      have hpb : p b = false := by
        cases hb : p b with
        | false => rfl
        | true => exact absurd (h b hb) hab
      simp [hpb, filter_insertBy_pos le p a hpa h t]

theorem filter_insertBy_neg (le : α → α → Bool) (p : α → Bool) (a : α) (hpa : p a = false) :
    ∀ t, (insertBy le a t).filter p = t.filter p
  | [] => by simp [insertBy, hpa]
  | b :: t => by
    simp only [insertBy]; split
    · simp [List.filter_cons, hpa]
    · simp [List.filter_cons, filter_insertBy_neg le p a hpa t]

/-- stability: if `le a b` holds whenever `a`, `b` are both in the class `p`, the class keeps its order -/
theorem filter_sortBy (le : α → α → Bool) (p : α → Bool)
    (h : ∀ a b, p a = true → p b = true → le a b = true) :
    ∀ l, (sortBy le l).filter p = l.filter p
  | [] => rfl
  | a :: t => by
    simp only [sortBy]
    cases hpa : p a with
    | true =>
      rw [filter_insertBy_pos le p a hpa (fun b hb => h a b hpa hb), filter_sortBy le p h t]
      simp [hpa]
    | false =>
      rw [filter_insertBy_neg le p a hpa, filter_sortBy le p h t]
      simp [hpa]

end sort

/-! ### loads -/

theorem length_addLoad (loads : List Nat) (m c : Nat) :
    (addLoad loads m c).length = loads.length := by
  simp [addLoad]

theorem getD_addLoad (loads : List Nat) (m c j : Nat) (hm : m < loads.length) :
    (addLoad loads m c).getD j 0 = if j = m then loads.getD m 0 + c else loads.getD j 0 := by
  unfold addLoad
  simp only [List.getD_eq_getElem?_getD, List.getElem?_set]
  by_cases h : j = m
  · subst h; simp [hm]
  · have : ¬ m = j := fun e => h e.symm
    simp [h, this]

theorem sum_addLoad : ∀ (loads : List Nat) (m c : Nat), m < loads.length →
    (addLoad loads m c).sum = loads.sum + c
  | [], m, c, h => by simp at h
  | x :: xs, 0, c, _ => by simp [addLoad]; omega
  | x :: xs, m+1, c, h => by
    have := sum_addLoad xs m c (by simpa using h)
    simp [addLoad] at this ⊢
    omega

theorem getD_replicate_zero (n j : Nat) : (List.replicate n 0).getD j 0 = 0 := by
  simp only [List.getD_eq_getElem?_getD, List.getElem?_replicate]
  split <;> rfl

theorem loadOf_cons (loads : List Nat) (r : Nat) (g : List Nat) :
    loadOf loads (r :: g) = loads.getD r 0 + loadOf loads g := by
  simp [loadOf]

theorem loadOf_replicate_zero (n : Nat) : ∀ g, loadOf (List.replicate n 0) g = 0
  | [] => rfl
  | r :: g => by rw [loadOf_cons, getD_replicate_zero, loadOf_replicate_zero n g]

theorem loadOf_addLoad_notMem (loads : List Nat) (m c : Nat) (hm : m < loads.length) :
    ∀ g, m ∉ g → loadOf (addLoad loads m c) g = loadOf loads g
  | [], _ => rfl
  | r :: g, h => by
    have hr : r ≠ m := fun e => h (e ▸ List.mem_cons_self ..)
    rw [loadOf_cons, loadOf_cons,
      loadOf_addLoad_notMem loads m c hm g (fun h' => h (List.mem_cons_of_mem _ h')),
      getD_addLoad _ _ _ _ hm, if_neg hr]

theorem loadOf_addLoad_mem (loads : List Nat) (m c : Nat) (hm : m < loads.length) :
    ∀ g, g.Nodup → m ∈ g → loadOf (addLoad loads m c) g = loadOf loads g + c
  | [], _, h => by simp at h
  | r :: g, hnd, h => by
    rw [List.nodup_cons] at hnd
    rw [loadOf_cons, loadOf_cons, getD_addLoad _ _ _ _ hm]
    by_cases e : r = m
    · subst e
      rw [loadOf_addLoad_notMem loads r c hm g hnd.1, if_pos rfl]; omega
    · have hmg : m ∈ g := by
        rcases List.mem_cons.1 h with h | h
        · exact absurd h.symm e
        · exact h
      rw [loadOf_addLoad_mem loads m c hm g hnd.2 hmg, if_neg e]; omega

/-! ### greedy choices -/

theorem minWorker_spec (loads : List Nat) {g : List Nat} (hg : g ≠ []) :
    minWorker loads g ∈ g ∧ ∀ r ∈ g, loads.getD (minWorker loads g) 0 ≤ loads.getD r 0 := by
  have hne : g.map (fun i => loads.getD i 0) ≠ [] := by simpa using hg
  obtain ⟨h1, h2, _⟩ := argminIdx_spec _ hne
  rw [List.length_map] at h1 h2
  unfold minWorker
  refine ⟨getD_mem_of_lt _ _ _ h1, ?_⟩
  intro r hr
  obtain ⟨j, hj, rfl⟩ := exists_getD_of_mem g 0 hr
  have := h2 j hj
  rw [getD_map_of_lt _ _ _ 0 0 h1, getD_map_of_lt _ _ _ 0 0 hj] at this
  exact this

/-- index of the group a layer is sent to when the loads are `loads` -/
def chosenIdx (groups : List (List Nat)) (loads : List Nat) : Nat :=
  argminIdx (groups.map (loadOf loads))

def chosenGroup (groups : List (List Nat)) (loads : List Nat) : List Nat :=
  groups.getD (chosenIdx groups loads) []

theorem chosenIdx_spec {groups : List (List Nat)} (hne : groups ≠ []) (loads : List Nat) :
    chosenIdx groups loads < groups.length ∧
    (∀ j, j < groups.length →
      loadOf loads (groups.getD (chosenIdx groups loads) []) ≤ loadOf loads (groups.getD j [])) ∧
    (∀ j, j < chosenIdx groups loads →
      loadOf loads (groups.getD (chosenIdx groups loads) []) < loadOf loads (groups.getD j [])) := by
  have hne' : groups.map (loadOf loads) ≠ [] := by simpa using hne
  obtain ⟨h1, h2, h3⟩ := argminIdx_spec _ hne'
  rw [List.length_map] at h1 h2
  unfold chosenIdx
  refine ⟨h1, ?_, ?_⟩
  · intro j hj
    have := h2 j hj
    rwa [getD_map_of_lt _ _ _ 0 [] h1, getD_map_of_lt _ _ _ 0 [] hj] at this
  · intro j hj
    have := h3 j hj
    rwa [getD_map_of_lt _ _ _ 0 [] h1, getD_map_of_lt _ _ _ 0 [] (by omega)] at this

theorem chosenGroup_mem {groups : List (List Nat)} (hne : groups ≠ []) (loads : List Nat) :
    chosenGroup groups loads ∈ groups :=
  getD_mem_of_lt _ _ _ (chosenIdx_spec hne loads).1

theorem chosenGroup_min {groups : List (List Nat)} (hne : groups ≠ []) (loads : List Nat) :
    ∀ g ∈ groups, loadOf loads (chosenGroup groups loads) ≤ loadOf loads g := by
  intro g hg
  obtain ⟨j, hj, rfl⟩ := exists_getD_of_mem groups [] hg
  exact (chosenIdx_spec hne loads).2.1 j hj

/-! ### unfolding -/

theorem placeFactors_cons (g loads : List Nat) (f : String) (c : Nat) (t : List (String × Nat)) :
    placeFactors g loads ((f, c) :: t) =
      ((placeFactors g (addLoad loads (minWorker loads g) c) t).1,
        (f, minWorker loads g, c) :: (placeFactors g (addLoad loads (minWorker loads g) c) t).2) := rfl

theorem placeAll_cons (groups : List (List Nat)) (col : Bool) (loads : List Nat)
    (l : String × List (String × Nat)) (t : List (String × List (String × Nat))) :
    placeAll groups col loads (l :: t) =
      ((placeAll groups col (placeLayer groups col loads l).1 t).1,
        (placeLayer groups col loads l).2 :: (placeAll groups col (placeLayer groups col loads l).1 t).2) := rfl

theorem placeLayer_fst (groups : List (List Nat)) (col : Bool) (loads : List Nat)
    (l : String × List (String × Nat)) :
    (placeLayer groups col loads l).1 =
      if col then addLoad loads (minWorker loads (chosenGroup groups loads)) (sumCosts l.2)
      else (placeFactors (chosenGroup groups loads) loads (sortedFactors l.2)).1 := by
  cases col <;> rfl

theorem placeLayer_snd (groups : List (List Nat)) (col : Bool) (loads : List Nat)
    (l : String × List (String × Nat)) :
    (placeLayer groups col loads l).2 =
      { layer := l.1, groupIdx := chosenIdx groups loads, loadsBefore := loads,
        items := if col then l.2.map (fun fc => (fc.1, minWorker loads (chosenGroup groups loads), fc.2))
                 else (placeFactors (chosenGroup groups loads) loads (sortedFactors l.2)).2 } := by
  cases col <;> rfl

theorem sumCosts_cons (f : String) (c : Nat) (t : List (String × Nat)) :
    sumCosts ((f, c) :: t) = c + sumCosts t := by simp [sumCosts]

theorem sumCosts_sortedFactors (fs : List (String × Nat)) : sumCosts (sortedFactors fs) = sumCosts fs := by
  unfold sumCosts sortedFactors
  exact ((sortBy_perm factorLe fs).map _).sum_nat

/-! ### one step: load is added inside one group only -/

structure StepOK (g : List Nat) (T : Nat) (loads loads' : List Nat) : Prop where
  len : loads'.length = loads.length
  sum : loads'.sum = loads.sum + T
  own : loadOf loads' g = loadOf loads g + T
  other : ∀ g', (∀ x ∈ g, x ∉ g') → loadOf loads' g' = loadOf loads g'

theorem StepOK.refl (g loads : List Nat) : StepOK g 0 loads loads :=
  ⟨rfl, rfl, rfl, fun _ _ => rfl⟩

theorem StepOK.trans {g : List Nat} {a b : Nat} {l0 l1 l2 : List Nat}
    (h1 : StepOK g a l0 l1) (h2 : StepOK g b l1 l2) : StepOK g (a + b) l0 l2 :=
  ⟨h2.len.trans h1.len, by rw [h2.sum, h1.sum]; omega, by rw [h2.own, h1.own]; omega,
   fun g' hd => (h2.other g' hd).trans (h1.other g' hd)⟩

theorem stepOK_addLoad {g loads : List Nat} (hg : g ≠ []) (hnd : g.Nodup)
    (hlt : ∀ r ∈ g, r < loads.length) (c : Nat) :
    StepOK g c loads (addLoad loads (minWorker loads g) c) := by
  have hm := (minWorker_spec loads hg).1
  have hml := hlt _ hm
  exact ⟨length_addLoad _ _ _, sum_addLoad _ _ _ hml, loadOf_addLoad_mem _ _ _ hml g hnd hm,
    fun g' hd => loadOf_addLoad_notMem _ _ _ hml g' (hd _ hm)⟩

theorem placeFactors_stepOK {g : List Nat} (hg : g ≠ []) (hnd : g.Nodup) :
    ∀ (fs : List (String × Nat)) (loads : List Nat), (∀ r ∈ g, r < loads.length) →
      StepOK g (sumCosts fs) loads (placeFactors g loads fs).1
  | [], loads, _ => StepOK.refl g loads
  | (f, c) :: t, loads, hlt => by
    rw [placeFactors_cons, sumCosts_cons]
    have h1 := stepOK_addLoad hg hnd hlt c
    exact h1.trans (placeFactors_stepOK hg hnd t _ (by rw [h1.len]; exact hlt))

/-! ### well-formed groups and the two balance invariants -/

def GDisj (groups : List (List Nat)) : Prop :=
  ∀ g ∈ groups, ∀ g' ∈ groups, g = g' ∨ ∀ r ∈ g, r ∉ g'

theorem gdisj_of_pairwise : ∀ (groups : List (List Nat)),
    groups.Pairwise (fun a b => ∀ r, r ∈ a → r ∉ b) → GDisj groups
  | [], _ => by intro g hg; simp at hg
  | a :: t, h => by
    rw [List.pairwise_cons] at h
    have ih := gdisj_of_pairwise t h.2
    intro g hg g' hg'
    rcases List.mem_cons.1 hg with e1 | m1 <;> rcases List.mem_cons.1 hg' with e2 | m2
    · left; rw [e1, e2]
    · right; rw [e1]; exact h.1 g' m2
    · right; rw [e2]; intro r hr hr'; exact h.1 g m1 r hr' hr
    · exact ih g m1 g' m2

structure GroupsWF (groups : List (List Nat)) (n : Nat) : Prop where
  ne : groups ≠ []
  gne : ∀ g ∈ groups, g ≠ []
  lt : ∀ g ∈ groups, ∀ r ∈ g, r < n
  nodup : ∀ g ∈ groups, g.Nodup
  disj : GDisj groups

theorem GroupsWF.of_fields {groups : List (List Nat)} {n : Nat} (ne : groups ≠ [])
    (gne : ∀ g ∈ groups, g ≠ []) (lt : ∀ g ∈ groups, ∀ r ∈ g, r < n)
    (nodup : ∀ g ∈ groups, g.Nodup)
    (disj : groups.Pairwise (fun a b => ∀ r, r ∈ a → r ∉ b)) : GroupsWF groups n :=
  ⟨ne, gne, lt, nodup, gdisj_of_pairwise groups disj⟩

def WInv (groups : List (List Nat)) (loads : List Nat) (M : Nat) : Prop :=
  ∀ g ∈ groups, ∀ a ∈ g, ∀ b ∈ g, loads.getD a 0 ≤ loads.getD b 0 + M

def GInv (groups : List (List Nat)) (loads : List Nat) (M : Nat) : Prop :=
  ∀ g ∈ groups, ∀ g' ∈ groups, loadOf loads g ≤ loadOf loads g' + M

theorem winv_addLoad {groups : List (List Nat)} {loads : List Nat} {M c : Nat} {g : List Nat}
    (hd : GDisj groups) (hg : g ∈ groups) (hgne : g ≠ []) (hlt : ∀ r ∈ g, r < loads.length)
    (hc : c ≤ M) (h : WInv groups loads M) :
    WInv groups (addLoad loads (minWorker loads g) c) M := by
  obtain ⟨hm, hmin⟩ := minWorker_spec loads hgne
  have hml := hlt _ hm
  intro g' hg' a ha b hb
  rw [getD_addLoad _ _ _ _ hml, getD_addLoad _ _ _ _ hml]
  rcases hd g hg g' hg' with rfl | hdis
  · have h1 := h g hg a ha b hb
    have h2 := hmin b hb
    have h3 := h g hg a ha _ hm
    split <;> split <;> omega
  · have hm' := hdis _ hm
    have ha' : a ≠ minWorker loads g := fun e => hm' (e ▸ ha)
    have hb' : b ≠ minWorker loads g := fun e => hm' (e ▸ hb)
    rw [if_neg ha', if_neg hb']
    exact h g' hg' a ha b hb

theorem winv_placeFactors {groups : List (List Nat)} {M : Nat} {g : List Nat}
    (hd : GDisj groups) (hg : g ∈ groups) (hgne : g ≠ []) :
    ∀ (fs : List (String × Nat)) (loads : List Nat), (∀ r ∈ g, r < loads.length) →
      (∀ f ∈ fs, f.2 ≤ M) → WInv groups loads M → WInv groups (placeFactors g loads fs).1 M
  | [], _, _, _, h => h
  | (f, c) :: t, loads, hlt, hM, h => by
    rw [placeFactors_cons]
    refine winv_placeFactors hd hg hgne t _ (by rw [length_addLoad]; exact hlt)
      (fun f hf => hM f (List.mem_cons_of_mem _ hf)) ?_
    exact winv_addLoad hd hg hgne hlt (hM (f, c) (List.mem_cons_self ..)) h

theorem ginv_step {groups : List (List Nat)} {loads loads' : List Nat} {M T : Nat} {g : List Nat}
    (hd : GDisj groups) (hg : g ∈ groups) (hmin : ∀ g' ∈ groups, loadOf loads g ≤ loadOf loads g')
    (hs : StepOK g T loads loads') (hT : T ≤ M) (h : GInv groups loads M) :
    GInv groups loads' M := by
  intro g1 hg1 g2 hg2
  have e1 : loadOf loads' g1 = loadOf loads g1 + (if g = g1 then T else 0) := by
    rcases hd g hg g1 hg1 with rfl | hdis
    · rw [if_pos rfl]; exact hs.own
    · by_cases e : g = g1
      · subst e; rw [if_pos rfl]; exact hs.own
      · rw [if_neg e]; exact hs.other g1 hdis
  have e2 : loadOf loads' g2 = loadOf loads g2 + (if g = g2 then T else 0) := by
    rcases hd g hg g2 hg2 with rfl | hdis
    · rw [if_pos rfl]; exact hs.own
    · by_cases e : g = g2
      · subst e; rw [if_pos rfl]; exact hs.own
      · rw [if_neg e]; exact hs.other g2 hdis
  rw [e1, e2]
  have h1 := h g1 hg1 g2 hg2
  have h2 := hmin g2 hg2
  have h3 := h g1 hg1 g hg
  by_cases c1 : g = g1 <;> by_cases c2 : g = g2
  · subst c1; subst c2; simp
  · subst c1; rw [if_pos rfl, if_neg c2]; omega
  · subst c2; rw [if_neg c1, if_pos rfl]; omega
  · rw [if_neg c1, if_neg c2]; omega

/-- the bound on single items used by the worker balance -/
def ItemLe (col : Bool) (M : Nat) (l : String × List (String × Nat)) : Prop :=
  if col then sumCosts l.2 ≤ M else ∀ f ∈ l.2, f.2 ≤ M

theorem placeLayer_stepOK {groups : List (List Nat)} {n : Nat} (wf : GroupsWF groups n) (col : Bool)
    (loads : List Nat) (hlen : loads.length = n) (l : String × List (String × Nat)) :
    StepOK (chosenGroup groups loads) (sumCosts l.2) loads (placeLayer groups col loads l).1 := by
  have hg := chosenGroup_mem wf.ne loads
  have hlt : ∀ r ∈ chosenGroup groups loads, r < loads.length := by
    rw [hlen]; exact wf.lt _ hg
  rw [placeLayer_fst]
  cases col with
  | true => exact stepOK_addLoad (wf.gne _ hg) (wf.nodup _ hg) hlt _
  | false =>
    have := placeFactors_stepOK (wf.gne _ hg) (wf.nodup _ hg) (sortedFactors l.2) loads hlt
    rw [sumCosts_sortedFactors] at this
    exact this

theorem winv_placeLayer {groups : List (List Nat)} {n : Nat} (wf : GroupsWF groups n) (col : Bool)
    (loads : List Nat) (hlen : loads.length = n) (l : String × List (String × Nat)) {M : Nat}
    (hM : ItemLe col M l) (h : WInv groups loads M) :
    WInv groups (placeLayer groups col loads l).1 M := by
  have hg := chosenGroup_mem wf.ne loads
  have hlt : ∀ r ∈ chosenGroup groups loads, r < loads.length := by
    rw [hlen]; exact wf.lt _ hg
  rw [placeLayer_fst]
  cases col with
  | true => exact winv_addLoad wf.disj hg (wf.gne _ hg) hlt hM h
  | false =>
    refine winv_placeFactors wf.disj hg (wf.gne _ hg) _ loads hlt ?_ h
    intro f hf
    exact hM f ((sortBy_perm factorLe l.2).mem_iff.1 hf)

theorem placeAll_spec {groups : List (List Nat)} {n : Nat} (wf : GroupsWF groups n) (col : Bool) :
    ∀ (layers : List (String × List (String × Nat))) (loads : List Nat), loads.length = n →
      (placeAll groups col loads layers).1.length = n ∧
      (placeAll groups col loads layers).1.sum
        = loads.sum + (layers.map (fun l => sumCosts l.2)).sum ∧
      (∀ M, (∀ l ∈ layers, ItemLe col M l) → WInv groups loads M →
        WInv groups (placeAll groups col loads layers).1 M) ∧
      (∀ M, (∀ l ∈ layers, sumCosts l.2 ≤ M) → GInv groups loads M →
        GInv groups (placeAll groups col loads layers).1 M)
  | [], loads, hlen => ⟨hlen, by simp [placeAll], fun _ _ h => h, fun _ _ h => h⟩
  | l :: t, loads, hlen => by
    have hs := placeLayer_stepOK wf col loads hlen l
    obtain ⟨i1, i2, i3, i4⟩ := placeAll_spec wf col t (placeLayer groups col loads l).1
      (hs.len.trans hlen)
    rw [placeAll_cons]
    refine ⟨i1, ?_, ?_, ?_⟩
    · rw [i2, hs.sum]; simp; omega
    · intro M hM h
      exact i3 M (fun l' hl' => hM l' (List.mem_cons_of_mem _ hl'))
        (winv_placeLayer wf col loads hlen l (hM l (List.mem_cons_self ..)) h)
    · intro M hM h
      exact i4 M (fun l' hl' => hM l' (List.mem_cons_of_mem _ hl'))
        (ginv_step wf.disj (chosenGroup_mem wf.ne loads) (chosenGroup_min wf.ne loads) hs
          (hM l (List.mem_cons_self ..)) h)

theorem le_foldl_max : ∀ (xs : List Nat) (init : Nat),
    init ≤ xs.foldl max init ∧ ∀ x ∈ xs, x ≤ xs.foldl max init
  | [], init => ⟨Nat.le_refl _, by simp⟩
  | y :: ys, init => by
    simp only [List.foldl_cons]
    obtain ⟨h1, h2⟩ := le_foldl_max ys (max init y)
    refine ⟨by omega, ?_⟩
    intro x hx
    rcases List.mem_cons.1 hx with rfl | hx
    · omega
    · exact h2 x hx

theorem le_foldl_max_map {α} (f : α → Nat) {l : List α} {a : α} (h : a ∈ l) :
    f a ≤ (l.map f).foldl max 0 :=
  (le_foldl_max _ 0).2 _ (List.mem_map_of_mem h)

theorem winv_zero (groups : List (List Nat)) (n M : Nat) : WInv groups (List.replicate n 0) M := by
  intro g _ a _ b _
  rw [getD_replicate_zero, getD_replicate_zero]; omega

theorem ginv_zero (groups : List (List Nat)) (n M : Nat) : GInv groups (List.replicate n 0) M := by
  intro g _ g' _
  rw [loadOf_replicate_zero, loadOf_replicate_zero]; omega

/-- worker balance from zero loads -/
theorem worker_balance_zero {groups : List (List Nat)} {n : Nat} (wf : GroupsWF groups n)
    (col : Bool) (layers : List (String × List (String × Nat))) :
    ∀ g ∈ groups, ∀ a ∈ g, ∀ b ∈ g,
      ((placeAll groups col (List.replicate n 0) layers).1).getD a 0
        ≤ ((placeAll groups col (List.replicate n 0) layers).1).getD b 0 +
          (if col then (layers.map (fun l => sumCosts l.2)).foldl max 0
           else (layers.map (fun l => (l.2.map (·.2)).foldl max 0)).foldl max 0) := by
  refine (placeAll_spec wf col layers _ (by simp)).2.2.1 _ ?_ (winv_zero _ _ _)
  intro l hl
  unfold ItemLe
  cases col with
  | true => exact le_foldl_max_map (fun l => sumCosts l.2) hl
  | false =>
    intro f hf
    have h1 : f.2 ≤ (l.2.map (·.2)).foldl max 0 := le_foldl_max_map (·.2) hf
    have h2 := le_foldl_max_map (fun l : String × List (String × Nat) => (l.2.map (·.2)).foldl max 0) hl
    exact Nat.le_trans h1 h2

theorem group_balance_zero {groups : List (List Nat)} {n : Nat} (wf : GroupsWF groups n)
    (col : Bool) (layers : List (String × List (String × Nat))) :
    ∀ g ∈ groups, ∀ g' ∈ groups,
      loadOf (placeAll groups col (List.replicate n 0) layers).1 g
        ≤ loadOf (placeAll groups col (List.replicate n 0) layers).1 g' +
          (layers.map (fun l => sumCosts l.2)).foldl max 0 :=
  (placeAll_spec wf col layers _ (by simp)).2.2.2 _
    (fun _ hl => le_foldl_max_map (fun l => sumCosts l.2) hl) (ginv_zero _ _ _)

theorem loads_conserved_zero {groups : List (List Nat)} {n : Nat} (wf : GroupsWF groups n)
    (col : Bool) (layers : List (String × List (String × Nat))) :
    ((placeAll groups col (List.replicate n 0) layers).1).sum
      = (layers.map (fun l => sumCosts l.2)).sum := by
  rw [(placeAll_spec wf col layers _ (by simp)).2.1]; simp

/-! ### sortedLayers -/

theorem sortedLayers_perm (work : Work) : (sortedLayers work).Perm work :=
  sortBy_perm _ work

theorem mem_sortedLayers {work : Work} {l : String × List (String × Nat)} :
    l ∈ sortedLayers work ↔ l ∈ work := (sortedLayers_perm work).mem_iff

theorem nodup_sortedLayers_names {work : Work} (h : (work.map (·.1)).Nodup) :
    ((sortedLayers work).map (·.1)).Nodup :=
  (((sortedLayers_perm work).map (·.1)).nodup_iff).2 h

theorem sortedLayers_sorted (work : Work) :
    (sortedLayers work).Pairwise (fun a b => sumCosts a.2 ≥ sumCosts b.2) := by
  have := sortBy_sorted (fun a b : String × List (String × Nat) => decide (sumCosts a.2 ≥ sumCosts b.2))
    (by intro a b h; simp at h ⊢; omega)
    (by intro a b c h1 h2; simp at h1 h2 ⊢; omega) work
  exact this.imp (by intro a b h; simpa using h)

theorem sortedLayers_stable (work : Work) (c : Nat) :
    (sortedLayers work).filter (fun l => sumCosts l.2 == c)
      = work.filter (fun l => sumCosts l.2 == c) :=
  filter_sortBy _ _ (by intro a b ha hb; simp at ha hb ⊢; omega) work

/-! ### the placement records -/

theorem placeAll_layers (groups : List (List Nat)) (col : Bool) :
    ∀ (layers : List (String × List (String × Nat))) (loads : List Nat),
      (placeAll groups col loads layers).2.map (·.layer) = layers.map (·.1)
  | [], _ => rfl
  | l :: t, loads => by
    rw [placeAll_cons, List.map_cons, List.map_cons, placeAll_layers groups col t, placeLayer_snd]

theorem mem_placeAll (groups : List (List Nat)) (col : Bool) :
    ∀ (layers : List (String × List (String × Nat))) (loads : List Nat) (p : Placement),
      p ∈ (placeAll groups col loads layers).2 →
        ∃ loads' l, l ∈ layers ∧ p = (placeLayer groups col loads' l).2
  | [], _, p, h => by simp [placeAll] at h
  | l :: t, loads, p, h => by
    rw [placeAll_cons] at h
    rcases List.mem_cons.1 h with e | h
    · exact ⟨loads, l, List.mem_cons_self .., e⟩
    · obtain ⟨loads', l', hl', e⟩ := mem_placeAll groups col t _ p h
      exact ⟨loads', l', List.mem_cons_of_mem _ hl', e⟩

theorem group_choice {groups : List (List Nat)} {col : Bool} {loads : List Nat}
    {layers : List (String × List (String × Nat))} (hne : groups ≠ [])
    {p : Placement} (hp : p ∈ (placeAll groups col loads layers).2) :
    p.groupIdx < groups.length ∧
    (∀ j, j < groups.length →
        loadOf p.loadsBefore (groups.getD p.groupIdx []) ≤ loadOf p.loadsBefore (groups.getD j [])) ∧
    (∀ j, j < p.groupIdx →
        loadOf p.loadsBefore (groups.getD p.groupIdx []) < loadOf p.loadsBefore (groups.getD j [])) := by
  obtain ⟨loads', l, _, rfl⟩ := mem_placeAll groups col layers loads p hp
  rw [placeLayer_snd]
  exact chosenIdx_spec hne loads'

theorem find_placeAll (groups : List (List Nat)) (col : Bool) :
    ∀ (layers : List (String × List (String × Nat))) (loads : List Nat)
      (l : String × List (String × Nat)), (layers.map (·.1)).Nodup → l ∈ layers →
        ∃ loads', (placeAll groups col loads layers).2.find? (fun p => p.layer == l.1)
          = some (placeLayer groups col loads' l).2
  | [], _, _, _, h => by simp at h
  | l0 :: t, loads, l, hnd, hl => by
    rw [List.map_cons, List.nodup_cons] at hnd
    rw [placeAll_cons]
    rcases List.mem_cons.1 hl with rfl | hl
    · refine ⟨loads, ?_⟩
      rw [List.find?_cons_of_pos]
      rw [placeLayer_snd]; simp
    · have hne : l0.1 ≠ l.1 := fun e => hnd.1 (e ▸ List.mem_map_of_mem hl)
      obtain ⟨loads', h⟩ := find_placeAll groups col t (placeLayer groups col loads l0).1 l hnd.2 hl
      refine ⟨loads', ?_⟩
      rw [List.find?_cons_of_neg]
      · exact h
      · rw [placeLayer_snd]; simpa using hne

theorem lookupPlacement_eq (groups : List (List Nat)) (col : Bool)
    {layers : List (String × List (String × Nat))} (loads : List Nat)
    {l : String × List (String × Nat)} (hnd : (layers.map (·.1)).Nodup) (hl : l ∈ layers) :
    ∃ loads', ∀ f, lookupPlacement (placeAll groups col loads layers).2 l.1 f
      = ((placeLayer groups col loads' l).2.items.find? (fun it => it.1 == f)).map (·.2.1) := by
  obtain ⟨loads', h⟩ := find_placeAll groups col layers loads l hnd hl
  refine ⟨loads', fun f => ?_⟩
  unfold lookupPlacement
  rw [h]

theorem placeFactors_items_names (g : List Nat) :
    ∀ (fs : List (String × Nat)) (loads : List Nat),
      (placeFactors g loads fs).2.map (·.1) = fs.map (·.1)
  | [], _ => rfl
  | (f, c) :: t, loads => by
    rw [placeFactors_cons, List.map_cons, List.map_cons, placeFactors_items_names g t]

theorem placeFactors_items_mem {g : List Nat} (hg : g ≠ []) :
    ∀ (fs : List (String × Nat)) (loads : List Nat),
      ∀ it ∈ (placeFactors g loads fs).2, it.2.1 ∈ g
  | [], _, it, h => by simp [placeFactors] at h
  | (f, c) :: t, loads, it, h => by
    rw [placeFactors_cons] at h
    rcases List.mem_cons.1 h with rfl | h
    · exact (minWorker_spec loads hg).1
    · exact placeFactors_items_mem hg t _ it h

/-- every factor name of the layer occurs among the items of its placement record -/
theorem placeLayer_items_names_mem (groups : List (List Nat)) (col : Bool) (loads : List Nat)
    (l : String × List (String × Nat)) {f : String × Nat} (hf : f ∈ l.2) :
    f.1 ∈ (placeLayer groups col loads l).2.items.map (·.1) := by
  rw [placeLayer_snd]
  cases col with
  | true =>
    simp only [if_true, List.map_map]
    exact List.mem_map.2 ⟨f, hf, rfl⟩
  | false =>
    simp only [Bool.false_eq_true, if_false, placeFactors_items_names]
    exact List.mem_map_of_mem ((sortBy_perm factorLe l.2).mem_iff.2 hf)

theorem placeLayer_items_mem {groups : List (List Nat)} (hne : groups ≠ [])
    (hgne : ∀ g ∈ groups, g ≠ []) (col : Bool) (loads : List Nat)
    (l : String × List (String × Nat)) :
    ∀ it ∈ (placeLayer groups col loads l).2.items, it.2.1 ∈ chosenGroup groups loads := by
  have hg := hgne _ (chosenGroup_mem hne loads)
  rw [placeLayer_snd]
  cases col with
  | true =>
    intro it hit
    simp only [if_true] at hit
    obtain ⟨fc, _, rfl⟩ := List.mem_map.1 hit
    exact (minWorker_spec loads hg).1
  | false =>
    intro it hit
    simp only [Bool.false_eq_true, if_false] at hit
    exact placeFactors_items_mem hg _ _ it hit

theorem placeLayer_items_colocated (groups : List (List Nat)) (loads : List Nat)
    (l : String × List (String × Nat)) :
    ∀ it ∈ (placeLayer groups true loads l).2.items,
      it.2.1 = minWorker loads (chosenGroup groups loads) := by
  rw [placeLayer_snd]
  intro it hit
  simp only [if_true] at hit
  obtain ⟨fc, _, rfl⟩ := List.mem_map.1 hit
  rfl

theorem lookup_assigned (groups : List (List Nat)) (col : Bool) (loads : List Nat)
    {layers : List (String × List (String × Nat))} {l : String × List (String × Nat)}
    (hnd : (layers.map (·.1)).Nodup) (hl : l ∈ layers) {f : String × Nat} (hf : f ∈ l.2) :
    ∃ r, lookupPlacement (placeAll groups col loads layers).2 l.1 f.1 = some r := by
  obtain ⟨loads', h⟩ := lookupPlacement_eq groups col loads hnd hl
  rw [h]
  obtain ⟨it, hit, hn⟩ := List.mem_map.1 (placeLayer_items_names_mem groups col loads' l hf)
  have : ((placeLayer groups col loads' l).2.items.find? (fun it => it.1 == f.1)).isSome := by
    rw [List.find?_isSome]
    exact ⟨it, hit, by simpa using hn⟩
  obtain ⟨x, hx⟩ := Option.isSome_iff_exists.1 this
  exact ⟨x.2.1, by rw [hx]; rfl⟩

theorem lookup_confined {groups : List (List Nat)} (hne : groups ≠ [])
    (hgne : ∀ g ∈ groups, g ≠ []) (col : Bool) (loads : List Nat)
    {layers : List (String × List (String × Nat))} {l : String × List (String × Nat)}
    (hnd : (layers.map (·.1)).Nodup) (hl : l ∈ layers) :
    ∃ g ∈ groups, ∀ (f : String) (r : Nat),
      lookupPlacement (placeAll groups col loads layers).2 l.1 f = some r → r ∈ g := by
  obtain ⟨loads', h⟩ := lookupPlacement_eq groups col loads hnd hl
  refine ⟨chosenGroup groups loads', chosenGroup_mem hne loads', ?_⟩
  intro f r hr
  rw [h, Option.map_eq_some_iff] at hr
  obtain ⟨it, hit, rfl⟩ := hr
  exact placeLayer_items_mem hne hgne col loads' l it (List.mem_of_find?_eq_some hit)

theorem lookup_colocated (groups : List (List Nat)) (loads : List Nat)
    {layers : List (String × List (String × Nat))} {l : String × List (String × Nat)}
    (hnd : (layers.map (·.1)).Nodup) (hl : l ∈ layers) :
    ∃ w, ∀ (f : String) (r : Nat),
      lookupPlacement (placeAll groups true loads layers).2 l.1 f = some r → r = w := by
  obtain ⟨loads', h⟩ := lookupPlacement_eq groups true loads hnd hl
  refine ⟨minWorker loads' (chosenGroup groups loads'), ?_⟩
  intro f r hr
  rw [h, Option.map_eq_some_iff] at hr
  obtain ⟨it, hit, rfl⟩ := hr
  exact placeLayer_items_colocated groups loads' l it (List.mem_of_find?_eq_some hit)

theorem greedy_keys (work : Work) (groups : List (List Nat)) (world : Nat) (col : Bool) :
    (greedy work groups world col).map (fun l => (l.1, l.2.map (·.1)))
      = work.map (fun l => (l.1, l.2.map (·.1))) := by
  unfold greedy
  simp [List.map_map, Function.comp_def]

end KV.Kaisa
