/-
Invariants of the M-Precond state machine, part 5: queued requests.  `QB b s`: the open bucket is
`b`, every queued factor slot names a request of the bucket filed under its own (layer, A/G) key,
no other slot is queued, and no stall has been emitted.  Core Lean only.
-/
import KfacVerif.Lemmas.PrecondInv4

namespace KV.PI
open KV KV.Precond
open KV.Sched2 (eventsOf wfAux wf Events)

def keyIn (b : List BItem) (q l : Nat) (isA : Bool) : Prop :=
  ∃ i ∈ b, i.req = q ∧ i.layer = l ∧ i.isA = isA

def hasKey (b : List BItem) (l : Nat) (isA : Bool) : Prop :=
  ∃ i ∈ b, i.layer = l ∧ i.isA = isA

/-- a factor slot: if queued, its request sits in the bucket under the slot's key -/
def QSlot (b : List BItem) (l : Nat) (isA : Bool) : Option Slot → Prop
  | some ⟨_, .queued q⟩ => keyIn b q l isA
  | _ => True

def NotQ : Option Slot → Prop
  | some ⟨_, .queued _⟩ => False
  | _ => True

theorem NotQ.qslot {b l isA o} (h : NotQ o) : QSlot b l isA o := by
  match o, h with
  | .none, _ => trivial
  | some ⟨_, .ready⟩, _ => trivial
  | some ⟨_, .issued _⟩, _ => trivial

theorem QSlot.notQ {b l isA o} (h : QSlot b l isA o) (hk : ¬ hasKey b l isA) : NotQ o := by
  match o, h with
  | .none, _ => trivial
  | some ⟨_, .ready⟩, _ => trivial
  | some ⟨_, .issued _⟩, _ => trivial
  | some ⟨_, .queued q⟩, h =>
    obtain ⟨i, hi, _, h2, h3⟩ := h
    exact hk ⟨i, hi, h2, h3⟩

theorem QSlot.mono {b l isA o} (t : List BItem) (h : QSlot b l isA o) : QSlot (b ++ t) l isA o := by
  match o, h with
  | .none, _ => trivial
  | some ⟨_, .ready⟩, _ => trivial
  | some ⟨_, .issued _⟩, _ => trivial
  | some ⟨_, .queued q⟩, h =>
    obtain ⟨i, hi, h1⟩ := h
    exact ⟨i, List.mem_append_left _ hi, h1⟩

theorem NotQ.none : NotQ none := trivial
theorem NotQ.ready {v} : NotQ (some ⟨v, .ready⟩) := trivial
theorem NotQ.issued {v id} : NotQ (some ⟨v, .issued id⟩) := trivial
theorem QSlot.none {b l isA} : QSlot b l isA none := trivial
theorem QSlot.ready {b l isA v} : QSlot b l isA (some ⟨v, .ready⟩) := trivial
theorem QSlot.issued {b l isA v id} : QSlot b l isA (some ⟨v, .issued id⟩) := trivial

structure QL (b : List BItem) (l : Nat) (x : LState) : Prop where
  aFactor : QSlot b l true x.aFactor
  gFactor : QSlot b l false x.gFactor
  qa : NotQ x.qa
  da : NotQ x.da
  qg : NotQ x.qg
  dg : NotQ x.dg
  dgda : NotQ x.dgda
  aInv : NotQ x.aInv
  gInv : NotQ x.gInv
  grad : NotQ x.grad

theorem QL.empty {b l} : QL b l {} :=
  ⟨trivial, trivial, trivial, trivial, trivial, trivial, trivial, trivial, trivial, trivial⟩

theorem QL.mono {b l x} (t : List BItem) (h : QL b l x) : QL (b ++ t) l x :=
  ⟨h.1.mono t, h.2.mono t, h.3, h.4, h.5, h.6, h.7, h.8, h.9, h.10⟩

macro "ql_from " h:term : tactic =>
  `(tactic| (refine ⟨?_, ?_, ?_, ?_, ?_, ?_, ?_, ?_, ?_, ?_⟩ <;>
      first
        | assumption
        | exact QSlot.none
        | exact QSlot.ready
        | exact QSlot.issued
        | exact NotQ.none
        | exact NotQ.ready
        | exact NotQ.issued
        | exact ($h).aFactor
        | exact ($h).gFactor
        | exact ($h).qa
        | exact ($h).da
        | exact ($h).qg
        | exact ($h).dg
        | exact ($h).dgda
        | exact ($h).aInv
        | exact ($h).gInv
        | exact ($h).grad
        | skip))

structure QB (b : List BItem) (s : St) : Prop where
  ql : ∀ r l, QL b l (getL s r l)
  sf : stallFree s
  bkt : s.bucket = b

theorem QB.congr {b s s'} (h : QB b s) (h1 : s'.script = s.script) (h3 : s'.ranks = s.ranks)
    (h4 : s'.bucket = s.bucket) : QB b s' := by
  refine ⟨?_, ?_, h4.trans h.bkt⟩
  · intro r l; simp only [getL, h3]; exact h.ql r l
  · intro a ha; rw [h1] at ha; exact h.sf a ha

theorem QB.setL {b s} (h : QB b s) {r l : Nat} {x : LState} (hx : QL b l x) :
    QB b (Precond.setL s r l x) := by
  refine ⟨?_, h.sf, h.bkt⟩
  intro r' l'
  rcases getL_setL s r l x r' l' with ⟨h1, _, h3⟩ | h1
  · rw [h1, h3]; exact hx
  · rw [h1]; exact h.ql r' l'

theorem QB.fail {b s} (h : QB b s) (r : Nat) (w : String) : QB b (Precond.fail s r w) := by
  unfold Precond.fail
  split
  · exact h
  · exact h.congr rfl rfl rfl

/-- reading a slot that is not queued emits no stall -/
theorem readQ {b s r sl s1 f} (h : QB b s) (hn : NotQ sl) (e : readSlot s r sl = (s1, f)) :
    QB b s1 ∧ NotQ f := by
  unfold readSlot at e
  match sl, hn with
  | .none, _ =>
    simp only [Prod.mk.injEq] at e
    obtain ⟨rfl, rfl⟩ := e
    exact ⟨h, trivial⟩
  | some ⟨v, .ready⟩, _ =>
    simp only [Prod.mk.injEq] at e
    obtain ⟨rfl, rfl⟩ := e
    exact ⟨h, trivial⟩
  | some ⟨v, .issued id⟩, _ =>
    simp only [Prod.mk.injEq] at e
    obtain ⟨rfl, rfl⟩ := e
    refine ⟨⟨h.ql, ?_, h.bkt⟩, trivial⟩
    intro a ha
    simp only [emit, List.mem_cons] at ha
    rcases ha with rfl | ha
    · rfl
    · exact h.sf a ha

/-- `rq h hn => s1 f h1 hf` for goals in projection form -/
syntax "rqp " ident term:max " => " ident ident ident ident : tactic
macro_rules
  | `(tactic| rqp $h $hn => $s1 $f $h1 $hf) => `(tactic|
      (generalize hrs__ : readSlot _ _ _ = p__
       obtain ⟨$s1:ident, $f:ident⟩ := p__
       obtain ⟨$h1:ident, $hf:ident⟩ := readQ $h $hn hrs__
       simp only []))

theorem QB.saveBatch {b s} (h : QB b s) (r l : Nat) (isA : Bool) :
    QB b (Precond.saveBatch s r l isA) := by
  unfold Precond.saveBatch
  have hl := h.ql r l
  simp only []
  apply h.setL
  split
  · split <;> ql_from hl
  · split <;> ql_from hl

theorem QB.forSave {b c s} (h : QB b s) (l : Nat) (isA : Bool) :
    QB b (forRanks c s fun s r => Precond.saveBatch s r l isA) :=
  forRanks_inv _ c _ s h fun _ r _ hs => hs.saveBatch r l isA

theorem QB.updateFactor {b s} (h : QB b s) (r l : Nat) (isA : Bool) (α : Rat) (hk : ¬ hasKey b l isA) :
    QB b (Precond.updateFactor s r l isA α) := by
  unfold Precond.updateFactor
  cases isA
  · simp only [Bool.false_eq_true, if_false]
    split
    · exact h
    · rqp h ((h.ql r l).gFactor.notQ hk) => s1 f h1 hf
      have hl := h1.ql r l
      apply h1.setL
      ql_from hl
      rcases f with _ | ⟨fv, _ | id | q⟩ <;> first | trivial | exact hf.elim
  · simp only [if_true]
    split
    · exact h
    · rqp h ((h.ql r l).aFactor.notQ hk) => s1 f h1 hf
      have hl := h1.ql r l
      apply h1.setL
      ql_from hl
      rcases f with _ | ⟨fv, _ | id | q⟩ <;> first | trivial | exact hf.elim

theorem QB.forUpdate {b c s} (h : QB b s) (l : Nat) (isA : Bool) (α : Rat) (hk : ¬ hasKey b l isA) :
    QB b (forRanks c s fun s r => Precond.updateFactor s r l isA α) :=
  forRanks_inv _ c _ s h fun _ r _ hs => hs.updateFactor r l isA α hk

/-! ### `flushBucket` -/

theorem flushFix_notQ (b : List BItem) (id : Nat) (l : Nat) (isA : Bool) (o : Option Slot)
    (ho : QSlot b l isA o) : NotQ (flushFix b id o) := by
  match o, ho with
  | .none, _ => trivial
  | some ⟨v, .ready⟩, _ => trivial
  | some ⟨v, .issued i⟩, _ => trivial
  | some ⟨v, .queued q⟩, ho =>
    obtain ⟨i, hi, h1, _⟩ := ho
    have : b.any (·.req == q) = true := List.any_eq_true.mpr ⟨i, hi, by simp [h1]⟩
    simp only [flushFix, Option.map_some, this, if_true]
    trivial

theorem QB.flushBucket {b c s} (h : QB b s) : QB [] (Precond.flushBucket c s) := by
  rw [flushBucket_eq]
  split
  · rename_i he
    have : s.bucket = [] := by simpa using he
    have hb : b = [] := h.bkt.symm.trans this
    subst hb
    exact ⟨h.ql, h.sf, this⟩
  · refine ⟨?_, ?_, rfl⟩
    · intro r l
      show QL [] l (getL _ r l)
      simp only [getL]
      rw [getD_map_map _ _ rfl]
      have hl : QL b l (getL s r l) := h.ql r l
      rw [h.bkt]
      exact ⟨(flushFix_notQ b _ l true _ hl.aFactor).qslot, (flushFix_notQ b _ l false _ hl.gFactor).qslot,
        hl.qa, hl.da, hl.qg, hl.dg, hl.dgda, hl.aInv, hl.gInv, hl.grad⟩
    · intro a ha
      simp only [issue, List.mem_cons] at ha
      rcases ha with rfl | ha
      · rfl
      · exact h.sf a ha

/-- after a flush nothing is queued: the strict invariant holds -/
theorem SlotOK.strict {ev r o} (h : SlotOK false ev r o) (hn : NotQ o) : SlotOK true ev r o := by
  match o, h, hn with
  | .none, _, _ => trivial
  | some ⟨_, .ready⟩, _, _ => trivial
  | some ⟨_, .issued _⟩, h, _ => exact h

theorem QSlot.notQ_nil {l isA o} (h : QSlot [] l isA o) : NotQ o :=
  h.notQ (by rintro ⟨i, hi, _⟩; simp at hi)

theorem Good.strict {c μ s} (h : Good false c μ s) (hq : QB [] s) : Good true c μ s := by
  refine ⟨h.nIss, h.wfs, ?_, h.shape, h.bkt, fun _ => hq.bkt, fun _ => hq.sf, h.mini⟩
  intro r l
  have a := h.lok r l
  have b := hq.ql r l
  exact ⟨a.1.strict b.1.notQ_nil, a.2.strict b.2.notQ_nil, a.3.strict b.3, a.4.strict b.4, a.5.strict b.5,
    a.6.strict b.6, a.7.strict b.7, a.8.strict b.8, a.9.strict b.9, a.10.strict b.10⟩

theorem SlotOK.notQ {ev r o} (h : SlotOK true ev r o) : NotQ o := by
  match o, h with
  | .none, _ => trivial
  | some ⟨_, .ready⟩, _ => trivial
  | some ⟨_, .issued _⟩, _ => trivial
  | some ⟨_, .queued _⟩, h => exact Bool.noConfusion (h : true = false)

theorem Good.toQB {c μ s} (h : Good true c μ s) : QB [] s := by
  refine ⟨?_, h.sF rfl, h.sB rfl⟩
  intro r l
  have a := h.lok r l
  exact ⟨a.1.notQ.qslot, a.2.notQ.qslot, a.3.notQ, a.4.notQ, a.5.notQ, a.6.notQ, a.7.notQ, a.8.notQ,
    a.9.notQ, a.10.notQ⟩

/-! ### `reduceFactor` cut into its getter reads and the rest -/

def reduceReadsF (c : Cfg) (s : St) (l : Nat) (isA : Bool) : St :=
  forRanks c s fun s r =>
    let x := getL s r l
    let (s, f) := readSlot s r (if isA then x.aFactor else x.gFactor)
    Precond.setL s r l (if isA then { getL s r l with aFactor := f } else { getL s r l with gFactor := f })

def reduceTail (c : Cfg) (s : St) (l : Nat) (isA : Bool) : St :=
  if c.world == 1 then s else
  let dim := (c.layers.getD l ⟨0, 0⟩)
  let n := if isA then dim.aDim else dim.gDim
  let elems := triElems n c.symAware
  let vals := (worldRanks c).map fun r =>
    let x := getL s r l
    ((if isA then x.aFactor else x.gFactor).map (·.val)).getD .zero
  let avg := V.ref s.defs.length
  let s := { s with defs := s.defs ++ [avgOf vals] }
  let put (s : St) (p : Pend) : St :=
    (worldRanks c).foldl (fun s r =>
      let x := getL s r l
      Precond.setL s r l (if isA then { x with aFactor := some ⟨avg, p⟩ } else { x with gFactor := some ⟨avg, p⟩ })) s
  if c.bucketed then
    let size := (s.bucket.map (·.elems)).sum * c.fe
    let s := if size + elems * c.fe > c.cap then Precond.flushBucket c s else s
    let req := s.nextReq
    let s := { s with bucket := s.bucket ++ [⟨req, l, isA, elems⟩], nextReq := req + 1 }
    put s (.queued req)
  else
    let (s, id) := issue s (worldRanks c) { kind := .allreduce, elems := elems, esize := c.fe, root := 0 }
    put s (.issued id)

theorem reduceFactor_eq (c : Cfg) (s : St) (l : Nat) (isA : Bool) :
    Precond.reduceFactor c s l isA =
      (let missing := (worldRanks c).filter fun r =>
          let x := getL s r l
          (if isA then x.aFactor else x.gFactor).isNone
       if !missing.isEmpty then Precond.fail s (missing.headD 0) "factor is None, cannot reduce"
       else reduceTail c (reduceReadsF c s l isA) l isA) := rfl

theorem QB.reduceReadsF {b c s} (h : QB b s) (l : Nat) (isA : Bool) (hk : ¬ hasKey b l isA) :
    QB b (reduceReadsF c s l isA) := by
  unfold KV.PI.reduceReadsF
  apply forRanks_inv (QB b) c _ s h
  intro s r _ hs
  cases isA <;> simp only [Bool.false_eq_true, if_false, if_true]
  · rqp hs ((hs.ql r l).gFactor.notQ hk) => s1 f h1 hf
    have hl := h1.ql r l
    have := hf.qslot (b := b) (l := l) (isA := false)
    exact h1.setL (by ql_from hl)
  · rqp hs ((hs.ql r l).aFactor.notQ hk) => s1 f h1 hf
    have hl := h1.ql r l
    have := hf.qslot (b := b) (l := l) (isA := true)
    exact h1.setL (by ql_from hl)

theorem QB.put {b s} (h : QB b s) (rs : List Nat) (l : Nat) (upd : LState → LState)
    (hupd : ∀ x, QL b l x → QL b l (upd x)) :
    QB b (rs.foldl (fun s r => Precond.setL s r l (upd (getL s r l))) s) :=
  foldl_inv (QB b) _ _ _ h (fun _ r _ hs => hs.setL (hupd _ (hs.ql r l)))

theorem QB.addBucket {b s} (h : QB b s) (i : BItem) (n : Nat) :
    QB (b ++ [i]) { s with bucket := s.bucket ++ [i], nextReq := n } :=
  ⟨fun r l => (h.ql r l).mono [i], h.sf, by simp [h.bkt]⟩

theorem QB.iteFlush {b c s} (p : Prop) [Decidable p] (h : QB b s) :
    ∃ bb, QB bb (if p then Precond.flushBucket c s else s) ∧ ∀ i ∈ bb, i ∈ b := by
  split
  · exact ⟨[], h.flushBucket, by simp⟩
  · exact ⟨b, h, fun _ hi => hi⟩

theorem QB.reduceTail {b c s} (h : QB b s) (l : Nat) (isA : Bool) :
    ∃ b', QB b' (reduceTail c s l isA) ∧ ∀ i ∈ b', i ∈ b ∨ (i.layer = l ∧ i.isA = isA) := by
  unfold KV.PI.reduceTail
  split
  · exact ⟨b, h, fun _ hi => Or.inl hi⟩
  extract_lets dim n elems vals avg s0 put size s1 req s2
  have h0 : QB b s0 := h.congr rfl rfl rfl
  split
  · obtain ⟨bb, h1, hsub⟩ : ∃ bb, QB bb s1 ∧ ∀ i ∈ bb, i ∈ b := QB.iteFlush _ h0
    have h2 : QB (bb ++ [⟨req, l, isA, elems⟩]) s2 := h1.addBucket _ _
    refine ⟨bb ++ [⟨req, l, isA, elems⟩], ?_, ?_⟩
    · cases isA
      · refine QB.put (upd := fun x => { x with gFactor := some ⟨avg, .queued req⟩ }) h2 _ _ ?_
        intro x hx
        have : QSlot (bb ++ [⟨req, l, false, elems⟩]) l false (some ⟨avg, .queued req⟩) :=
          ⟨⟨req, l, false, elems⟩, by simp, rfl, rfl, rfl⟩
        ql_from hx
      · refine QB.put (upd := fun x => { x with aFactor := some ⟨avg, .queued req⟩ }) h2 _ _ ?_
        intro x hx
        have : QSlot (bb ++ [⟨req, l, true, elems⟩]) l true (some ⟨avg, .queued req⟩) :=
          ⟨⟨req, l, true, elems⟩, by simp, rfl, rfl, rfl⟩
        ql_from hx
    · intro i hi
      rcases List.mem_append.mp hi with hi | hi
      · exact Or.inl (hsub i hi)
      · simp only [List.mem_singleton] at hi
        subst hi
        exact Or.inr ⟨rfl, rfl⟩
  · split
    rename_i _ s1 id hiss
    have h1 : QB b s1 := by
      unfold issue at hiss
      simp only [Prod.mk.injEq] at hiss
      obtain ⟨rfl, _⟩ := hiss
      refine ⟨h0.ql, ?_, h0.bkt⟩
      intro a ha
      simp only [List.mem_cons] at ha
      rcases ha with rfl | ha
      · rfl
      · exact h0.sf a ha
    refine ⟨b, ?_, fun _ hi => Or.inl hi⟩
    cases isA
    · refine QB.put (upd := fun x => { x with gFactor := some ⟨avg, .issued id⟩ }) h1 _ _ ?_
      intro x hx
      ql_from hx
    · refine QB.put (upd := fun x => { x with aFactor := some ⟨avg, .issued id⟩ }) h1 _ _ ?_
      intro x hx
      ql_from hx

theorem QB.reduceFactor {b c s} (h : QB b s) (l : Nat) (isA : Bool) (hk : ¬ hasKey b l isA) :
    ∃ b', QB b' (Precond.reduceFactor c s l isA) ∧ ∀ i ∈ b', i ∈ b ∨ (i.layer = l ∧ i.isA = isA) := by
  rw [reduceFactor_eq]
  extract_lets missing
  split
  · exact ⟨b, h.fail _ _, fun _ hi => Or.inl hi⟩
  · exact (h.reduceReadsF l isA hk).reduceTail l isA

end KV.PI
