/-
Frame facts about the reference machine KV.Spec: which operation touches which field.
Core Lean only.
-/
import KfacVerif.Model.Spec

namespace KV.Spec
open KV KV.Precond

/-! ### generic folds -/

theorem foldl_pres {α β γ : Type _} (p : β → γ) (f : β → α → β) (h : ∀ b a, p (f b a) = p b)
    (L : List α) (b : β) : p (L.foldl f b) = p b := by
  induction L generalizing b with
  | nil => rfl
  | cons a t ih => simp only [List.foldl_cons]; rw [ih, h]

theorem foldl_rel {α β : Type _} (R : β → β → Prop) (f g : β → α → β)
    (h : ∀ b b' a, R b b' → R (f b a) (g b' a)) (L : List α) (b b' : β) (h0 : R b b') :
    R (L.foldl f b) (L.foldl g b') := by
  induction L generalizing b b' with
  | nil => exact h0
  | cons a t ih => simp only [List.foldl_cons]; exact ih _ _ (h _ _ _ h0)

theorem foldl_inv' {α β : Type _} (P : β → Prop) (f : β → α → β) (h : ∀ b a, P b → P (f b a))
    (L : List α) (b : β) (h0 : P b) : P (L.foldl f b) := by
  induction L generalizing b with
  | nil => exact h0
  | cons a t ih => simp only [List.foldl_cons]; exact ih _ (h _ _ h0)

/-- a fold (with invariant `I`) whose every iteration keeps `P` and whose iteration `k` establishes it -/
theorem foldl_estab {α β : Type _} [DecidableEq α] (I P : β → Prop) (f : β → α → β) (k : α)
    (hI : ∀ b a, I b → I (f b a))
    (hkeep : ∀ b a, I b → P b → P (f b a)) (hest : ∀ b, I b → P (f b k))
    (L : List α) (b : β) (hi : I b) (h0 : P b ∨ k ∈ L) : P (L.foldl f b) := by
  induction L generalizing b with
  | nil => simpa using h0
  | cons a t ih =>
    simp only [List.foldl_cons]
    apply ih _ (hI _ _ hi)
    rcases h0 with h0 | h0
    · exact Or.inl (hkeep _ _ hi h0)
    · by_cases hak : k = a
      · subst hak; exact Or.inl (hest _ hi)
      · simp only [List.mem_cons] at h0
        rcases h0 with h0 | h0
        · exact absurd h0 hak
        · exact Or.inr h0

theorem foldl_comm {α β : Type _} (g : β → β) (f : β → α → β) (h : ∀ b a, f (g b) a = g (f b a))
    (L : List α) (b : β) : L.foldl f (g b) = g (L.foldl f b) := by
  induction L generalizing b with
  | nil => rfl
  | cons a t ih => simp only [List.foldl_cons]; rw [h, ih]

/-! ### `getS` / `setS` -/

theorem getS_setS (s : SSt) (l l' : Nat) (x : SLayer) :
    getS (setS s l x) l' = if l' = l ∧ l < s.layers.length then x else getS s l' := by
  unfold getS setS
  simp only [List.getD_eq_getElem?_getD, List.getElem?_set]
  by_cases h : l = l'
  · subst h
    by_cases h2 : l < s.layers.length
    · simp [h2]
    · simp [h2]
  · have : ¬ l' = l := fun e => h e.symm
    simp [h, this]

theorem getS_setS_self (s : SSt) (l : Nat) (x : SLayer) (h : l < s.layers.length) :
    getS (setS s l x) l = x := by rw [getS_setS]; simp [h]

theorem getS_setS_ne (s : SSt) {l l' : Nat} (x : SLayer) (h : l' ≠ l) :
    getS (setS s l x) l' = getS s l' := by rw [getS_setS]; simp [h]

theorem getS_oob (s : SSt) (l : Nat) (h : s.layers.length ≤ l) : getS s l = {} := by
  unfold getS; simp [List.getD_eq_getElem?_getD, List.getElem?_eq_none_iff.mpr h]

theorem setS_oob (s : SSt) (l : Nat) (x : SLayer) (h : s.layers.length ≤ l) : setS s l x = s := by
  unfold setS; rw [List.set_eq_of_length_le h]

/-- a `setS` that leaves some projection of the written layer alone leaves it alone everywhere -/
theorem getS_setS_proj {γ : Type _} (p : SLayer → γ) (s : SSt) (l l' : Nat) (x : SLayer)
    (h : p x = p (getS s l)) : p (getS (setS s l x) l') = p (getS s l') := by
  rw [getS_setS]
  split
  · rename_i hh; rw [hh.1, h]
  · rfl

@[simp] theorem setS_steps (s : SSt) (l x) : (setS s l x).steps = s.steps := rfl
@[simp] theorem setS_mini (s : SSt) (l x) : (setS s l x).mini = s.mini := rfl
@[simp] theorem setS_pass (s : SSt) (l x) : (setS s l x).pass = s.pass := rfl
@[simp] theorem setS_hyper (s : SSt) (l x) : (setS s l x).hyper = s.hyper := rfl
@[simp] theorem setS_defs (s : SSt) (l x) : (setS s l x).defs = s.defs := rfl
@[simp] theorem setS_out (s : SSt) (l x) : (setS s l x).out = s.out := rfl
@[simp] theorem setS_len (s : SSt) (l x) : (setS s l x).layers.length = s.layers.length := by
  simp [setS]

/-! ### scalar frames -/

/-- the fields no layer operation touches -/
def fr (s : SSt) : Nat × Nat × Hyper × List V × Nat := (s.steps, s.pass, s.hyper, s.out, s.layers.length)

theorem fr_setS (s : SSt) (l x) : fr (setS s l x) = fr s := by simp [fr]

theorem fr_save (c : SCfg) (s : SSt) (l : Nat) (isA : Bool) : fr (save c s l isA) = fr s := by
  unfold save
  cases isA <;> simp only [Bool.false_eq_true, if_false, if_true] <;> split <;> exact fr_setS _ _ _

theorem save_mini (c : SCfg) (s : SSt) (l : Nat) (isA : Bool) : (save c s l isA).mini = s.mini := by
  unfold save
  cases isA <;> simp only [Bool.false_eq_true, if_false, if_true] <;> split <;> rfl

theorem save_defs (c : SCfg) (s : SSt) (l : Nat) (isA : Bool) : (save c s l isA).defs = s.defs := by
  unfold save
  cases isA <;> simp only [Bool.false_eq_true, if_false, if_true] <;> split <;> rfl

/-- the per-rank values `updateReduce` averages (a function of the layer alone) -/
def urVals (c : SCfg) (x : SLayer) (l : Nat) (isA : Bool) (α : Rat) : Option (List V) :=
  match (if isA then x.aBatch else x.gBatch) with
  | none => (if isA then x.aFactor else x.gFactor).map fun f => (ranks c).map fun _ => f
  | some b => some (b.map fun br =>
      V.ema α ((if isA then x.aFactor else x.gFactor).getD (.ident l isA))
        (if (if isA then x.aCount else x.gCount) > 1 then V.divN br (if isA then x.aCount else x.gCount) else br))

/-- what `updateReduce` writes into the layer -/
def urPut (x : SLayer) (isA : Bool) (v : Option V) : SLayer :=
  if isA then { x with aBatch := none, aFactor := v } else { x with gBatch := none, gFactor := v }

theorem updateReduce_eq (c : SCfg) (s : SSt) (l : Nat) (isA : Bool) (α : Rat) :
    updateReduce c s l isA α =
      match urVals c (getS s l) l isA α with
      | none => s
      | some vals =>
        if c.world == 1 then setS s l (urPut (getS s l) isA vals.head?)
        else setS { s with defs := s.defs ++ [avgOf vals] } l (urPut (getS s l) isA (some (V.ref s.defs.length))) := by
  cases isA <;> rfl

theorem fr_updateReduce (c : SCfg) (s : SSt) (l : Nat) (isA : Bool) (α : Rat) :
    fr (updateReduce c s l isA α) = fr s := by
  rw [updateReduce_eq]
  split
  · rfl
  · split
    · exact fr_setS _ _ _
    · rw [fr_setS]; rfl

theorem updateReduce_mini (c : SCfg) (s : SSt) (l : Nat) (isA : Bool) (α : Rat) :
    (updateReduce c s l isA α).mini = s.mini := by
  rw [updateReduce_eq]
  split
  · rfl
  · split <;> rfl

theorem fr_refresh (c : SCfg) (s : SSt) (l : Nat) (d : Rat) : fr (refresh c s l d) = fr s := by
  unfold refresh
  extract_lets x fa fg
  split
  · split <;> exact fr_setS _ _ _
  · exact fr_setS _ _ _

theorem refresh_mini (c : SCfg) (s : SSt) (l : Nat) (d : Rat) : (refresh c s l d).mini = s.mini := by
  unfold refresh
  extract_lets x fa fg
  split
  · split <;> rfl
  · rfl

theorem refresh_defs (c : SCfg) (s : SSt) (l : Nat) (d : Rat) : (refresh c s l d).defs = s.defs := by
  unfold refresh
  extract_lets x fa fg
  split
  · split <;> rfl
  · rfl

theorem fr_steps {s t : SSt} (h : fr s = fr t) : s.steps = t.steps := congrArg (·.1) h
theorem fr_pass {s t : SSt} (h : fr s = fr t) : s.pass = t.pass := congrArg (·.2.1) h
theorem fr_hyper {s t : SSt} (h : fr s = fr t) : s.hyper = t.hyper := congrArg (·.2.2.1) h
theorem fr_out {s t : SSt} (h : fr s = fr t) : s.out = t.out := congrArg (·.2.2.2.1) h
theorem fr_len {s t : SSt} (h : fr s = fr t) : s.layers.length = t.layers.length := congrArg (·.2.2.2.2) h


/-! ### layer frames -/

theorem save_proj {γ : Type _} (p : SLayer → γ)
    (hp : ∀ (x : SLayer) a b e f, p { x with aBatch := a, aCount := b, gBatch := e, gCount := f } = p x)
    (c : SCfg) (s : SSt) (l : Nat) (isA : Bool) (l' : Nat) :
    p (getS (save c s l isA) l') = p (getS s l') := by
  unfold save
  cases isA <;> simp only [Bool.false_eq_true, if_false, if_true] <;> split <;>
    exact getS_setS_proj p _ _ _ _ (hp (getS s l) _ _ _ _)

theorem updateReduce_proj {γ : Type _} (p : SLayer → γ)
    (hp : ∀ (x : SLayer) a b e f, p { x with aBatch := a, aFactor := b, gBatch := e, gFactor := f } = p x)
    (c : SCfg) (s : SSt) (l : Nat) (isA : Bool) (α : Rat) (l' : Nat) :
    p (getS (updateReduce c s l isA α) l') = p (getS s l') := by
  rw [updateReduce_eq]
  split
  · rfl
  · split
    · refine getS_setS_proj p _ _ _ _ ?_
      cases isA <;> exact hp (getS s l) _ _ _ _
    · refine (getS_setS_proj p _ _ _ _ ?_).trans rfl
      cases isA <;> exact hp (getS s l) _ _ _ _

theorem refresh_proj {γ : Type _} (p : SLayer → γ)
    (hp : ∀ (x : SLayer) a b e f g h i,
      p { x with qa := a, da := b, qg := e, dg := f, dgda := g, aInv := h, gInv := i } = p x)
    (c : SCfg) (s : SSt) (l : Nat) (d : Rat) (l' : Nat) :
    p (getS (refresh c s l d) l') = p (getS s l') := by
  unfold refresh
  extract_lets x fa fg
  split
  · split <;> exact getS_setS_proj p _ _ _ _ (hp (getS s l) _ _ _ _ _ _ _)
  · exact getS_setS_proj p _ _ _ _ (hp (getS s l) _ _ _ _ _ _ _)

/-! ### `fwdBwd` by hook bodies -/

def fwdBody (c : SCfg) (α : Rat) (s : SSt) (l : Nat) : SSt :=
  let s := save c s l true
  let m := s.mini.getD l 0 + 1
  let s := { s with mini := s.mini.set l m }
  if c.hook && m % c.accum == 0 then updateReduce c s l true α else s

def bwdBody (c : SCfg) (α : Rat) (s : SSt) (l : Nat) : SSt :=
  let s := save c s l false
  let m := s.mini.getD l 0
  if c.hook && m % c.accum == 0 then updateReduce c s l false α else s

def passBody (c : SCfg) (α : Rat) (s : SSt) : SSt :=
  (revIdxs c).foldl (bwdBody c α) ((idxs c).foldl (fwdBody c α) s)

theorem fwdBwd_eq (c : SCfg) (s : SSt) (t : Bool) :
    fwdBwd c s t =
      if !t then s else
      if s.steps % s.hyper.fus.val s.steps != 0 then { s with pass := s.pass + 1 } else
      { passBody c (s.hyper.decay.val s.steps) s with pass := (passBody c (s.hyper.decay.val s.steps) s).pass + 1 } :=
  rfl

theorem fr_fwdBody (c : SCfg) (α : Rat) (s : SSt) (l : Nat) : fr (fwdBody c α s l) = fr s := by
  unfold fwdBody
  extract_lets s1 m s2
  have : fr s2 = fr s := (fr_save c s l true)
  split
  · rw [fr_updateReduce, this]
  · exact this

theorem fr_bwdBody (c : SCfg) (α : Rat) (s : SSt) (l : Nat) : fr (bwdBody c α s l) = fr s := by
  unfold bwdBody
  extract_lets s1 m
  split
  · rw [fr_updateReduce, fr_save]
  · exact fr_save _ _ _ _

theorem fr_passBody (c : SCfg) (α : Rat) (s : SSt) : fr (passBody c α s) = fr s := by
  unfold passBody
  rw [foldl_pres fr _ (fr_bwdBody c α), foldl_pres fr _ (fr_fwdBody c α)]

/-! ### `saveLoad` in stages -/

def slFresh (c : SCfg) (s : SSt) : SSt :=
  { SSt.init c s.hyper with steps := s.steps, pass := s.pass, defs := s.defs }

def slCopy (c : SCfg) (s : SSt) : SSt :=
  (idxs c).foldl (fun t l =>
    setS t l { getS t l with aFactor := (getS s l).aFactor, gFactor := (getS s l).gFactor }) (slFresh c s)

theorem saveLoad_eq (c : SCfg) (s : SSt) (f ci : Bool) :
    saveLoad c s f ci =
      if !f then slFresh c s else
      if !ci then slCopy c s else
      (idxs c).foldl (fun t l => refresh c t l ((slCopy c s).hyper.damping.val (slCopy c s).steps)) (slCopy c s) :=
  rfl

/-! ### `step` in three stages -/

/-- factor update in `step` (no-hook mode) -/
def stepA (c : SCfg) (b : Bool) (α : Rat) (s : SSt) : SSt :=
  if b then
    (revIdxs c).foldl (fun s l =>
      let s := { s with mini := s.mini.set l 0 }
      updateReduce c (updateReduce c s l true α) l false α) s
  else s

/-- inverse phase -/
def stepB (c : SCfg) (b : Bool) (d : Rat) (s : SSt) : SSt :=
  if b then (revIdxs c).foldl (fun s l => refresh c s l d) s else s

/-- gradient phase -/
def stepOut (c : SCfg) (d : Rat) (kl : Option Rat) (lr : Rat) (s : SSt) : List V :=
  let vs := (idxs c).map fun l => precond c s l d
  match kl with
  | none => vs
  | some k =>
    let sum := (revIdxs c).foldl (fun acc l =>
      let t := V.inner (vs.getD l .garbage) (.rawGrad l s.steps)
      match acc with | none => some t | some a => some (V.add a t)) (none : Option V)
    let n := V.nu k lr (sum.getD .zero)
    vs.map fun v => V.scale n v

theorem step_eq0 (c : SCfg) (s : SSt) :
    step c s =
      let s1 := stepA c (!c.hook && s.steps % s.hyper.fus.val s.steps == 0) (s.hyper.decay.val s.steps) s
      let s2 := stepB c (s1.steps % s.hyper.ius.val s.steps == 0) (s.hyper.damping.val s.steps) s1
      { s2 with steps := s2.steps + 1, mini := List.replicate c.nLayers 0,
                out := stepOut c (s.hyper.damping.val s.steps) (s2.hyper.kl.val s2.steps) (s2.hyper.lr.val s2.steps) s2 } :=
  rfl

theorem fr_stepA (c : SCfg) (b : Bool) (α : Rat) (s : SSt) : fr (stepA c b α s) = fr s := by
  unfold stepA
  split
  · refine foldl_pres fr _ (fun t l => ?_) _ _
    simp only [fr_updateReduce]; rfl
  · rfl

theorem fr_stepB (c : SCfg) (b : Bool) (d : Rat) (s : SSt) : fr (stepB c b d s) = fr s := by
  unfold stepB
  split
  · exact foldl_pres fr _ (fun t l => fr_refresh c t l d) _ _
  · rfl

theorem stepB_defs (c : SCfg) (b : Bool) (d : Rat) (s : SSt) : (stepB c b d s).defs = s.defs := by
  unfold stepB
  split
  · exact foldl_pres SSt.defs _ (fun t l => refresh_defs c t l d) _ _
  · rfl

theorem step_eq (c : SCfg) (s : SSt) :
    step c s =
      let s1 := stepA c (!c.hook && s.steps % s.hyper.fus.val s.steps == 0) (s.hyper.decay.val s.steps) s
      let s2 := stepB c (s.steps % s.hyper.ius.val s.steps == 0) (s.hyper.damping.val s.steps) s1
      { s2 with steps := s.steps + 1, mini := List.replicate c.nLayers 0,
                out := stepOut c (s.hyper.damping.val s.steps) (s.hyper.kl.val s.steps) (s.hyper.lr.val s.steps) s2 } := by
  rw [step_eq0]
  have h1 := fr_stepA c (!c.hook && s.steps % s.hyper.fus.val s.steps == 0) (s.hyper.decay.val s.steps) s
  simp only [fr_steps h1]
  have h2 := (fr_stepB c (s.steps % s.hyper.ius.val s.steps == 0) (s.hyper.damping.val s.steps) _).trans h1
  simp only [fr_steps h2, fr_hyper h2]

theorem stepB_proj {γ : Type _} (p : SLayer → γ)
    (hp : ∀ (x : SLayer) a b e f g h i,
      p { x with qa := a, da := b, qg := e, dg := f, dgda := g, aInv := h, gInv := i } = p x)
    (c : SCfg) (b : Bool) (d : Rat) (s : SSt) (l' : Nat) :
    p (getS (stepB c b d s) l') = p (getS s l') := by
  unfold stepB
  split
  · exact foldl_pres (fun t => p (getS t l')) _ (fun t l => refresh_proj p hp c t l d l') _ _
  · rfl

theorem stepA_proj {γ : Type _} (p : SLayer → γ)
    (hp : ∀ (x : SLayer) a b e f, p { x with aBatch := a, aFactor := b, gBatch := e, gFactor := f } = p x)
    (c : SCfg) (b : Bool) (α : Rat) (s : SSt) (l' : Nat) :
    p (getS (stepA c b α s) l') = p (getS s l') := by
  unfold stepA
  split
  · refine foldl_pres (fun t => p (getS t l')) _ (fun t l => ?_) _ _
    simp only [updateReduce_proj p hp]; rfl
  · rfl

end KV.Spec

namespace KV.C05
open KV KV.Precond KV.Spec

/-- the second-order data of a layer, as the fields `precond` reads -/
def soOf (x : SLayer) : List (Option V) := [x.qa, x.da, x.qg, x.dg, x.dgda, x.aInv, x.gInv]

end KV.C05
