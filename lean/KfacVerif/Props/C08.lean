/-
C08 — bucketed allreduce is equivalent to per-tensor allreduce.
Model: KV.Comm (CState, allreduceBucketed, flush, run) = TorchDistributedCommunicator +
AllreduceTensorBucket of kfac/distributed.py.  Property theorems only; helpers in Lemmas/Bucket.lean.
-/
import KfacVerif.Lemmas.Bucket
import KfacVerif.Lemmas.BucketLink
import KfacVerif.Lemmas.CommValL

namespace KV.C08
open KV KV.Comm

-- the spec-level definitions `Event.group`, `Event.tids`, `shapeOk`, `submitted`, `bytesOf`,
-- `dtypeOf`, `tidsOf`, `onlyBucketed`, `init` live (verbatim) in Lemmas/Bucket.lean, namespace KV.C08.

/-- **each tensor exactly once, on its own group**: after a final flush the (group, request)
    pairs carried by the issued all-reduces are a permutation of the accepted requests. -/
theorem each_tensor_once (cap : Nat) (ops : List Op) (h : onlyBucketed ops) :
    ((run (init cap) (ops ++ [.flush])).2.flatMap fun e => (Event.tids e).map fun t => (Event.group e, t)).Perm
      (submitted ops) := by
  have hp := run_pairs_perm (init cap) (ops ++ [.flush]) (onlyBucketed_append_flush h)
  rw [pendP_run_flush, List.append_nil, submitted_append_flush] at hp
  exact hp

/-- **FIFO per group**: on every group the requests are communicated in submission order
    (so all members of the group, who submit the same sequence, issue the same all-reduces). -/
theorem fifo_per_group (cap : Nat) (ops : List Op) (h : onlyBucketed ops) (g : Key) :
    ((run (init cap) (ops ++ [.flush])).2.filter (fun e => Event.group e == g)).flatMap Event.tids
      = ((submitted ops).filter (fun p => p.1 == g)).map (·.2) := by
  have hs := (run_sim (init cap) (ops ++ [.flush]) g (onlyBucketed_append_flush h) (KeysND_init cap)).1
  have hf := gRun_fifo (init cap).cap g (curB g (init cap).buckets) (ops ++ [.flush])
  rw [gRun_flush_last, submitted_append_flush] at hf
  rw [show (fun e => Event.group e == g) = onG g from rfl, hs]
  simpa [init, curB_nil] using hf

/-- **independence of groups**: what is issued on group `g` depends only on the requests for `g`
    and on the flush points — never on traffic for other groups sharing the communicator. -/
theorem group_projection (cap : Nat) (ops : List Op) (h : onlyBucketed ops) (g : Key) :
    (run (init cap) ops).2.filter (fun e => Event.group e == g)
      = (run (init cap) (ops.filter fun op => match op with
            | .reduceB g' _ _ _ _ _ => g' == g
            | _ => true)).2.filter (fun e => Event.group e == g) := by
  refine (run_sim (init cap) ops g h (KeysND_init cap)).1.trans ?_
  rw [← gRun_filter]
  exact (run_sim (init cap) _ g (onlyBucketed_filter h _) (KeysND_init cap)).1.symm

/-- **capacity**: a fused all-reduce never exceeds the capacity unless it carries a single
    (oversized) tensor. Request ids are assumed distinct (they are call sites). -/
theorem cap_respected (cap : Nat) (ops : List Op) (h : onlyBucketed ops)
    (hd : (tidsOf ops).Nodup) :
    ∀ e ∈ (run (init cap) ops).2,
      ((Event.tids e).map (bytesOf ops)).sum ≤ cap ∨ (Event.tids e).length = 1 := by
  intro e he
  exact (run_events_ok cap (bytesOf ops) (dtypeOf ops) (init cap) ops h rfl (BInv_init _ _ _)
    (ops_good ops hd) e he).1

/-- **dtype**: all requests fused into one all-reduce have the same dtype (so flattening does
    not promote, and every future keeps its tensor's dtype) -/
theorem dtype_homogeneous (cap : Nat) (ops : List Op) (h : onlyBucketed ops)
    (hd : (tidsOf ops).Nodup) :
    ∀ e ∈ (run (init cap) ops).2, ∀ a ∈ Event.tids e, ∀ b ∈ Event.tids e,
      dtypeOf ops a = dtypeOf ops b := by
  intro e he
  exact (run_events_ok cap (bytesOf ops) (dtypeOf ops) (init cap) ops h rfl (BInv_init _ _ _)
    (ops_good ops hd) e he).2

/-- **nothing pending after a flush**, and a second flush does nothing -/
theorem empty_after_flush (s : CState) : pending (flush s).1 = [] := by
  exact pending_flush s

theorem flush_idempotent (s : CState) : flush (flush s).1 = ((flush s).1, []) := by
  exact flush_flush s

/-- every request not yet communicated is pending in a bucket: nothing is lost before the flush -/
theorem pending_or_issued (cap : Nat) (ops : List Op) (h : onlyBucketed ops) :
    (((run (init cap) ops).2.flatMap Event.tids) ++ pending (run (init cap) ops).1).Perm
      ((submitted ops).map (·.2)) := by
  have hp := (run_pairs_perm (init cap) ops h).map (·.2)
  rw [List.map_append, evPairs_map_snd, pendP_map_snd] at hp
  exact hp

/-- single-member groups short-circuit: nothing is communicated, the tensor is returned -/
theorem single_member_noop (s : CState) (r tid : Nat) (shape : List Nat) (es dt : Nat) (sym : Bool) :
    allreduceBucketed s [r] tid shape es dt sym = (s, [], .same) ∧
    allreduce s [r] tid shape sym = (s, [], .same) := by
  simp [allreduceBucketed, allreduce]

/-- **value**: flatten → all-reduce (elementwise sum over ranks) → unflatten gives every
    request exactly the sum an unbucketed all-reduce of that tensor would give.
    `X r` = the tensors rank `r` put in the bucket, all ranks with the same lengths `lens`. -/
theorem value_eq_unbucketed (lens : List Nat) (X : List (List (List Int))) (hne : X ≠ [])
    (hl : ∀ xs ∈ X, xs.map List.length = lens) :
    unflatten lens (sumRanks (X.map flatten))
      = (List.range lens.length).map fun i => sumRanks (X.map fun xs => xs.getD i []) := by
  exact unflatten_sumRanks lens X hne hl


section PrecondLink
open KV.Precond

/-! ### the bucket inside M-Precond IS the bucket state machine of M-Comm
    (so everything proved above about `TorchDistributedCommunicator` applies to the factor
    all-reduces of the K-FAC state machine) -/

/-- M-Precond's open bucket (world group only: KAISA's `factor_group` is always the world) as an
    M-Comm communicator state -/
def absBucket (c : Cfg) (s : St) : Comm.CState :=
  { cap := c.cap,
    buckets := [(worldRanks c, some { items := s.bucket.map fun b =>
      ({ tid := b.req, elems := b.elems, esize := c.fe, dtype := 0 } : Comm.Item) })] }

/-- (members, element count) of the collectives a piece of script / a list of M-Comm events stands for -/
def issuesOf : List GAct → List (List Nat × Nat)
  | [] => []
  | .issue m d :: t => (m, d.elems) :: issuesOf t
  | _ :: t => issuesOf t

def eventsOf : List Comm.Event → List (List Nat × Nat)
  | [] => []
  | .allreduce g _ e :: t => (g, e) :: eventsOf t
  | .broadcast g _ e _ :: t => (g, e) :: eventsOf t

/-- the script acts appended by an operation -/
def newActs (before after : St) : List GAct := after.acts.drop before.acts.length

theorem issuesOf_eq (l : List GAct) : issuesOf l = BucketLink.issues l := by
  induction l with
  | nil => rfl
  | cons a t ih => cases a <;> simp [issuesOf, BucketLink.issues, ih]

theorem eventsOf_eq (l : List Comm.Event) : eventsOf l = BucketLink.events l := by
  induction l with
  | nil => rfl
  | cons a t ih => cases a <;> simp [eventsOf, BucketLink.events, ih]

/-- `flush_allreduce_buckets()`: same events, nothing pending afterwards -/
theorem flush_sim (c : Cfg) (s : St) :
    issuesOf (newActs s (flushBucket c s)) = eventsOf (Comm.flush (absBucket c s)).2 ∧
    (flushBucket c s).bucket = [] ∧ Comm.pending (Comm.flush (absBucket c s)).1 = [] := by
  rw [issuesOf_eq, eventsOf_eq]
  exact BucketLink.flush_link c s

/-- `reduce_*_factor` with bucketing: the request goes through `allreduce_bucketed` of M-Comm —
    same emitted all-reduce (if the capacity test fires), same resulting open bucket -/
theorem reduce_sim (c : Cfg) (s : St) (l : Nat) (isA : Bool) (hb : c.bucketed = true) (hw : c.world ≠ 1)
    (hne : (reduceFactor c s l isA).err = none) (hs : s.err = none) :
    let n := if isA then (c.layers.getD l ⟨0, 0⟩).aDim else (c.layers.getD l ⟨0, 0⟩).gDim
    let r := Comm.allreduceBucketed (absBucket c s) (worldRanks c) s.nextReq [n, n] c.fe 0 c.symAware
    issuesOf (newActs s (reduceFactor c s l isA)) = eventsOf r.2.1 ∧
    absBucket c (reduceFactor c s l isA) = r.1 ∧ r.2.2 = .future := by
  intro n r
  rw [issuesOf_eq, eventsOf_eq]
  exact BucketLink.reduce_link c s l isA hb hw hne hs


end PrecondLink

/-! ## values through the bucketed all-reduce (M-CommVal)

Model: KV.CommV (Model/CommVal.lean) = the capacity/dtype rule of `allreduce_bucketed`, flatten, one
elementwise all-reduce per bucket, unflatten with the member's own sizes.  Tied to the code on every run
by the value stream of the C08 check (every member's result for every tensor compared exactly). -/
section Values
open KV.CommV

/-- **bucketed ≡ per-tensor, at the level of values**: whatever the capacity, the element size, the
    dtypes and the sizes of the tensors — when all members of the group submit the same requests
    (SPMD: ids, dtypes and sizes agree, payloads differ) every member gets back, for each of its tensors
    and in submission order, exactly the elementwise sum over the members of that tensor: the result of
    the per-tensor all-reduce -/
theorem bucketed_equals_per_tensor (cap esize : Nat) (members : List (List Sub)) (m : Nat)
    (hm : m < members.length)
    (hs : ∀ a ∈ members, ∀ b ∈ members, sameShape a b = true) :
    results cap esize members m = perTensor members m := by
  exact CommVL.results_eq_perTensor cap esize members m hm hs

/-- **the value model cuts buckets exactly where the communicator model (M-Comm) does**: the events
    M-Comm emits for a group when the same requests are submitted and the buckets are flushed are, one
    by one, the buckets of `split` (same request ids in the same order, same total element count) -/
theorem split_matches_comm (cap esize : Nat) (g : Comm.Key) (hg : g.length ≠ 1) (subs : List Sub) :
    (Comm.run { cap := cap, buckets := [] }
        (subs.map (fun s => Comm.Op.reduceB g s.tid [s.data.length] esize s.dtype false) ++ [Comm.Op.flush])).2
      = (split cap esize subs []).map fun b =>
          Comm.Event.allreduce g (b.map (·.tid)) ((b.map fun s => s.data.length).sum) := by
  exact CommVL.run_split cap esize g hg subs [] [] (Or.inr ⟨rfl, rfl⟩)

/-- every submitted tensor is in exactly one bucket, in submission order -/
theorem split_flatten (cap esize : Nat) (subs : List Sub) :
    (split cap esize subs []).flatten = subs := by
  simpa using CommVL.split_flatten_gen cap esize subs []

/-- **capacity**: a bucket that holds more than one tensor fits the capacity (a tensor larger than
    the capacity travels alone) -/
theorem split_capacity (cap esize : Nat) (subs : List Sub) (b : List Sub) (hb : b ∈ split cap esize subs [])
    (h2 : 2 ≤ b.length) : bucketBytes esize b ≤ cap := by
  exact CommVL.split_capacity_gen cap esize subs [] (by simp) b hb h2

/-- a bucket never mixes dtypes -/
theorem split_dtype (cap esize : Nat) (subs : List Sub) (b : List Sub) (hb : b ∈ split cap esize subs [])
    (x y : Sub) (hx : x ∈ b) (hy : y ∈ b) : x.dtype = y.dtype := by
  exact CommVL.split_dtype_gen cap esize subs [] (by simp) b hb x hx y hy

/-- non-vacuity: three members, capacity 16 bytes, a dtype switch, a tensor larger than the capacity
    and an empty tensor -/
example :
    let mk (r : Int) : List Sub := [⟨0, 0, [1 * r, 2 * r]⟩, ⟨1, 0, [3 * r]⟩, ⟨2, 1, [5 * r]⟩, ⟨3, 1, [1, 2, 3, 4, r]⟩, ⟨4, 1, []⟩]
    results 16 4 [mk 1, mk 10, mk 100] 1 = perTensor [mk 1, mk 10, mk 100] 1 ∧
    (split 16 4 (mk 1) []).map (fun b => b.map (·.tid)) = [[0, 1], [2], [3], [4]] := by
  decide +kernel


end Values

end KV.C08
