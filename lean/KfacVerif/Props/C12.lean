/-
C12 — GPT-NeoX assignment is consistent across the 3-D topology.
Model: KV.Neox (Topo, axis group lists, stagePeers, place, Cfg and its queries) =
kfac/gpt_neox/assignment.py on the (stub) PipeModelDataParallelTopology.
Property theorems only; helpers in Lemmas/NeoxTopo.lean.
-/
import KfacVerif.Lemmas.NeoxTopo

namespace KV.C12
open KV KV.Neox

-- `TopoOK`, `WorkOK` are defined in Lemmas/NeoxTopo.lean (moved verbatim, namespace KV.C12)

/-! ### coordinates -/

theorem coord_rank (t : Topo) (h : TopoOK t) {p d m : Nat} (hp : p < t.pp) (hd : d < t.dp) (hm : m < t.mp) :
    t.rankOf p d m < t.world ∧ t.pipeOf (t.rankOf p d m) = p ∧ t.dataOf (t.rankOf p d m) = d ∧
      t.modelOf (t.rankOf p d m) = m := by
  exact coord_rank' t h hp hd hm

theorem rank_coord (t : Topo) (h : TopoOK t) {r : Nat} (hr : r < t.world) :
    t.pipeOf r < t.pp ∧ t.dataOf r < t.dp ∧ t.modelOf r < t.mp ∧
      t.rankOf (t.pipeOf r) (t.dataOf r) (t.modelOf r) = r := by
  exact rank_coord' t h hr

/-- the data-parallel peers of a rank are exactly the ranks sharing its pipe and model coordinates -/
theorem dataPeers_spec (c : Cfg) (h : TopoOK c.t) {loc : Nat} (hl : loc < c.t.world) (r : Nat) :
    r ∈ c.dataPeers loc ↔ r < c.t.world ∧ c.t.pipeOf r = c.t.pipeOf loc ∧ c.t.modelOf r = c.t.modelOf loc := by
  exact dataPeers_spec' c h hl r

/-- the model-parallel peers of a rank are exactly the ranks sharing its pipe and data coordinates -/
theorem modelPeers_spec (c : Cfg) (h : TopoOK c.t) {loc : Nat} (hl : loc < c.t.world) (r : Nat) :
    r ∈ c.modelPeers loc ↔ r < c.t.world ∧ c.t.pipeOf r = c.t.pipeOf loc ∧ c.t.dataOf r = c.t.dataOf loc := by
  exact modelPeers_spec' c h hl r

theorem stagePeers_spec (t : Topo) (p r : Nat) :
    r ∈ t.stagePeers p ↔ r < t.world ∧ t.pipeOf r = p := by
  exact stagePeers_spec' t p r

/-! ### the assignment -/

/-- **stage agreement**: the inverse worker is a function of the cost dictionary and the pipeline
    stage only — two ranks of the same stage compute the same answer -/
theorem stage_agrees (c : Cfg) {r r' : Nat} (h : c.t.pipeOf r = c.t.pipeOf r') (layer : String) :
    c.invWorker (c.t.pipeOf r) layer = c.invWorker (c.t.pipeOf r') layer := by
  rw [h]

/-- every layer of the dictionary gets an inverse worker, and it is a rank of the stage -/
theorem inv_worker_in_stage (c : Cfg) (h : TopoOK c.t) (hw : WorkOK c.work) {p : Nat} (hp : p < c.t.pp)
    {l : String × List (String × Nat)} (hl : l ∈ c.work) :
    ∃ inv, c.invWorker p l.1 = some inv ∧ inv ∈ c.t.stagePeers p := by
  have _ := hw  -- not needed by the proof (lookup returns the first match)
  exact inv_worker_in_stage' c h hp hl

/-- **least-loaded greedy**: every placement goes to the FIRST index of minimum load … -/
theorem place_first_min (loads : List Nat) (hne : loads ≠ []) (l : String) (cst : Nat) (t : List (String × Nat)) :
    ((place loads ((l, cst) :: t)).2.head? = some (l, argminIdx loads)) ∧
    argminIdx loads < loads.length ∧
    (∀ j, j < loads.length → loads.getD (argminIdx loads) 0 ≤ loads.getD j 0) ∧
    (∀ j, j < argminIdx loads → loads.getD (argminIdx loads) 0 < loads.getD j 0) := by
  exact place_first_min' loads hne l cst t

/-- … layers are taken in `(cost, name)` descending order … -/
theorem sortedWork_sorted (work : Work) :
    (sortedWork work).Pairwise (fun a b => layerLe a b = true) ∧
    (sortedWork work).Perm (work.map fun l => (l.1, sumCosts l.2)) := by
  exact sortedWork_sorted' work

/-- … and at the end two stage ranks differ in load by at most the largest layer cost -/
theorem stage_balance (n : Nat) (hn : 0 < n) (items : List (String × Nat)) :
    ∀ i j, i < n → j < n →
      (place (List.replicate n 0) items).1.getD i 0
        ≤ (place (List.replicate n 0) items).1.getD j 0 + (items.map (·.2)).foldl max 0 := by
  exact stage_balance' n hn items

/-- **factor worker**: lies in the rank's own model-parallel group and in the inverse worker's
    data-parallel group, and is the only such rank -/
theorem factor_worker_spec (c : Cfg) (h : TopoOK c.t) (hw : WorkOK c.work) {loc : Nat} (hl : loc < c.t.world)
    {l : String × List (String × Nat)} (hlw : l ∈ c.work) :
    ∃ inv fw, c.invWorker (c.t.pipeOf loc) l.1 = some inv ∧ c.factorWorker loc l.1 = some fw ∧
      fw ∈ c.modelPeers loc ∧ fw ∈ c.dataPeers inv ∧
      ∀ x, x ∈ c.modelPeers loc → x ∈ c.dataPeers inv → x = fw := by
  have _ := hw  -- not needed by the proof
  exact factor_worker_spec' c h hl hlw

/-- **gradient source**: lies in the rank's own data-parallel group, holds the same model-parallel
    shard (same model coordinate), is a model-parallel peer of the inverse worker, and is unique -/
theorem src_spec (c : Cfg) (h : TopoOK c.t) (hw : WorkOK c.work) {loc : Nat} (hl : loc < c.t.world)
    {l : String × List (String × Nat)} (hlw : l ∈ c.work) :
    ∃ inv s, c.invWorker (c.t.pipeOf loc) l.1 = some inv ∧ c.srcGradWorker loc l.1 = some s ∧
      s ∈ c.dataPeers loc ∧ c.t.modelOf s = c.t.modelOf loc ∧ s ∈ c.modelPeers inv ∧
      c.isGradWorker s l.1 = true ∧
      ∀ x, x ∈ c.dataPeers loc → x ∈ c.modelPeers inv → x = s := by
  have _ := hw  -- not needed by the proof
  exact src_spec' c h hl hlw

/-- **gradient workers** are exactly the model-parallel peers of the inverse worker -/
theorem grad_workers_are_mp_peers (c : Cfg) (h : TopoOK c.t) (hw : WorkOK c.work) {loc : Nat}
    (hl : loc < c.t.world) {l : String × List (String × Nat)} (hlw : l ∈ c.work) :
    ∃ inv, c.invWorker (c.t.pipeOf loc) l.1 = some inv ∧
      (c.isGradWorker loc l.1 = true ↔ loc ∈ c.modelPeers inv) := by
  have _ := hw  -- not needed by the proof
  exact grad_workers_are_mp_peers' c h hl hlw

/-! ### process groups -/

/-- a reused handle has exactly the stage peers as members -/
theorem peer_group_reuse_correct (c : Cfg) (h : TopoOK c.t) {loc : Nat} (hl : loc < c.t.world) :
    (c.peerGroup loc = .modelGroup → ∀ r, r ∈ c.modelPeers loc ↔ r ∈ c.t.stagePeers (c.t.pipeOf loc)) ∧
    (c.peerGroup loc = .dataGroup → ∀ r, r ∈ c.dataPeers loc ↔ r ∈ c.t.stagePeers (c.t.pipeOf loc)) ∧
    (∀ m, c.peerGroup loc = .created m → m = c.t.stagePeers (c.t.pipeOf loc)) := by
  have _ := h; have _ := hl  -- not needed by the proof (holds by unfolding `sameSet`)
  exact peer_group_reuse_correct' c loc

/-- which branch is taken depends on the topology only: model group iff dp = 1, data group iff
    dp ≠ 1 ∧ mp = 1 — the same on every rank -/
theorem peer_group_branch (c : Cfg) (h : TopoOK c.t) {loc : Nat} (hl : loc < c.t.world) :
    (c.peerGroup loc = .modelGroup ↔ c.t.dp = 1) ∧
    (c.peerGroup loc = .dataGroup ↔ c.t.dp ≠ 1 ∧ c.t.mp = 1) := by
  exact peer_group_branch' c h hl

/-- **same order on every rank**: all ranks issue the same `new_group` calls in the same order -/
theorem new_group_same_order (c : Cfg) (h : TopoOK c.t) {r r' : Nat} (hr : r < c.t.world) (hr' : r' < c.t.world) :
    c.newGroupCalls r = c.newGroupCalls r' := by
  exact new_group_same_order' c h hr hr'

/-- the rank's own stage is among the groups it creates (so it does obtain a handle) -/
theorem own_stage_created (c : Cfg) (h : TopoOK c.t) {loc : Nat} (hl : loc < c.t.world) (m : List Nat)
    (hm : c.peerGroup loc = .created m) : m ∈ c.newGroupCalls loc := by
  exact own_stage_created' c h hl m hm

end KV.C12
