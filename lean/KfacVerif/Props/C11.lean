/-
C11 — model-parallel sharding is transparent to GPT-NeoX preconditioning.
Structural theorems about M-NeoxLayer for every model-parallel degree, both parallelism kinds, bias
on/off and all shapes whose sharded dimension is divisible by the degree: gather∘split = id,
split∘gather = id, the emulated scatter delivers shard i to member i, hence after
`preconditioned_grad` member i holds shard i of P(gathered gradient) for ANY preconditioning map P
(in particular the eigen formula of C01); advertised factor shapes are those of the unsharded layer;
which group reduces which factor.  Assignment facts (same model coordinate for data-parallel
sources, primaries) are C12.  `clip_transparent` is FALSE for degree > 1 (finding F1): the proved
statement is the `nu = 1` part.  Property theorems only; helpers in Lemmas/NeoxLayerL.lean.
-/
import KfacVerif.Lemmas.NeoxLayerL
import KfacVerif.Lemmas.NeoxScriptL
import KfacVerif.Lemmas.ResumeScriptL
import KfacVerif.Props.C03

namespace KV.C11
open KV KV.NeoxL

def RowsOK (mp : Nat) (A : Mat) : Prop := 0 < mp ∧ mp ∣ A.length
def ColsOK (mp cols : Nat) (A : Mat) : Prop := 0 < mp ∧ mp ∣ cols ∧ ∀ r ∈ A, r.length = cols

theorem gather_split_rows (mp : Nat) (A : Mat) (h : RowsOK mp A) : gatherRows (splitRows mp A) = A :=
  gather_split_rows_l mp A h.1 h.2

theorem split_gather_rows (mp k : Nat) (parts : List Mat) (hl : parts.length = mp) (hk : 0 < k)
    (hp : ∀ p ∈ parts, p.length = k) : splitRows mp (gatherRows parts) = parts :=
  split_gather_rows_l mp k parts hl hk hp

theorem gather_split_cols (mp cols : Nat) (A : Mat) (h : ColsOK mp cols A) :
    gatherCols A.length (splitCols mp cols A) = A :=
  gather_split_cols_l mp cols A h.1 h.2.1 h.2.2

theorem split_gather_cols (mp k rows : Nat) (parts : List Mat) (hl : parts.length = mp) (hk : 0 < k)
    (hp : ∀ p ∈ parts, p.length = rows ∧ ∀ r ∈ p, r.length = k) :
    splitCols mp (mp * k) (gatherCols rows parts) = parts :=
  split_gather_cols_l mp k rows parts hl hk hp

/-- the scatter emulated with reduce_scatter (shards from the primary, zeros from everyone else)
    delivers exactly shard `i` to member `i` -/
theorem scatter_is_shard (mp primary i : Nat) (shards : List Mat) (hp : primary < mp) (hi : i < shards.length) :
    scatterFrom mp primary shards i = shards.getD i [] :=
  scatter_is_shard_l mp primary i shards hp hi

/-- **every member ends with its shard of the preconditioned gathered gradient**, for ANY
    preconditioning map `P` that preserves the shape — column-parallel without bias … -/
theorem shard_of_precond_col (mp primary i : Nat) (w : List Mat) (P : Mat → Mat) (hmp : 0 < mp)
    (hp : primary < mp) (hi : i < mp) (hw : w.length = mp) :
    (neoxPrecond .col mp primary 0 0 w none P i).1 = (splitRows mp (P (gatherRows w))).getD i [] := by
  rw [shard_of_precond_l .col mp primary i 0 0 w none P hmp hp hi]; rfl

/-- … row-parallel without bias … -/
theorem shard_of_precond_row (mp primary i rows wcols : Nat) (w : List Mat) (P : Mat → Mat) (hmp : 0 < mp)
    (hp : primary < mp) (hi : i < mp) (hw : w.length = mp) :
    (neoxPrecond .row mp primary rows wcols w none P i).1 = (splitCols mp wcols (P (gatherCols rows w))).getD i [] := by
  rw [shard_of_precond_l .row mp primary i rows wcols w none P hmp hp hi]; rfl

/-- … and in general `neoxPrecond = shardOf ∘ P ∘ gatherCombined` -/
theorem shard_of_precond (par : Par) (mp primary i rows wcols : Nat) (w : List Mat)
    (b : Option (List (List Rat))) (P : Mat → Mat) (hmp : 0 < mp) (hp : primary < mp) (hi : i < mp) :
    neoxPrecond par mp primary rows wcols w b P i =
      shardOf par mp b.isSome wcols (P (gatherCombined par rows w b primary)) i :=
  shard_of_precond_l par mp primary i rows wcols w b P hmp hp hi

/-- identity preconditioning returns every rank's own shard (nothing is permuted or lost):
    column-parallel -/
theorem identity_roundtrip_col (mp primary i k : Nat) (w : List Mat) (hmp : 0 < mp) (hp : primary < mp)
    (hi : i < mp) (hw : w.length = mp) (hk : 0 < k) (hwk : ∀ p ∈ w, p.length = k) :
    (neoxPrecond .col mp primary 0 0 w none id i).1 = w.getD i [] := by
  rw [shard_of_precond_l .col mp primary i 0 0 w none id hmp hp hi]
  exact congrArg (·.getD i []) (split_gather_rows_l mp k w hw hk hwk)

theorem identity_roundtrip_row (mp primary i k rows : Nat) (w : List Mat) (hmp : 0 < mp) (hp : primary < mp)
    (hi : i < mp) (hw : w.length = mp) (hk : 0 < k)
    (hwk : ∀ p ∈ w, p.length = rows ∧ ∀ r ∈ p, r.length = k) :
    (neoxPrecond .row mp primary rows (mp * k) w none id i).1 = w.getD i [] := by
  rw [shard_of_precond_l .row mp primary i rows (mp * k) w none id hmp hp hi]
  exact congrArg (·.getD i []) (split_gather_cols_l mp k rows w hw hk hwk)

/-- **factor shapes are those of the unsharded layer** -/
theorem factor_shapes_unsharded (mp fullIn fullOut : Nat) (hasBias : Bool) (hmp : 0 < mp)
    (hin : mp ∣ fullIn) (hout : mp ∣ fullOut) :
    aDim .row mp (fullIn / mp) hasBias = fullIn + (if hasBias then 1 else 0) ∧
    gDim .row mp fullOut = fullOut ∧
    aDim .col mp fullIn hasBias = fullIn + (if hasBias then 1 else 0) ∧
    gDim .col mp (fullOut / mp) = fullOut :=
  factor_shapes_unsharded_l mp fullIn fullOut hasBias hmp hin hout

/-- **reduction groups**: the sharded factor is reduced over the data-parallel group by primaries,
    the replicated factor over all stage peers -/
theorem reduction_groups :
    reduceGroup .row true = .dataParallelOnPrimary ∧ reduceGroup .row false = .stagePeers ∧
    reduceGroup .col true = .stagePeers ∧ reduceGroup .col false = .dataParallelOnPrimary :=
  ⟨rfl, rfl, rfl, rfl⟩

/-- averaging `mp` identical copies per data-parallel replica over all `dp·mp` stage peers is the
    average over the `dp` replicas: the replicated factor is the unsharded layer's factor -/
theorem replicated_mean (dp mp : Nat) (hdp : 0 < dp) (hmp : 0 < mp) (x : Nat → Rat) :
    (((List.range dp).flatMap fun d => (List.range mp).map fun _ => x d).foldl (· + ·) 0) / ((dp * mp : Nat) : Rat)
      = (((List.range dp).map x).foldl (· + ·) 0) / (dp : Rat) :=
  replicated_mean_l dp mp hdp hmp x

/-! ## the collectives of the GPT-NeoX path as one global script (M-NeoxScript)

Model: KV.NeoxS (Model/NeoxScript.lean) = the communication skeleton of kfac/gpt_neox/layer.py, mpu.py
and of the hook/step() code of base_preconditioner.py under GPTNeoXAssignment, with the bucketing
communicator of M-Comm.  Tied to the code on every run: every rank's issued collectives (kind, members,
element count, root) are compared exactly, in order, with the projection of the script.
`NCfgOK`, `toG` are defined in Lemmas/NeoxScriptL.lean (namespace KV.C11S). -/
section NeoxScript
open KV.Neox KV.NeoxS KV.C12 KV.C11S

/-- **the GPT-NeoX script is well formed** for every topology, every layer list, every bucket
    capacity and every history of training passes, steps and checkpoint saves / loads (in memory or
    into a directory, into a fresh or into the running preconditioner): members are ranks of the world,
    no collective is entered by a single rank, every broadcast root is a member.  (The checkpoint calls
    are not short-circuited for a world of one, hence the hypothesis on histories with checkpoints.) -/
theorem neox_script_wf (c : NeoxS.Cfg) (hc : NCfgOK c) (ops : List Op)
    (hw : 2 ≤ c.t.world ∨ ∀ op ∈ ops, op.isCkpt = false) :
    KV.Sched2.wf c.t.world ((run c ops).acts.map toG) = true := by
  exact run_wf c hc ops hw

/-- hence the per-rank programs (projections) satisfy the scheduler invariant: with the generic
    theorems of C03 (`no_deadlock`, `terminal_all_done`, `match_per_group`) no rank ever stalls on
    the GPT-NeoX path under any interleaving, and members of a group issue matching sequences -/
theorem neox_consistent (c : NeoxS.Cfg) (hc : NCfgOK c) (ops : List Op)
    (hw : 2 ≤ c.t.world ∨ ∀ op ∈ ops, op.isCkpt = false) :
    KV.Sched2.SInv (KV.Sched2.eventsOf ((run c ops).acts.map toG)) c.t.world
      (KV.Sched2.initOf ((run c ops).acts.map toG) c.t.world) :=
  KV.C03.script_consistent _ _ (neox_script_wf c hc ops hw)

/-- **group-specific communication**: every collective runs on a model-parallel group, on a
    data-parallel group or on the peers of one pipeline stage, and its kind fits the group:
    gathers/scatters only inside model-parallel groups, all-reduces (factors) only over
    data-parallel groups or stage peers, broadcasts inside a model-parallel group (replicated bias)
    or a data-parallel group (preconditioned gradient); the object gather and the barriers of a
    checkpoint run on the whole world -/
theorem neox_groups (c : NeoxS.Cfg) (hc : NCfgOK c) (ops : List Op) (a : NAct) (ha : a ∈ (run c ops).acts) :
    (∃ p d, p < c.t.pp ∧ d < c.t.dp ∧ a.members = modelGroup c p d ∧
        (a.kind = .allgather ∨ a.kind = .reducescatter ∨ a.kind = .broadcast)) ∨
    (∃ p m, p < c.t.pp ∧ m < c.t.mp ∧ a.members = dataGroup c p m ∧
        (a.kind = .allreduce ∨ a.kind = .broadcast)) ∨
    (∃ p, p < c.t.pp ∧ a.members = c.t.stagePeers p ∧ a.kind = .allreduce) ∨
    (a.members = worldGroup c ∧ (a.kind = .gatherobj ∨ a.kind = .barrier)) := by
  exact run_groups c hc ops a ha

/-- **the sharded factor is reduced by exactly the ranks that gathered it**: the data-parallel
    group used by `fwdLayer`/`bwdLayer` for the sharded factor of a layer consists of the ranks of
    the stage that are their own factor worker (primary rank) for that layer, and it contains the
    inverse worker -/
theorem reduce_group_is_primaries (c : NeoxS.Cfg) (hc : NCfgOK c) {p : Nat} (hp : p < c.t.pp)
    (l : Layer) (hl : l ∈ c.stages.getD p []) (loc : Nat) (hloc : loc < c.t.world) (hs : c.t.pipeOf loc = p) :
    (loc ∈ dataGroup c p (c.t.modelOf (invOf c p l)) ↔ (asg c p).factorWorker loc l.name = some loc) ∧
    invOf c p l ∈ dataGroup c p (c.t.modelOf (invOf c p l)) := by
  exact reduce_group c hc.topo hp l hl loc hloc hs

/-- **roots agree with the assignment (C12)**: the gradient broadcast on data-parallel group
    `(p, m)` is rooted at what `src_grad_worker` answers on every member of that group, and the
    replicated-bias broadcast inside the inverse worker's model-parallel group is rooted at the
    inverse worker, which is the factor worker of every member of that group -/
theorem roots_agree (c : NeoxS.Cfg) (hc : NCfgOK c) {p : Nat} (hp : p < c.t.pp)
    (l : Layer) (hl : l ∈ c.stages.getD p []) (loc : Nat) (hloc : loc < c.t.world) (hs : c.t.pipeOf loc = p) :
    (asg c p).srcGradWorker loc l.name = some (c.t.rankOf p (c.t.dataOf (invOf c p l)) (c.t.modelOf loc)) ∧
    (loc ∈ modelGroup c p (c.t.dataOf (invOf c p l)) → (asg c p).factorWorker loc l.name = some (invOf c p l)) := by
  exact roots c hc.topo hp l hl loc hloc hs

/-- **nothing is left in a bucket after a step**: every factor submitted to the bucketed
    communicator has been sent when `step()` returns -/
theorem no_pending_after_step (c : NeoxS.Cfg) (s : St) :
    Comm.pending (stepOp c s).comm = [] := by
  exact stepOp_pending c s

/-- **iterations that are not factor-update iterations are silent in the hooks** -/
theorem silent_pass (c : NeoxS.Cfg) (s : St) (h : s.steps % c.fus ≠ 0) : trainPass c s = s := by
  exact trainPass_silent c s h

/-- **accumulation / deferred updates**: a training pass that is not the last micro-batch of its
    accumulation window, or any pass when the factors are updated in `step()` instead of the hooks,
    issues nothing but the gathers of the sharded activations and output gradients (no factor
    all-reduce, bucketed or not) -/
theorem pass_only_gathers (c : NeoxS.Cfg) (s : St)
    (h : ¬ (c.hook = true ∧ (s.mini + 1) % c.accum = 0)) :
    ∃ extra, (trainPass c s).acts = s.acts ++ extra ∧ ∀ a ∈ extra, a.kind = .allgather := by
  exact pass_only_gathers_l c s h

/-- **a checkpoint involves every rank**: each object gather / barrier of the script is in the program
    of every rank of the world (so a rank that skips `state_dict()` or `load_state_dict()`, or returns
    from it early, breaks the script) -/
theorem ckpt_every_rank (c : NeoxS.Cfg) (hc : NCfgOK c) (ops : List Op) (a : NAct) (ha : a ∈ (run c ops).acts)
    (hk : a.kind = .gatherobj ∨ a.kind = .barrier) (r : Nat) (hr : r < c.t.world) :
    a ∈ project r (run c ops).acts := by
  exact ckpt_every_rank_l c hc ops a ha hk r hr

/-- **what a checkpoint costs**: `state_dict()` appends exactly one object gather and one barrier
    (memory) or exactly one barrier (directory); `load_state_dict()` exactly one barrier (memory) or
    nothing (directory) — whatever the topology, the layers and the state -/
theorem ckpt_script (c : NeoxS.Cfg) (s : St) (fresh : Bool) :
    (saveOp c false s).acts = s.acts ++ [⟨worldGroup c, .gatherobj, 1, 0⟩, ⟨worldGroup c, .barrier, 1, 0⟩] ∧
    (saveOp c true s).acts = s.acts ++ [⟨worldGroup c, .barrier, 1, 0⟩] ∧
    (loadOp c false fresh s).acts = s.acts ++ [⟨worldGroup c, .barrier, 1, 0⟩] ∧
    (loadOp c true fresh s).acts = s.acts := by
  exact ckpt_script_l c s fresh

/-- **save then load restores the step count** (and an in-place roll-back returns to the step count of
    the last save, however many steps were taken in between) -/
theorem load_restores_steps (c : NeoxS.Cfg) (s : St) (dir dir' fresh : Bool) (ops : List Op)
    (h : ∀ op ∈ ops, op.isCkpt = false) :
    (loadOp c dir' fresh (ops.foldl (apply c) (saveOp c dir s))).steps = s.steps := by
  exact load_restores_steps_l c s dir dir' fresh ops h

/-- **resuming is transparent for the communication script** (partial): from a state whose communicator
    is as freshly constructed (always the case without bucketing; with bucketing only before the first
    factor reduction) and with no micro-batch counted, saving and loading into a fresh preconditioner,
    then continuing with any history of passes and steps, issues exactly the collectives of the
    uninterrupted run, preceded by those of the checkpoint itself.
    (Kept as the state-level form for communicators that are literally fresh; the full statement for every
    step boundary reached by a run, bucketed or not, is `resume_same_script` below.) -/
theorem resume_same_script_partial (c : NeoxS.Cfg) (s : St) (dir : Bool) (ops : List Op)
    (hb : s.comm = { cap := c.cap, buckets := [] }) (hm : s.mini = 0)
    (h : ∀ op ∈ ops, op.isCkpt = false) :
    ∃ ck, (loadOp c dir true (saveOp c dir s)).acts = s.acts ++ ck ∧
      (ops.foldl (apply c) (loadOp c dir true (saveOp c dir s))).acts =
        s.acts ++ ck ++ ((ops.foldl (apply c) s).acts.drop s.acts.length) := by
  exact resume_same_script_partial_l c s dir ops hb hm h

/-- histories of training passes and steps only -/
def NoCkpt (ops : List Op) : Prop := ∀ op ∈ ops, op.isCkpt = false

/-- a step boundary: the last op is a step (so every bucket has been flushed and no micro-batch is
    counted), or nothing has happened yet -/
def AtBoundary (pre : List Op) : Prop := pre = [] ∨ pre.getLast? = some Op.step

/-- **resuming is transparent for the communication script** (full statement): for every configuration
    (bucketed or not), every history `pre` of passes and steps that ends at a step boundary, and every
    continuation `ops` of passes and steps: saving, loading into a freshly constructed preconditioner and
    continuing issues exactly the collectives of the uninterrupted run, with those of the checkpoint itself
    in between.  (The running communicator keeps its emptied buckets in first-use order, the fresh one has
    none; the proof shows that every factor-update iteration uses the bucket keys in one canonical order, so
    the two communicators coincide again after the first such iteration and emit the same events before.) -/
theorem resume_same_script (c : NeoxS.Cfg) (dir : Bool) (pre ops : List Op)
    (hpre : NoCkpt pre) (hb : AtBoundary pre) (hops : NoCkpt ops) :
    ∃ ck, (run c (pre ++ [Op.save dir, Op.load dir true])).acts = (run c pre).acts ++ ck ∧
      (run c (pre ++ [Op.save dir, Op.load dir true] ++ ops)).acts =
        (run c pre).acts ++ ck ++ ((run c (pre ++ ops)).acts.drop (run c pre).acts.length) := by
  have hri : RI c (run c pre) := RI_run c pre hpre
  have hbd : (∀ e ∈ (run c pre).comm.buckets, e.2 = none) ∧ (run c pre).mini = 0 := by
    rcases hb with rfl | hb
    · exact ⟨fun e he => by simp [run, St.init] at he, rfl⟩
    · obtain ⟨pre', rfl⟩ := List.getLast?_eq_some_iff.1 hb
      have e : run c (pre' ++ [Op.step]) = stepOp c (run c pre') := by
        simp [run, List.foldl_append, apply]
      rw [e]
      exact ⟨stepOp_allnone c _, stepOp_mini c _⟩
  have e1 : run c (pre ++ [Op.save dir, Op.load dir true]) =
      loadOp c dir true (saveOp c dir (run c pre)) := by
    simp [run, List.foldl_append, apply]
  have e2 : run c (pre ++ [Op.save dir, Op.load dir true] ++ ops) =
      ops.foldl (apply c) (loadOp c dir true (saveOp c dir (run c pre))) := by
    simp [run, List.foldl_append, apply]
  have e3 : run c (pre ++ ops) = ops.foldl (apply c) (run c pre) := by
    simp [run, List.foldl_append]
  rw [e1, e2, e3]
  exact resume_same_script_state c (run c pre) dir ops hri hbd.1 hbd.2 hops

/-- non-vacuity: a 2×2×2 topology with one column/row block per stage meets `NCfgOK` and its script
    is not empty -/
def demoCfg : NeoxS.Cfg :=
  { t := ⟨2, 2, 2⟩,
    stages := [[⟨"0", .col, 2, 4, true⟩, ⟨"2", .row, 4, 2, true⟩], [⟨"3", .col, 2, 4, true⟩, ⟨"5", .row, 4, 2, false⟩]],
    tokens := 4, fus := 1, ius := 1, bucketed := true, cap := 200, esize := 8, sym := true, cube := true }

example : (run demoCfg [.train, .step, .save false, .load false true, .train, .step]).acts.length =
    (run demoCfg [.train, .step, .train, .step]).acts.length + 3 := by
  decide +kernel

/-- the hypotheses of `resume_same_script_partial` hold at every step boundary of an unbucketed run -/
example : (run { demoCfg with bucketed := false } [.train, .step]).comm = { cap := demoCfg.cap, buckets := [] } ∧
    (run { demoCfg with bucketed := false } [.train, .step]).mini = 0 := by
  decide +kernel

/-- the hypotheses of `resume_same_script` are met by ordinary bucketed histories -/
example : NoCkpt [Op.train, .step, .train, .step] ∧ AtBoundary [Op.train, .step, .train, .step] ∧ demoCfg.bucketed = true := by
  refine ⟨?_, Or.inr (by simp), rfl⟩
  intro op h
  simp only [List.mem_cons, List.not_mem_nil, or_false] at h
  rcases h with rfl | rfl | rfl | rfl <;> rfl

example : NCfgOK demoCfg ∧ (run demoCfg [.train, .step]).acts ≠ [] := by
  refine ⟨⟨⟨by decide, by decide, by decide⟩, by decide, ?_⟩, by decide +kernel⟩
  intro p hp
  have : p = 0 ∨ p = 1 := by change p < 2 at hp; omega
  rcases this with rfl | rfl <;> simp [demoCfg]


end NeoxScript

end KV.C11
