/-
C11 — model-parallel sharding is transparent to GPT-NeoX preconditioning.
Structural theorems about M-NeoxLayer for every model-parallel degree, both parallelism kinds, bias
on/off and all shapes whose sharded dimension is divisible by the degree: gather∘split = id,
split∘gather = id, the emulated scatter delivers shard i to member i, hence after
`preconditioned_grad` member i holds shard i of P(gathered gradient) for ANY preconditioning map P
(in particular the eigen formula of C01); advertised factor shapes are those of the unsharded layer;
which group reduces which factor.  Assignment facts (same model coordinate for data-parallel
sources, primaries) are C12.  `clip_transparent` is FALSE for degree > 1 (finding F1): the proved
statement is the `nu = 1` part.  Property theorems only; helpers in Lemmas/NeoxLayerL.lean.
-/
import KfacVerif.Lemmas.NeoxLayerL

namespace KV.C11
open KV KV.NeoxL

def RowsOK (mp : Nat) (A : Mat) : Prop := 0 < mp ∧ mp ∣ A.length
def ColsOK (mp cols : Nat) (A : Mat) : Prop := 0 < mp ∧ mp ∣ cols ∧ ∀ r ∈ A, r.length = cols

theorem gather_split_rows (mp : Nat) (A : Mat) (h : RowsOK mp A) : gatherRows (splitRows mp A) = A :=
  gather_split_rows_l mp A h.1 h.2

theorem split_gather_rows (mp k : Nat) (parts : List Mat) (hl : parts.length = mp) (hk : 0 < k)
    (hp : ∀ p ∈ parts, p.length = k) : splitRows mp (gatherRows parts) = parts :=
  split_gather_rows_l mp k parts hl hk hp

theorem gather_split_cols (mp cols : Nat) (A : Mat) (h : ColsOK mp cols A) :
    gatherCols A.length (splitCols mp cols A) = A :=
  gather_split_cols_l mp cols A h.1 h.2.1 h.2.2

theorem split_gather_cols (mp k rows : Nat) (parts : List Mat) (hl : parts.length = mp) (hk : 0 < k)
    (hp : ∀ p ∈ parts, p.length = rows ∧ ∀ r ∈ p, r.length = k) :
    splitCols mp (mp * k) (gatherCols rows parts) = parts :=
  split_gather_cols_l mp k rows parts hl hk hp

/-- the scatter emulated with reduce_scatter (shards from the primary, zeros from everyone else)
    delivers exactly shard `i` to member `i` -/
theorem scatter_is_shard (mp primary i : Nat) (shards : List Mat) (hp : primary < mp) (hi : i < shards.length) :
    scatterFrom mp primary shards i = shards.getD i [] :=
  scatter_is_shard_l mp primary i shards hp hi

/-- **every member ends with its shard of the preconditioned gathered gradient**, for ANY
    preconditioning map `P` that preserves the shape — column-parallel without bias … -/
theorem shard_of_precond_col (mp primary i : Nat) (w : List Mat) (P : Mat → Mat) (hmp : 0 < mp)
    (hp : primary < mp) (hi : i < mp) (hw : w.length = mp) :
    (neoxPrecond .col mp primary 0 0 w none P i).1 = (splitRows mp (P (gatherRows w))).getD i [] := by
  rw [shard_of_precond_l .col mp primary i 0 0 w none P hmp hp hi]; rfl

/-- … row-parallel without bias … -/
theorem shard_of_precond_row (mp primary i rows wcols : Nat) (w : List Mat) (P : Mat → Mat) (hmp : 0 < mp)
    (hp : primary < mp) (hi : i < mp) (hw : w.length = mp) :
    (neoxPrecond .row mp primary rows wcols w none P i).1 = (splitCols mp wcols (P (gatherCols rows w))).getD i [] := by
  rw [shard_of_precond_l .row mp primary i rows wcols w none P hmp hp hi]; rfl

/-- … and in general `neoxPrecond = shardOf ∘ P ∘ gatherCombined` -/
theorem shard_of_precond (par : Par) (mp primary i rows wcols : Nat) (w : List Mat)
    (b : Option (List (List Rat))) (P : Mat → Mat) (hmp : 0 < mp) (hp : primary < mp) (hi : i < mp) :
    neoxPrecond par mp primary rows wcols w b P i =
      shardOf par mp b.isSome wcols (P (gatherCombined par rows w b primary)) i :=
  shard_of_precond_l par mp primary i rows wcols w b P hmp hp hi

/-- identity preconditioning returns every rank's own shard (nothing is permuted or lost):
    column-parallel -/
theorem identity_roundtrip_col (mp primary i k : Nat) (w : List Mat) (hmp : 0 < mp) (hp : primary < mp)
    (hi : i < mp) (hw : w.length = mp) (hk : 0 < k) (hwk : ∀ p ∈ w, p.length = k) :
    (neoxPrecond .col mp primary 0 0 w none id i).1 = w.getD i [] := by
  rw [shard_of_precond_l .col mp primary i 0 0 w none id hmp hp hi]
  exact congrArg (·.getD i []) (split_gather_rows_l mp k w hw hk hwk)

theorem identity_roundtrip_row (mp primary i k rows : Nat) (w : List Mat) (hmp : 0 < mp) (hp : primary < mp)
    (hi : i < mp) (hw : w.length = mp) (hk : 0 < k)
    (hwk : ∀ p ∈ w, p.length = rows ∧ ∀ r ∈ p, r.length = k) :
    (neoxPrecond .row mp primary rows (mp * k) w none id i).1 = w.getD i [] := by
  rw [shard_of_precond_l .row mp primary i rows (mp * k) w none id hmp hp hi]
  exact congrArg (·.getD i []) (split_gather_cols_l mp k rows w hw hk hwk)

/-- **factor shapes are those of the unsharded layer** -/
theorem factor_shapes_unsharded (mp fullIn fullOut : Nat) (hasBias : Bool) (hmp : 0 < mp)
    (hin : mp ∣ fullIn) (hout : mp ∣ fullOut) :
    aDim .row mp (fullIn / mp) hasBias = fullIn + (if hasBias then 1 else 0) ∧
    gDim .row mp fullOut = fullOut ∧
    aDim .col mp fullIn hasBias = fullIn + (if hasBias then 1 else 0) ∧
    gDim .col mp (fullOut / mp) = fullOut :=
  factor_shapes_unsharded_l mp fullIn fullOut hasBias hmp hin hout

/-- **reduction groups**: the sharded factor is reduced over the data-parallel group by primaries,
    the replicated factor over all stage peers -/
theorem reduction_groups :
    reduceGroup .row true = .dataParallelOnPrimary ∧ reduceGroup .row false = .stagePeers ∧
    reduceGroup .col true = .stagePeers ∧ reduceGroup .col false = .dataParallelOnPrimary :=
  ⟨rfl, rfl, rfl, rfl⟩

/-- averaging `mp` identical copies per data-parallel replica over all `dp·mp` stage peers is the
    average over the `dp` replicas: the replicated factor is the unsharded layer's factor -/
theorem replicated_mean (dp mp : Nat) (hdp : 0 < dp) (hmp : 0 < mp) (x : Nat → Rat) :
    (((List.range dp).flatMap fun d => (List.range mp).map fun _ => x d).foldl (· + ·) 0) / ((dp * mp : Nat) : Rat)
      = (((List.range dp).map x).foldl (· + ·) 0) / (dp : Rat) :=
  replicated_mean_l dp mp hdp hmp x

end KV.C11
