import KfacVerif.Model.Precond
namespace KV.C09
theorem placeholder : (1:Nat) = 1 := rfl
end KV.C09
