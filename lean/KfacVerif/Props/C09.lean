/-
C09 — checkpoints round-trip and resuming is equivalent to never stopping.
Stated on the reference machine KV.Spec (which M-Precond refines, C05 `refines`, including its
`saveLoad` operation) and, for the exact restoration of the state on every rank, on M-Precond
itself.  Property theorems only; helpers in Lemmas/SpecFacts.lean.
-/
import KfacVerif.Lemmas.SpecFacts
import KfacVerif.Lemmas.LoadInto

namespace KV.C09
open KV KV.Precond KV.Spec

/-- **round trip on every rank** (M-Precond): loading the saved state into a fresh preconditioner
    restores the step count, the hyper-parameters and every layer's factors exactly, on every rank,
    under every strategy; micro-step counters and batch buffers start empty -/
theorem roundtrip_all_ranks (c : Cfg) (s : St) (ci : Bool)
    (hne : (Precond.saveLoad c s true ci).err = none) (hs : s.err = none) (r l : Nat)
    (hr : r < c.world) (hl : l < c.layers.length) (hshape : s.ranks.length = c.world)
    (hshape' : ∀ ls ∈ s.ranks, ls.length = c.layers.length) :
    let s' := Precond.saveLoad c s true ci
    s'.steps = s.steps ∧
    s'.hyper.fus.val s.steps = s.hyper.fus.val s.steps ∧ s'.hyper.ius.val s.steps = s.hyper.ius.val s.steps ∧
    s'.hyper.damping.val s.steps = s.hyper.damping.val s.steps ∧ s'.hyper.decay.val s.steps = s.hyper.decay.val s.steps ∧
    s'.hyper.kl.val s.steps = s.hyper.kl.val s.steps ∧ s'.hyper.lr.val s.steps = s.hyper.lr.val s.steps ∧
    ((getL s' r l).aFactor.map (·.val)) = ((getL s r l).aFactor.map (·.val)) ∧
    ((getL s' r l).gFactor.map (·.val)) = ((getL s r l).gFactor.map (·.val)) ∧
    (getL s' r l).aBatch = none ∧ (getL s' r l).gBatch = none := by
  obtain ⟨h1, h2, h3, h4, h5, h6⟩ := PF.roundtrip c s ci r l hr hl
  exact ⟨h1, by rw [h2], by rw [h2], by rw [h2], by rw [h2], by rw [h2], by rw [h2], h3, h4, h5, h6⟩

/-- **loading = recomputing the second-order data from the restored factors** (the statement's
    "otherwise" case, which is what a load with `compute_inverses=True` always does) -/
theorem load_is_refresh (c : SCfg) (s : SSt) (hb : Boundary c s)
    (hf : ∀ x ∈ s.layers, x.aFactor.isSome ∧ x.gFactor.isSome) :
    SameFutureUpTo c (Spec.saveLoad c s true true) (refreshAll c s) :=
  (SFU_iff _ _ _).mpr (load_refresh hb)

/-- states that agree on everything `precond`/`refresh`/`updateReduce` read have the same future -/
theorem same_future_same_outs (c : SCfg) (s s' : SSt) (h : SameFutureUpTo c s s') (ops : List Op) :
    outsOf c s ops = outsOf c s' ops :=
  ((SFU_iff _ _ _).mp h).outs ops

/-- **resume ≡ never stopping, case 1**: if the live second-order data had been computed from the
    saved factors with the damping the load reads (recomputing changes nothing), every continuation
    produces the same gradients as the uninterrupted run -/
theorem resume_equiv_fresh (c : SCfg) (s : SSt) (hb : Boundary c s)
    (hf : ∀ x ∈ s.layers, x.aFactor.isSome ∧ x.gFactor.isSome)
    (hfresh : SameFutureUpTo c (refreshAll c s) s) (ops : List Op) :
    outsOf c (Spec.saveLoad c s true true) ops = outsOf c s ops :=
  ((load_refresh hb).trans ((SFU_iff _ _ _).mp hfresh)).outs ops

/-- **resume ≡ never stopping, case 2**: if the next step is an inverse-update step the data is
    recomputed anyway — with or without `compute_inverses` — and again every continuation agrees -/
theorem resume_equiv_next_refresh (c : SCfg) (s : SSt) (hb : Boundary c s)
    (hf : ∀ x ∈ s.layers, x.aFactor.isSome ∧ x.gFactor.isSome) (ci : Bool)
    (hnext : s.steps % s.hyper.ius.val s.steps = 0) (ops : List Op) :
    outsOf c (Spec.saveLoad c s true ci) (List.replicate c.accum (.fwdBwd true) ++ .step :: ops)
      = outsOf c s (List.replicate c.accum (.fwdBwd true) ++ .step :: ops) := by
  obtain ⟨h1, h2, _, _, _, h6⟩ := Spec.saveLoad_scalars c s true ci
  exact passes_then_step c ops c.accum _ _ (saveLoad_rel hb ci) h6 (by rw [h1, h2]; exact hnext)

/-- **otherwise**: exactly the gradients obtained with second-order data recomputed from the
    restored factors -/
theorem resume_otherwise (c : SCfg) (s : SSt) (hb : Boundary c s)
    (hf : ∀ x ∈ s.layers, x.aFactor.isSome ∧ x.gFactor.isSome) (ops : List Op) :
    outsOf c (Spec.saveLoad c s true true) ops = outsOf c (refreshAll c s) ops :=
  (load_refresh hb).outs ops

/-- the round trip on the reference machine: step count, hyper-parameters, factors and registered
    values survive; with the factors left out only those are lost -/
theorem roundtrip_spec (c : SCfg) (s : SSt) (inclF ci : Bool) (l : Nat) (hl : l < c.nLayers)
    (hlen : s.layers.length = c.nLayers) :
    let s' := Spec.saveLoad c s inclF ci
    s'.steps = s.steps ∧ s'.hyper = s.hyper ∧ s'.defs = s.defs ∧ s'.pass = s.pass ∧
    (inclF = true → (getS s' l).aFactor = (getS s l).aFactor ∧ (getS s' l).gFactor = (getS s l).gFactor) ∧
    (inclF = false → (getS s' l).aFactor = none ∧ (getS s' l).gFactor = none) := by
  obtain ⟨h1, h2, h3, h4, _, _⟩ := Spec.saveLoad_scalars c s inclF ci
  refine ⟨h1, h2, h3, h4, ?_, ?_⟩
  · rintro rfl
    have h := roundtrip_fac c s ci l hl
    exact ⟨congrArg Prod.fst h, congrArg Prod.snd h⟩
  · rintro rfl
    rw [roundtrip_nofac]
    exact ⟨rfl, rfl⟩

/-- loading a state that was kept in memory while training went on (roll-back) is the same
    operation as save-then-load at the moment the state was taken (M-Precond) -/
theorem saveLoad_is_loadInto (c : Cfg) (s : St) (f ci : Bool) :
    Precond.saveLoad c s f ci = Precond.loadInto c (Precond.saveState c s f) (Precond.saveState c s f) f ci :=
  rfl

/-- the repaired `load_state_dict` (fix f317514: layers without factors are skipped instead of
    raising), which is what the driver executes, is the operation of the theorems above whenever
    every layer has its factors -/
theorem loadInto'_eq (c : Cfg) (cur snap : St) (f ci : Bool)
    (hs : snap.ranks.length = c.world) (hs' : ∀ ls ∈ snap.ranks, ls.length = c.layers.length)
    (hf : ∀ r l, r < c.world → l < c.layers.length →
      (getL snap r l).aFactor.isSome = true ∧ (getL snap r l).gFactor.isSome = true) :
    Precond.loadInto' c cur snap f ci = Precond.loadInto c cur snap f ci :=
  have _ := hs; have _ := hs'
  LoadInto.loadInto'_eq c cur snap f ci hf

end KV.C09
