/-
C15 — layer helpers keep factors, gradients and weights in one consistent layout.
Index-level theorems about KV.Alg (patches / featIdx / getGrad / setGrad / factor shapes), for all
channel counts, rectangular kernels, strides, zero paddings, input sizes (divisible or not), bias
on/off.  The executable definitions are compared exactly with the real helpers on integer data.
Property theorems only; helpers in Lemmas/AlgLayout.lean.
-/
import KfacVerif.Lemmas.AlgLayout

namespace KV.C15
open KV KV.Alg

/-- the (channel, kernel row, kernel column) ↔ feature index map is a bijection onto
    `0 … cin·kh·kw - 1`, channel-major then kernel row then kernel column -/
theorem feature_index_decode (cv : Conv) {c i j : Nat} (hi : i < cv.kh) (hj : j < cv.kw) :
    featC cv (featIdx cv c i j) = c ∧ featI cv (featIdx cv c i j) = i ∧ featJ cv (featIdx cv c i j) = j := by
  exact ⟨featC_featIdx cv hi hj, featI_featIdx cv hi hj, featJ_featIdx cv hj⟩

theorem feature_index_encode (cv : Conv) (hkh : 0 < cv.kh) (hkw : 0 < cv.kw) (f : Nat) :
    featIdx cv (featC cv f) (featI cv f) (featJ cv f) = f ∧ featI cv f < cv.kh ∧ featJ cv f < cv.kw := by
  exact ⟨featIdx_decode cv f, featI_lt cv hkh hkw f, Nat.mod_lt _ hkw⟩

theorem feature_index_lt (cv : Conv) {c i j : Nat} (hc : c < cv.cin) (hi : i < cv.kh) (hj : j < cv.kw) :
    featIdx cv c i j < cv.cin * cv.kh * cv.kw := by
  exact featIdx_lt cv hc hi hj

/-- **padding order**: height is padded by `ph` (= `padding[0]`), width by `pw` (= `padding[1]`);
    everything outside the input is zero -/
theorem pad_order (cv : Conv) (x : List (List (List (List Rat)))) (b c h w : Nat) :
    padded x cv b c h w =
      if h < cv.ph ∨ w < cv.pw then 0
      else ((((x.getD b []).getD c []).getD (h - cv.ph) []).getD (w - cv.pw) 0) := by
  simp [padded]

/-- **patch extraction**: one row per (sample, output row, output column) in that order, one column
    per feature; entry = the padded input at `(c, oh·s_h + i, ow·s_w + j)` -/
theorem patches_shape (cv : Conv) (H W : Nat) (x : List (List (List (List Rat)))) :
    (patches cv H W x).length = x.length * outDim H cv.kh cv.sh cv.ph * outDim W cv.kw cv.sw cv.pw ∧
    ∀ r ∈ patches cv H W x, r.length = cv.cin * cv.kh * cv.kw := by
  exact ⟨patches_length cv H W x, patches_row_length cv H W x⟩

theorem patches_entry (cv : Conv) (H W : Nat) (x : List (List (List (List Rat)))) {b y z c i j : Nat}
    (hb : b < x.length) (hy : y < outDim H cv.kh cv.sh cv.ph) (hz : z < outDim W cv.kw cv.sw cv.pw)
    (hc : c < cv.cin) (hi : i < cv.kh) (hj : j < cv.kw) :
    ent (patches cv H W x)
        ((b * outDim H cv.kh cv.sh cv.ph + y) * outDim W cv.kw cv.sw cv.pw + z) (featIdx cv c i j)
      = padded x cv b c (y * cv.sh + i) (z * cv.sw + j) := by
  exact patches_ent cv H W x hb hy hz hc hi hj

/-- **combined gradient layout**: one row per output unit; columns = the weight row, bias last -/
theorem getGrad_layout (w : Mat) (b : List Rat) (hb : b.length = w.length) {o : Nat} (ho : o < w.length) :
    (getGrad w (some b)).getD o [] = w.getD o [] ++ [b.getD o 0] ∧ (getGrad w none).getD o [] = w.getD o [] := by
  exact ⟨getGrad_some_getD w b hb ho, rfl⟩

/-- the weight gradient of a cross-correlation, as an index formula:
    `dW[o][c][i][j] = Σ_{b,y,z} g[b][o][y][z] · xpad[b][c][y·s_h+i][z·s_w+j]` -/
def convWeightGrad (cv : Conv) (N oh ow : Nat) (g : Nat → Nat → Nat → Nat → Rat)
    (x : List (List (List (List Rat)))) (o c i j : Nat) : Rat :=
  sumTo N fun b => sumTo oh fun y => sumTo ow fun z =>
    g b o y z * padded x cv b c (y * cv.sh + i) (z * cv.sw + j)

/-- **the combined gradient is the sum over samples and positions of the outer product of
    output-gradient rows and input-patch rows**: entry `(o, featIdx c i j)` of `Σ_rows gRow ⊗ patchRow`
    is the cross-correlation weight gradient `dW[o][c][i][j]` -/
theorem grad_is_sum_of_outer (cv : Conv) (H W : Nat) (x : List (List (List (List Rat))))
    (g : Nat → Nat → Nat → Nat → Rat) {o c i j : Nat} (hc : c < cv.cin) (hi : i < cv.kh) (hj : j < cv.kw) :
    let oh := outDim H cv.kh cv.sh cv.ph
    let ow := outDim W cv.kw cv.sw cv.pw
    (sumTo (x.length * oh * ow) fun r =>
        g (r / (oh * ow)) o ((r / ow) % oh) (r % ow) * ent (patches cv H W x) r (featIdx cv c i j))
      = convWeightGrad cv x.length oh ow g x o c i j := by
  intro oh ow
  rw [convWeightGrad, Nat.mul_assoc, sumTo_mul']
  refine sumTo_congr' fun b hb => ?_
  rw [sumTo_mul']
  refine sumTo_congr' fun y hy => sumTo_congr' fun z hz => ?_
  obtain ⟨h1, h2, h3⟩ := row_decode (b := b) hy hz
  have e : b * (oh * ow) + (y * ow + z) = (b * oh + y) * ow + z := by ring
  rw [e, h1, h2, h3, patches_ent cv H W x hb hy hz hc hi hj]

/-- **advertised shapes**: the A factor of a convolution is square of side `cin·kh·kw (+1 with bias)`,
    the G factor square of side `cout`; for a linear layer `in (+1)` and `out` -/
theorem conv_factor_shapes (cv : Conv) (H W : Nat) (hasBias : Bool) (x : List (List (List (List Rat))))
    (cout oh ow : Nat) (g : List (List (List (List Rat)))) :
    let n := cv.cin * cv.kh * cv.kw + (if hasBias then 1 else 0)
    (convAFactor cv H W hasBias x).length = n ∧ (∀ r ∈ convAFactor cv H W hasBias x, r.length = n) ∧
    (convGFactor cout oh ow g).length = cout ∧ (∀ r ∈ convGFactor cout oh ow g, r.length = cout) := by
  exact ⟨cov_length _ _ _, cov_row_length _ _ _, cov_length _ _ _, cov_row_length _ _ _⟩

theorem lin_factor_shapes (rows n : Nat) (hasBias : Bool) (a : Mat) :
    let k := n + (if hasBias then 1 else 0)
    (linAFactor rows n hasBias a).length = k ∧ ∀ r ∈ linAFactor rows n hasBias a, r.length = k := by
  cases hasBias
  · exact ⟨cov_length _ _ _, cov_row_length _ _ _⟩
  · exact ⟨cov_length _ _ _, cov_row_length _ _ _⟩

/-- the bias column of ones is appended LAST -/
theorem bias_column_last (a : Mat) {i : Nat} (hi : i < a.length) :
    (appendOnes a).getD i [] = a.getD i [] ++ [1] := by
  exact appendOnes_getD a hi

end KV.C15
