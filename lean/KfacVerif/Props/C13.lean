import KfacVerif.Model.Precond
namespace KV.C13
theorem placeholder : (1:Nat) = 1 := rfl
end KV.C13
