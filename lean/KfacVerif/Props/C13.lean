/-
C13 — memory and communication placement follow the KAISA strategy.
Over M-Precond (the distributed state machine tied to the code by the correspondence, which
compares holdings, memory_usage() and every collective's group/size per rank).
Property theorems only; helpers in Lemmas/Holdings.lean.
-/
import KfacVerif.Lemmas.Holdings

namespace KV.C13
open KV KV.Precond

/-- histories of the statement: construction followed by training passes, steps, eval passes,
    reset_batch, memory queries, state_dict and scheduler changes (no checkpoint load: loading
    recomputes second-order data on every rank, which is outside C13) -/
def noLoad : List Op → Prop
  | [] => True
  | .saveLoad _ _ :: _ => False
  | _ :: t => noLoad t

def hasStep : List Op → Bool
  | [] => false
  | .step :: _ => true
  | _ :: t => hasStep t

structure AsgOK (c : Cfg) : Prop where
  workers_lt : ∀ l r, r ∈ c.asg.workers l → r < c.world
  invA_mem : ∀ l, c.asg.invA l ∈ c.asg.workers l
  invG_mem : ∀ l, c.asg.invG l ∈ c.asg.workers l
  /-- without inverse broadcasts (MEM-OPT) the inverse worker is the only gradient worker -/
  nobi_single : c.asg.bcastInv = false → ∀ l, c.asg.workers l = [c.asg.invA l] ∧ c.asg.invG l = c.asg.invA l

/-- **only gradient workers ever hold second-order data** (any history without a checkpoint load) -/
theorem holds_only_workers (c : Cfg) (hc : AsgOK c) (h : Hyper) (ops : List Op) (hn : noLoad ops)
    (r l : Nat) (hh : holdsSecondOrder c (run c (St.init c h) ops) r l = true) :
    r ∈ c.asg.workers l := by
  sorry

/-- **every gradient worker holds it once a step has been taken** -/
theorem workers_hold_after_step (c : Cfg) (hc : AsgOK c) (h : Hyper) (ops : List Op) (hn : noLoad ops)
    (hs : hasStep ops = true) (hne : (run c (St.init c h) ops).err = none)
    (r l : Nat) (hl : l < c.layers.length) (hr : r ∈ c.asg.workers l)
    (hw : c.world = (run c (St.init c h) ops).ranks.length) :
    holdsSecondOrder c (run c (St.init c h) ops) r l = true := by
  sorry

/-- the three kinds of traffic -/
def isFactorTraffic (c : Cfg) (m : List Nat) (d : Desc) : Prop :=
  d.kind = .allreduce ∧ m = worldRanks c ∧ d.esize = c.fe
def isInverseTraffic (c : Cfg) (m : List Nat) (d : Desc) : Prop :=
  d.kind = .broadcast ∧ d.esize = c.ie ∧ ∃ l, m = c.asg.workers l ∧ (d.root = c.asg.invA l ∨ d.root = c.asg.invG l)
def isGradTraffic (c : Cfg) (m : List Nat) (d : Desc) : Prop :=
  d.kind = .broadcast ∧ d.esize = c.ge ∧ ∃ r0 l, m = c.asg.recv r0 ∧ d.root = c.asg.src r0 l ∧
    d.elems = (c.layers.getD l ⟨0, 0⟩).gDim * (c.layers.getD l ⟨0, 0⟩).aDim

/-- **every collective is one of: a factor all-reduce over the whole world, an inverse broadcast
    inside a gradient-worker group rooted at an inverse worker, a gradient broadcast inside a
    receiver group rooted at its source** — for every history whatsoever -/
theorem traffic_classified (c : Cfg) (h : Hyper) (ops : List Op) (m : List Nat) (d : Desc)
    (hm : GAct.issue m d ∈ (run c (St.init c h) ops).acts) :
    isFactorTraffic c m d ∨ isInverseTraffic c m d ∨ isGradTraffic c m d := by
  sorry

/-- **never under MEM-OPT**: without `broadcast_inverses` there is no inverse traffic at all
    (as long as no checkpoint is loaded — loading broadcasts only when `broadcast_inverses`) -/
theorem no_inverse_traffic (c : Cfg) (hb : c.asg.bcastInv = false) (h : Hyper) (ops : List Op)
    (m : List Nat) (d : Desc) (hm : GAct.issue m d ∈ (run c (St.init c h) ops).acts) :
    isFactorTraffic c m d ∨ isGradTraffic c m d := by
  sorry

/-- **never under COMM-OPT**: without `broadcast_gradients` there is no gradient traffic -/
theorem no_gradient_traffic (c : Cfg) (hb : c.asg.bcastGrad = false) (h : Hyper) (ops : List Op)
    (m : List Nat) (d : Desc) (hm : GAct.issue m d ∈ (run c (St.init c h) ops).acts) :
    isFactorTraffic c m d ∨ isInverseTraffic c m d := by
  sorry

/-- **a world of one communicates nothing** -/
theorem world_one_silent (c : Cfg) (hw : c.world = 1) (hwk : ∀ l, (c.asg.workers l).length ≤ 1)
    (hrv : ∀ r, (c.asg.recv r).length ≤ 1) (h : Hyper) (ops : List Op) :
    ∀ a ∈ (run c (St.init c h) ops).acts, ∀ m d, a ≠ GAct.issue m d := by
  sorry

/-- **symmetry-aware mode sends n(n+1)/2 elements per symmetric n × n matrix** … -/
theorem tri_elems (n : Nat) : triElems n true = n * (n + 1) / 2 ∧ triElems n false = n * n := by
  sorry

/-- … for every factor, when un-bucketed: a factor all-reduce carries exactly `triElems n symAware`
    elements for one of the layer's two factor sizes (a bucket carries a sum of such counts) -/
theorem factor_allreduce_elems (c : Cfg) (hu : c.bucketed = false) (h : Hyper) (ops : List Op)
    (m : List Nat) (d : Desc) (hm : GAct.issue m d ∈ (run c (St.init c h) ops).acts)
    (hk : d.kind = .allreduce) :
    ∃ l, l < c.layers.length ∧
      (d.elems = triElems (c.layers.getD l ⟨0, 0⟩).aDim c.symAware ∨
       d.elems = triElems (c.layers.getD l ⟨0, 0⟩).gDim c.symAware) := by
  sorry

/-- **reported memory = bytes of what is held**: the total is the sum of the six categories, and a
    rank that holds nothing for a layer is charged nothing for it -/
theorem mem_total (c : Cfg) (s : St) (r : Nat) :
    ((memBytes c s r).find? (·.1 == "total")).map (·.2) =
      some ((((memBytes c s r).filter (·.1 != "total")).map (·.2)).sum) := by
  sorry

end KV.C13
