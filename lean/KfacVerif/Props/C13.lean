/-
C13 — memory and communication placement follow the KAISA strategy.
Over M-Precond (the distributed state machine tied to the code by the correspondence, which
compares holdings, memory_usage() and every collective's group/size per rank).
Property theorems only; helpers in Lemmas/Holdings.lean, which also holds the definitions used by
the statements (`noLoad`, `hasStep`, `AsgOK`, `isFactorTraffic`, `isInverseTraffic`, `isGradTraffic`).
-/
import KfacVerif.Lemmas.Holdings

namespace KV.C13
open KV KV.Precond

/-- **only gradient workers ever hold second-order data** (any history without a checkpoint load) -/
theorem holds_only_workers (c : Cfg) (hc : AsgOK c) (h : Hyper) (ops : List Op) (hn : noLoad ops)
    (r l : Nat) (hh : holdsSecondOrder c (run c (St.init c h) ops) r l = true) :
    r ∈ c.asg.workers l :=
  only_workers c hc h ops hn r l hh

/-- **every gradient worker holds it once a step has been taken** -/
theorem workers_hold_after_step (c : Cfg) (hc : AsgOK c) (h : Hyper) (ops : List Op) (hn : noLoad ops)
    (hs : hasStep ops = true) (hne : (run c (St.init c h) ops).err = none)
    (r l : Nat) (hl : l < c.layers.length) (hr : r ∈ c.asg.workers l)
    (hw : c.world = (run c (St.init c h) ops).ranks.length) :
    holdsSecondOrder c (run c (St.init c h) ops) r l = true := by
  have _ := hw
  exact workers_hold c hc h ops hn hs hne r l hl hr

/-- **every collective is one of: a factor all-reduce over the whole world, an inverse broadcast
    inside a gradient-worker group rooted at an inverse worker, a gradient broadcast inside a
    receiver group rooted at its source** — for every history whatsoever -/
theorem traffic_classified (c : Cfg) (h : Hyper) (ops : List Op) (m : List Nat) (d : Desc)
    (hm : GAct.issue m d ∈ (run c (St.init c h) ops).acts) :
    isFactorTraffic c m d ∨ isInverseTraffic c m d ∨ isGradTraffic c m d :=
  classified c h ops m d hm

/-- **never under MEM-OPT**: without `broadcast_inverses` there is no inverse traffic at all
    (as long as no checkpoint is loaded — loading broadcasts only when `broadcast_inverses`) -/
theorem no_inverse_traffic (c : Cfg) (hb : c.asg.bcastInv = false) (h : Hyper) (ops : List Op)
    (m : List Nat) (d : Desc) (hm : GAct.issue m d ∈ (run c (St.init c h) ops).acts) :
    isFactorTraffic c m d ∨ isGradTraffic c m d :=
  no_inverse c hb h ops m d hm

/-- **never under COMM-OPT**: without `broadcast_gradients` there is no gradient traffic -/
theorem no_gradient_traffic (c : Cfg) (hb : c.asg.bcastGrad = false) (h : Hyper) (ops : List Op)
    (m : List Nat) (d : Desc) (hm : GAct.issue m d ∈ (run c (St.init c h) ops).acts) :
    isFactorTraffic c m d ∨ isInverseTraffic c m d :=
  no_gradient c hb h ops m d hm

/-- **a world of one communicates nothing** -/
theorem world_one_silent (c : Cfg) (hw : c.world = 1) (hwk : ∀ l, (c.asg.workers l).length = 1)
    (hrv : ∀ r, (c.asg.recv r).length ≤ 1) (h : Hyper) (ops : List Op) :
    ∀ a ∈ (run c (St.init c h) ops).acts, ∀ m d, a ≠ GAct.issue m d :=
  world_one_silent' c hw hwk hrv h ops

/-- **symmetry-aware mode sends n(n+1)/2 elements per symmetric n × n matrix** … -/
theorem tri_elems (n : Nat) : triElems n true = n * (n + 1) / 2 ∧ triElems n false = n * n :=
  tri n

/-- … for every factor, when un-bucketed: a factor all-reduce carries exactly `triElems n symAware`
    elements for one of the layer's two factor sizes (a bucket carries a sum of such counts) -/
theorem factor_allreduce_elems (c : Cfg) (hu : c.bucketed = false) (h : Hyper) (ops : List Op)
    (m : List Nat) (d : Desc) (hm : GAct.issue m d ∈ (run c (St.init c h) ops).acts)
    (hk : d.kind = .allreduce) :
    ∃ l, l < c.layers.length ∧
      (d.elems = triElems (c.layers.getD l ⟨0, 0⟩).aDim c.symAware ∨
       d.elems = triElems (c.layers.getD l ⟨0, 0⟩).gDim c.symAware) :=
  allreduce_elems c hu h ops m d hm hk

/-- **reported memory = bytes of what is held**: the total is the sum of the six categories, and a
    rank that holds nothing for a layer is charged nothing for it -/
theorem mem_total (c : Cfg) (s : St) (r : Nat) :
    ((memBytes c s r).find? (·.1 == "total")).map (·.2) =
      some ((((memBytes c s r).filter (·.1 != "total")).map (·.2)).sum) :=
  mem_total' c s r

end KV.C13
