/-
C06 — KAISA work assignment is well-formed and identical on every rank.
Property theorems only; helper lemmas live in Lemmas/Grid.lean and Lemmas/Greedy.lean.
The model (`KV.Kaisa.Cfg` and its queries) mirrors `KAISAAssignment`; CPython's set
iteration order is the parameter `gOrder`, and every theorem holds for EVERY order
satisfying `Cfg.OK` (a reordering of the columns with reordered members).
-/
import KfacVerif.Lemmas.Grid
import KfacVerif.Props.C17
import Mathlib.Tactic.Linarith
import Mathlib.Tactic.Positivity
import Mathlib.Algebra.Order.Field.Basic
import Mathlib.Algebra.Order.AbsoluteValue.Basic

namespace KV.C06
open KV KV.Kaisa

/-- what the implementation guarantees about its arguments once validation passed, and what
    the harness checks of the observed set order -/
structure OK (c : Cfg) : Prop where
  wpos : 0 < c.w
  kpos : 0 < c.k
  dvd : c.k ∣ c.w
  gne : c.gOrder ≠ []
  gperm : ∀ g ∈ c.gOrder, ∃ g' ∈ cols c.w c.k, g.Perm g'
  work : C17.WorkOK c.work
  fne : ∀ l ∈ c.work, l.2 ≠ []

/-! ### the grid: both families partition the world into equal parts -/

theorem cols_length {w k : Nat} (hk : 0 < k) (hd : k ∣ w) :
    (cols w k).length = w / k ∧ ∀ g ∈ cols w k, g.length = k ∧ g.Nodup ∧ ∀ r ∈ g, r < w :=
  cols_length' hk hd

theorem rows_length {w k : Nat} (hk : 0 < k) (hd : k ∣ w) :
    (rows w k).length = k ∧ ∀ g ∈ rows w k, g.length = w / k ∧ g.Nodup ∧ ∀ r ∈ g, r < w :=
  rows_length' hk hd

/-- every rank lies in exactly one gradient-worker group (column) -/
theorem cols_cover_unique {w k : Nat} (hk : 0 < k) (hd : k ∣ w) {r : Nat} (hr : r < w) :
    ∃ g ∈ cols w k, r ∈ g ∧ ∀ g' ∈ cols w k, r ∈ g' → g' = g :=
  cols_cover_unique' hk hd hr

/-- every rank lies in exactly one gradient-receiver group (row) -/
theorem rows_cover_unique {w k : Nat} (hk : 0 < k) (hd : k ∣ w) {r : Nat} (hr : r < w) :
    ∃ g ∈ rows w k, r ∈ g ∧ ∀ g' ∈ rows w k, r ∈ g' → g' = g :=
  rows_cover_unique' hk hd hr

/-- a row and a column meet in exactly one rank -/
theorem row_col_meet_once {w k : Nat} (hk : 0 < k) (hd : k ∣ w) {R C : List Nat}
    (hR : R ∈ rows w k) (hC : C ∈ cols w k) :
    ∃ r, r ∈ R ∧ r ∈ C ∧ ∀ r', r' ∈ R → r' ∈ C → r' = r :=
  row_col_meet_once' hk hd hR hC

/-! ### the assignment -/

/-- every layer's gradient-worker group is one of the columns -/
theorem workerGroup_is_col {c : Cfg} (h : OK c) {l : String × List (String × Nat)} (hl : l ∈ c.work) :
    c.workerGroup l.1 ∈ cols c.w c.k :=
  (assign_core h.kpos h.dvd h.gne h.gperm h.work.layers hl (h.fne l hl)
    (fun _ hf => C17.complete_assigned h.work hl hf)).1

/-- all inverse workers of a layer lie in that layer's gradient-worker group -/
theorem inv_worker_in_worker_group {c : Cfg} (h : OK c) {l : String × List (String × Nat)}
    (hl : l ∈ c.work) {f : String × Nat} (hf : f ∈ l.2) :
    ∃ r, c.invWorker l.1 f.1 = some r ∧ r ∈ c.workerGroup l.1 :=
  (assign_core h.kpos h.dvd h.gne h.gperm h.work.layers hl (h.fne l hl)
    (fun _ hf => C17.complete_assigned h.work hl hf)).2 f hf

/-- the receiver group of a rank is the row containing it -/
theorem receiverGroup_is_row {c : Cfg} (h : OK c) {loc : Nat} (hloc : loc < c.w) :
    c.receiverGroup loc ∈ rows c.w c.k ∧ loc ∈ c.receiverGroup loc :=
  receiverGroup_spec h.kpos h.dvd hloc

/-- every rank has exactly one gradient source per layer: a gradient worker of the layer inside
    the rank's own receiver group, the rank itself when it is a gradient worker -/
theorem src_spec {c : Cfg} (h : OK c) {loc : Nat} (hloc : loc < c.w)
    {l : String × List (String × Nat)} (hl : l ∈ c.work) :
    ∃ s, c.srcGradWorker loc l.1 = some s ∧ s ∈ c.workerGroup l.1 ∧ s ∈ c.receiverGroup loc ∧
      (∀ s', s' ∈ c.workerGroup l.1 → s' ∈ c.receiverGroup loc → s' = s) ∧
      (c.isGradWorker loc l.1 = true → s = loc) :=
  src_core h.kpos h.dvd hloc (workerGroup_is_col h hl)

set_option linter.unusedVariables false in -- holds without `OK`; hypotheses kept for uniformity
/-- the source of a rank is itself a gradient worker (so it does hold a preconditioned gradient) -/
theorem src_is_worker {c : Cfg} (h : OK c) {loc : Nat} (hloc : loc < c.w)
    {l : String × List (String × Nat)} (hl : l ∈ c.work) {s : Nat}
    (hs : c.srcGradWorker loc l.1 = some s) : c.isGradWorker s l.1 = true :=
  src_is_worker' hs

/-- nothing that identifies work depends on the local rank: `assign`, `invWorker`,
    `workerGroup`, `groupsCreated` do not take it (definitional); what does depend on it is
    exactly `receiverGroup`, `isGradWorker`, `srcGradWorker`. -/
theorem rank_independent (c : Cfg) (_loc _loc' : Nat) (l f : String) :
    c.invWorker l f = c.invWorker l f ∧ c.workerGroup l = c.workerGroup l := ⟨rfl, rfl⟩

/-! ### flags and strategy -/

theorem flags (c : Cfg) :
    (c.broadcastGradients = true ↔ c.k < c.w) ∧ (c.broadcastInverses = true ↔ 1 < c.k) := by
  simp [Cfg.broadcastGradients, Cfg.broadcastInverses]

theorem strategy_spec (w k : Nat) :
    (strategyOf w k = .commOpt ↔ k = w) ∧
    (strategyOf w k = .memOpt ↔ k ≠ w ∧ k ≤ 1) ∧
    (strategyOf w k = .hybridOpt ↔ k ≠ w ∧ 1 < k) :=
  strategy_spec' w k

/-! ### fractions -/

/-- integer side: every `k ∣ w` (as the exact fraction `k/w`) passes validation with `k` workers -/
theorem validate_accepts {w k loc : Nat} (hk : 0 < k) (hd : k ∣ w) (hw : 0 < w) (hloc : loc < w) :
    validate w k w loc = .ok k :=
  validate_accepts' hk hd hw hloc

/-- … and a fraction whose product with the world size is not an integer is rejected -/
theorem validate_rejects_nonintegral {w num den loc : Nat} (hden : 0 < den) (hle : den ≤ w * num)
    (hnd : (w * num) % den ≠ 0) : validate w num den loc = .valueError :=
  validate_rejects_nonintegral' hden hle hnd

/-- float side, standard rounding model: with `x = fl(w * fl(k / w)) = k (1+δ₁)(1+δ₂)`,
    `|δᵢ| ≤ 2⁻⁵³`, `1 ≤ k ≤ 2³⁰`: the value `max(1, x)` the repaired code tests is within
    `10⁻⁶` of `k` and strictly closer to `k` than `1/2` (so `round` returns `k` whatever the
    tie-breaking rule). Hence every fraction `k / world_size` with `k ∣ world_size` is accepted. -/
theorem fraction_accepted (k : ℕ) (δ₁ δ₂ : ℚ) (hk1 : 1 ≤ k) (hk : k ≤ 2 ^ 30)
    (h1 : |δ₁| ≤ 1 / 2 ^ 53) (h2 : |δ₂| ≤ 1 / 2 ^ 53) :
    let x : ℚ := (k : ℚ) * (1 + δ₁) * (1 + δ₂)
    |max 1 x - (k : ℚ)| ≤ 1 / 10 ^ 6 ∧ |max 1 x - (k : ℚ)| < 1 / 2 :=
  fraction_accepted' k δ₁ δ₂ hk1 hk h1 h2

/-- a product that is not an integer is at least `1/den` away from every integer; with
    `den ≤ 10⁵` that is ≥ 10⁻⁵ > 10⁻⁶ + float error, so the tolerance test rejects it -/
theorem nonintegral_far (n den : ℕ) (m : ℤ) (hden : 0 < den) (hnd : n % den ≠ 0) :
    (1 : ℚ) / den ≤ |(n : ℚ) / den - m| :=
  nonintegral_far' n den m hden hnd

end KV.C06
