import KfacVerif.Model.Kaisa

namespace KV.C06
open KV KV.Kaisa

theorem flags_comm_opt (c : Cfg) : c.broadcastGradients = decide (c.k < c.w) := rfl

end KV.C06
