import KfacVerif.Model.Alg
namespace KV.C10
theorem placeholder : (1:Nat) = 1 := rfl
end KV.C10
