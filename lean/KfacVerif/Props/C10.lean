/-
C10 — a step touches nothing but the gradients of registered layers.
A store model of what a step may write, the no-op theorems for eval-mode passes on both state
machines, and the layout/shape facts about the write-back.  In-place aliasing inside PyTorch cannot
be expressed here; it is observed by the bit-exact snapshots of the correspondence.
Property theorems only.
-/
import KfacVerif.Lemmas.AlgLayout
import KfacVerif.Model.Spec
import KfacVerif.Model.Misc

namespace KV.C10
open KV

/-- what a training script can observe of a model: per (module path, tensor name) the parameter
    value, its gradient, buffers -/
inductive Slot where | param | grad | buffer
deriving DecidableEq, Repr

abbrev Key := String × String × Slot
abbrev Store (α : Type) := Key → Option α

/-- the keys a step may write: the weight and bias gradients of the registered modules -/
def writeSet (registered : List String) (k : Key) : Bool :=
  registered.contains k.1 && (k.2.1 == "weight" || k.2.1 == "bias") && k.2.2 == Slot.grad

/-- `step()` as a store transformer: `update_grad` → `set_grad` on every registered layer -/
def stepStore {α} (registered : List String) (new : Key → Option α) (s : Store α) : Store α :=
  fun k => if writeSet registered k then new k else s k

/-- **frame**: parameters, buffers, and gradients of unregistered (unsupported / skipped / frozen)
    modules are untouched -/
theorem frame {α} (registered : List String) (new : Key → Option α) (s : Store α) (k : Key)
    (h : writeSet registered k = false) : stepStore registered new s k = s k := by
  simp [stepStore, h]

theorem params_buffers_untouched {α} (registered : List String) (new : Key → Option α) (s : Store α)
    (m t : String) : stepStore registered new s (m, t, .param) = s (m, t, .param) ∧
      stepStore registered new s (m, t, .buffer) = s (m, t, .buffer) := by
  simp [stepStore, writeSet]

/-- the registered set is what C16's model computes; a module that is not a registered leaf is
    outside the write set whatever its parameters are called -/
theorem unregistered_untouched {α} (tbl : Reg.MatchTbl) (neox : Bool) (t : Reg.MTree)
    (new : Key → Option α) (s : Store α) (m : String) (tn : String) (sl : Slot)
    (h : m ∉ (Reg.registered tbl neox t).map (·.name)) :
    stepStore ((Reg.registered tbl neox t).map (·.name)) new s (m, tn, sl) = s (m, tn, sl) := by
  have : writeSet ((Reg.registered tbl neox t).map (·.name)) (m, tn, sl) = false := by
    have hc : ((Reg.registered tbl neox t).map (·.name)).contains m = false := by
      simpa [List.contains_iff_mem] using h
    show (List.contains _ m && _ && _) = false
    rw [hc]; rfl
  simp [stepStore, this]

open KV.Precond KV.Spec in
/-- **eval-mode passes leave all K-FAC state unchanged** (distributed and reference machine) -/
theorem eval_noop (c : Cfg) (s : St) (c' : SCfg) (s' : SSt) :
    Precond.exec c s (.fwdBwd false) = s ∧ Spec.exec c' s' (.fwdBwd false) = s' := by
  constructor
  · simp [Precond.exec, Precond.fwdBwd]
  · simp [Spec.exec, Spec.fwdBwd]

/-- **shape preserved by the write-back**: the weight part handed to `set_grad` has the rows of the
    combined matrix minus the bias column, the bias one entry per row -/
theorem writeback_shapes (grad : Alg.Mat) (n : Nat) (h : ∀ r ∈ grad, r.length = n + 1) :
    let p := Alg.setGrad true grad
    p.1.length = grad.length ∧ (∀ r ∈ p.1, r.length = n) ∧ p.2.map List.length = some grad.length := by
  simp only [Alg.setGrad, if_true, List.length_map, Option.map_some, List.mem_map, true_and]
  refine ⟨?_, trivial⟩
  rintro _ ⟨r, hr, rfl⟩
  simp [h r hr]

theorem writeback_shapes_nobias (grad : Alg.Mat) : Alg.setGrad false grad = (grad, none) := by
  simp [Alg.setGrad]

/-- **finite algebra**: with positive damping no denominator of the eigen path is zero
    (rational model of `1 / (outer(dg, da) + damping)` after the clamp) -/
theorem no_division_by_zero (dg da : List Rat) (lam : Rat) (hl : 0 < lam) (i j : Nat) :
    (Alg.clamp0 dg).getD i 0 * (Alg.clamp0 da).getD j 0 + lam ≠ 0 := by
  have h1 := Alg.clamp0_getD_nonneg dg i
  have h2 := Alg.clamp0_getD_nonneg da j
  have := mul_nonneg h1 h2
  exact ne_of_gt (by linarith)

end KV.C10
