/-
C18 — GPT-NeoX checkpoints gather and restore every layer factor.
Bookkeeping theorems about M-NeoxLayer's checkpoint part (who contributes which layer, what the
merged state contains, who restores, which collectives every rank enters) for every topology and
layer placement, given the assignment facts of C12 (one inverse worker per layer, located in the
layer's pipeline stage).  `resume_as_C09` holds for model-parallel degree 1 (then every rank of a
data-parallel group is its own factor worker and C09 applies per stage); for degree > 1 it is
finding F2.  Property theorems only; helpers in Lemmas/NeoxLayerL.lean.
-/
import KfacVerif.Lemmas.NeoxLayerL

namespace KV.C18
open KV KV.NeoxL

/-- what C12 gives: every layer held by some rank has its inverse worker among the ranks `< world`
    that hold the layer -/
structure PlaceOK (world : Nat) (layersOf : Nat → List String) (inv : String → Nat) : Prop where
  inv_holds : ∀ r n, r < world → n ∈ layersOf r → inv n < world ∧ n ∈ layersOf (inv n)

/-- **gather complete**: the merged state holds exactly the layers of the world, each once -/
theorem gather_complete (world : Nat) (layersOf : Nat → List String) (inv : String → Nat)
    (h : PlaceOK world layersOf inv) (n : String) :
    n ∈ merged world layersOf inv ↔ ∃ r, r < world ∧ n ∈ layersOf r :=
  gather_complete_l world layersOf inv h.inv_holds n

theorem gather_once (world : Nat) (layersOf : Nat → List String) (inv : String → Nat) :
    (merged world layersOf inv).Nodup :=
  gather_once_l world layersOf inv

/-- every layer is contributed by its inverse worker and by nobody else -/
theorem contributed_by_inverse_worker (layersOf : Nat → List String) (inv : String → Nat) (r : Nat) (n : String) :
    n ∈ partition layersOf inv r ↔ n ∈ layersOf r ∧ inv n = r :=
  mem_partition layersOf inv r n

/-- **restore on factor workers**: a rank restores a layer iff it holds it and is its factor worker -/
theorem restore_on_factor_workers (layersOf : Nat → List String) (fw : Nat → String → Nat) (r : Nat) (n : String) :
    n ∈ restores layersOf fw r ↔ n ∈ layersOf r ∧ fw r n = r :=
  mem_restores layersOf fw r n

/-- with model-parallel degree 1 every rank is its own factor worker, so every rank that holds a
    layer restores it (this is what makes `resume_as_C09` go through per stage) -/
theorem restore_everywhere_mp1 (layersOf : Nat → List String) (fw : Nat → String → Nat) (r : Nat)
    (hfw : ∀ n, fw r n = r) : restores layersOf fw r = layersOf r :=
  restores_all layersOf fw r hfw

/-- **all ranks take part in the same collectives while saving and loading**: the lists do not
    depend on the rank (they are functions of the mode only), in-memory saving is
    new_group(gloo) → all_gather_object → barrier, directory mode a single barrier, loading a final
    barrier in memory mode and nothing in directory mode -/
theorem save_load_collectives :
    saveColls true false = [.newGroupGloo, .allGatherObject, .barrier] ∧ saveColls true true = [.barrier] ∧
    saveColls false false = [] ∧ saveColls false true = [] ∧
    loadColls true false = [.barrier] ∧ loadColls true true = [] ∧ loadColls false false = [] :=
  ⟨rfl, rfl, rfl, rfl, rfl, rfl, rfl⟩

end KV.C18
