/-
C18 — GPT-NeoX checkpoints gather and restore every layer factor.
Bookkeeping theorems about M-NeoxLayer's checkpoint part (who contributes which layer, what the
merged state contains, who restores, which collectives every rank enters) for every topology and
layer placement, given the assignment facts of C12 (one inverse worker per layer, located in the
layer's pipeline stage).  `resume_as_C09` holds for model-parallel degree 1 (then every rank of a
data-parallel group is its own factor worker and C09 applies per stage); for degree > 1 it is
finding F2.  Property theorems only; helpers in Lemmas/NeoxLayerL.lean.
-/
import KfacVerif.Lemmas.NeoxLayerL

namespace KV.C18
open KV KV.NeoxL

/-- what C12 gives: every layer held by some rank has its inverse worker among the ranks `< world`
    that hold the layer -/
structure PlaceOK (world : Nat) (layersOf : Nat → List String) (inv : String → Nat) : Prop where
  inv_holds : ∀ r n, r < world → n ∈ layersOf r → inv n < world ∧ n ∈ layersOf (inv n)

/-- **gather complete**: the merged state holds exactly the layers of the world, each once -/
theorem gather_complete (world : Nat) (layersOf : Nat → List String) (inv : String → Nat)
    (h : PlaceOK world layersOf inv) (n : String) :
    n ∈ merged world layersOf inv ↔ ∃ r, r < world ∧ n ∈ layersOf r :=
  gather_complete_l world layersOf inv h.inv_holds n

theorem gather_once (world : Nat) (layersOf : Nat → List String) (inv : String → Nat) :
    (merged world layersOf inv).Nodup :=
  gather_once_l world layersOf inv

/-- every layer is contributed by its inverse worker and by nobody else -/
theorem contributed_by_inverse_worker (layersOf : Nat → List String) (inv : String → Nat) (r : Nat) (n : String) :
    n ∈ partition layersOf inv r ↔ n ∈ layersOf r ∧ inv n = r :=
  mem_partition layersOf inv r n

/-- **restore on factor workers**: a rank restores a layer iff it holds it and is its factor worker -/
theorem restore_on_factor_workers (layersOf : Nat → List String) (fw : Nat → String → Nat) (r : Nat) (n : String) :
    n ∈ restores layersOf fw r ↔ n ∈ layersOf r ∧ fw r n = r :=
  mem_restores layersOf fw r n

/-- with model-parallel degree 1 every rank is its own factor worker, so every rank that holds a
    layer restores it (this is what makes `resume_as_C09` go through per stage) -/
theorem restore_everywhere_mp1 (layersOf : Nat → List String) (fw : Nat → String → Nat) (r : Nat)
    (hfw : ∀ n, fw r n = r) : restores layersOf fw r = layersOf r :=
  restores_all layersOf fw r hfw

/-- **all ranks take part in the same collectives while saving and loading**: the lists do not
    depend on the rank (they are functions of the mode only), in-memory saving is
    new_group(gloo) → all_gather_object → barrier, directory mode a single barrier, loading a final
    barrier in memory mode and nothing in directory mode -/
theorem save_load_collectives :
    saveColls true false = [.newGroupGloo, .allGatherObject, .barrier] ∧ saveColls true true = [.barrier] ∧
    saveColls false false = [] ∧ saveColls false true = [] ∧
    loadColls true false = [.barrier] ∧ loadColls true true = [] ∧ loadColls false false = [] :=
  ⟨rfl, rfl, rfl, rfl, rfl, rfl, rfl⟩

/-! ### value level: what the state holds, what a load leaves behind (added last) -/

/-- **the saved state holds, for every layer of the world, exactly what that layer's inverse worker holds** —
    on every rank (the merged dict is a function of the gathered partitions only), whatever the other ranks
    hold for the layer and in whatever order the partitions are walked -/
theorem merged_value {α : Type} (world : Nat) (layersOf : Nat → List String) (inv : String → Nat)
    (held : Nat → String → α) (h : PlaceOK world layersOf inv) (n : String)
    (hn : ∃ r, r < world ∧ n ∈ layersOf r) :
    mergedVal world layersOf inv held n = some (held (inv n) n) :=
  merged_value_l world layersOf inv held h.inv_holds n hn

/-- … and nothing else: a name no rank holds is not in the state -/
theorem merged_value_none {α : Type} (world : Nat) (layersOf : Nat → List String) (inv : String → Nat)
    (held : Nat → String → α) (n : String) (hn : ¬ ∃ r, r < world ∧ n ∈ layersOf r) :
    mergedVal world layersOf inv held n = none :=
  merged_value_none_l world layersOf inv held n hn

/-- what the other ranks hold for a layer never reaches the state: two worlds whose inverse workers hold the
    same values save the same state -/
theorem merged_value_only_inverse_worker {α : Type} (world : Nat) (layersOf : Nat → List String) (inv : String → Nat)
    (held held' : Nat → String → α) (h : PlaceOK world layersOf inv)
    (hh : ∀ n, held (inv n) n = held' (inv n) n) (n : String) :
    mergedVal world layersOf inv held n = mergedVal world layersOf inv held' n := by
  by_cases hn : ∃ r, r < world ∧ n ∈ layersOf r
  · rw [merged_value world layersOf inv held h n hn, merged_value world layersOf inv held' h n hn, hh]
  · rw [merged_value_none world layersOf inv held n hn, merged_value_none world layersOf inv held' n hn]

/-- **save → load round trip**: after loading the saved state, every factor worker of a layer holds what the
    layer's inverse worker held at the save, whatever it held before the load -/
theorem save_load_roundtrip {α : Type} (world : Nat) (layersOf : Nat → List String) (inv : String → Nat)
    (fw : Nat → String → Nat) (held old : Nat → String → α) (h : PlaceOK world layersOf inv)
    (r : Nat) (n : String) (hr : r < world) (hn : n ∈ layersOf r) (hfw : fw r n = r) :
    loadVal layersOf fw (mergedVal world layersOf inv held) old r n = held (inv n) n :=
  loadVal_restored layersOf fw _ old r n _ hn hfw (merged_value world layersOf inv held h n ⟨r, hr, hn⟩)

/-- frame: a load changes nothing on a rank that is not the factor worker of the layer (or does not hold it) -/
theorem load_frame {α : Type} (layersOf : Nat → List String) (fw : Nat → String → Nat)
    (state : String → Option α) (old : Nat → String → α) (r : Nat) (n : String)
    (h : n ∉ layersOf r ∨ fw r n ≠ r) : loadVal layersOf fw state old r n = old r n :=
  loadVal_frame layersOf fw state old r n h

/-- a layer missing from the state is left as it is (the code walks the names FOUND in the state) -/
theorem load_absent {α : Type} (layersOf : Nat → List String) (fw : Nat → String → Nat)
    (state : String → Option α) (old : Nat → String → α) (r : Nat) (n : String)
    (hs : state n = none) : loadVal layersOf fw state old r n = old r n :=
  loadVal_absent layersOf fw state old r n hs

/-- with model-parallel degree 1 every rank that holds a layer ends with the inverse worker's value: all
    ranks of a stage agree after a load -/
theorem roundtrip_all_agree_mp1 {α : Type} (world : Nat) (layersOf : Nat → List String) (inv : String → Nat)
    (fw : Nat → String → Nat) (held old : Nat → String → α) (h : PlaceOK world layersOf inv)
    (hfw : ∀ r n, fw r n = r) (r r' : Nat) (n : String) (hr : r < world) (hr' : r' < world)
    (hn : n ∈ layersOf r) (hn' : n ∈ layersOf r') :
    loadVal layersOf fw (mergedVal world layersOf inv held) old r n =
      loadVal layersOf fw (mergedVal world layersOf inv held) old r' n := by
  rw [save_load_roundtrip world layersOf inv fw held old h r n hr hn (hfw r n),
      save_load_roundtrip world layersOf inv fw held old h r' n hr' hn' (hfw r' n)]

end KV.C18
