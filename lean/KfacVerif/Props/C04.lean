import KfacVerif.Model.Alg
namespace KV.C04
theorem placeholder : (1:Nat) = 1 := rfl
end KV.C04
