/-
C04 — Kronecker factors are decayed running averages of batch second moments.
(1) algebra over ℝ / arbitrary fields, all sizes: the batch second moment is symmetric PSD, the
    symmetrisation is the identity on it, the recurrence preserves symmetry and PSD-ness, averaging
    over ranks commutes with the recurrence, dividing by a loss scale s divides the moment by s²;
(2) the executable rational `KV.Alg.cov/ema/updateFactor` (compared exactly with the code) are those
    expressions; (3) what M-Precond/Spec do with the values (which the correspondence ties to the
    code): identity on first use, mean of the accumulated micro-batches, average over ranks.
Eval passes and non-update steps are frames (C05 `eval_noop`, `factors_frozen_off_multiples`).
Property theorems only; helpers in Lemmas/FactorAlg.lean.
-/
import KfacVerif.Lemmas.FactorAlg
import Mathlib.LinearAlgebra.Matrix.PosDef
import Mathlib.Analysis.Matrix.PosDef
import Mathlib.Data.Real.Basic
import Mathlib.Algebra.BigOperators.Group.Finset.Basic
import Mathlib.Tactic.Ring
import Mathlib.Tactic.Linarith

namespace KV.C04
open Matrix

variable {r n : Type*} [Fintype r] [Fintype n] [DecidableEq n]

-- `covM` (second moment of the rows of `a` : `(1/rows) • aᵀ a`) is defined in Lemmas/FactorAlg.lean

theorem cov_symm (a : Matrix r n ℝ) : (covM a)ᵀ = covM a :=
  covM_symm a

/-- `(c + cᵀ)/2` is the identity on a symmetric matrix (the code's symmetrisation is a no-op) -/
theorem symmetrise_id (c : Matrix n n ℝ) (h : cᵀ = c) : (1 / 2 : ℝ) • (c + cᵀ) = c :=
  symm_id c h

theorem cov_posSemidef (a : Matrix r n ℝ) : (covM a).PosSemidef :=
  covM_psd a

/-- the identity (first "previous" factor) is symmetric PSD -/
theorem ident_posSemidef : (1 : Matrix n n ℝ).PosSemidef :=
  Matrix.PosSemidef.one

/-- **the recurrence preserves symmetric positive semi-definiteness** for any decay in [0, 1] -/
theorem ema_posSemidef (α : ℝ) (h0 : 0 ≤ α) (h1 : α ≤ 1) (F M : Matrix n n ℝ) (hF : F.PosSemidef)
    (hM : M.PosSemidef) : (α • F + (1 - α) • M).PosSemidef :=
  ema_psd α h0 h1 F M hF hM

-- `iterate` (the recurrence run from the identity over (decay, batch moment) pairs, head = most recent)
-- is defined in Lemmas/FactorAlg.lean

/-- hence **every factor of every history is symmetric PSD** (any decay schedule with values in [0,1]) -/
theorem iterate_posSemidef (h : List (ℝ × Matrix n n ℝ))
    (hd : ∀ p ∈ h, 0 ≤ p.1 ∧ p.1 ≤ 1 ∧ p.2.PosSemidef) : (iterate h).PosSemidef :=
  iterate_psd h hd

/-- closed form for a constant decay: `F_t = α^t • 1 + (1-α) Σ_{i<t} α^i M_i` (M_0 most recent) -/
theorem iterate_const (α : ℝ) (Ms : List (Matrix n n ℝ)) :
    iterate (Ms.map fun M => (α, M)) =
      α ^ Ms.length • (1 : Matrix n n ℝ) + (1 - α) • ((List.zipIdx Ms).map fun p => α ^ p.2 • p.1).sum :=
  iterate_const' α Ms

/-- **average over ranks**: with the same previous factor on every rank, the all-reduced average of
    the per-rank updates is the update with the mean of the per-rank batch moments -/
theorem cross_rank_mean {W : Type*} [Fintype W] [Nonempty W] (α : ℝ) (F : Matrix n n ℝ) (M : W → Matrix n n ℝ) :
    (1 / (Fintype.card W : ℝ)) • ∑ w, (α • F + (1 - α) • M w) =
      α • F + (1 - α) • ((1 / (Fintype.card W : ℝ)) • ∑ w, M w) :=
  cross_rank_mean' α F M

/-- **loss scale**: the moment of `g / s` is `1/s²` times the moment of `g` -/
theorem unscale (g : Matrix r n ℝ) (s : ℝ) (hs : s ≠ 0) : covM ((1 / s) • g) = (1 / s ^ 2) • covM g :=
  unscale' g s hs

/-- **loss scale, per micro-batch**: the output gradients of micro-batch `i` arrive multiplied by the
    loss scale `s i` in force at that micro-batch; dividing each by its OWN scale before the second
    moment is taken gives the mean of the unscaled moments, whatever the scales are (they may change
    between micro-batches of one accumulation window) -/
theorem unscale_per_microbatch {ι : Type*} [Fintype ι] (g : ι → Matrix r n ℝ) (s : ι → ℝ) (hs : ∀ i, s i ≠ 0) :
    ∑ i, covM ((1 / s i) • (s i • g i)) = ∑ i, covM (g i) := by
  refine Finset.sum_congr rfl fun i _ => ?_
  rw [smul_smul, one_div, inv_mul_cancel₀ (hs i), one_smul]

/-- ... whereas removing ONE scale from the accumulated moment is only correct when the scales agree:
    with scales `1` and `2` on two micro-batches holding the same `1 × 1` gradient `(1)`, dividing the
    sum of the scaled moments by `2²` gives `5/4`, not `2` -/
theorem single_unscale_wrong :
    (1 / (2 : ℝ) ^ 2) • (covM ((1 : ℝ) • (1 : Matrix (Fin 1) (Fin 1) ℝ)) + covM ((2 : ℝ) • (1 : Matrix (Fin 1) (Fin 1) ℝ)))
      ≠ covM (1 : Matrix (Fin 1) (Fin 1) ℝ) + covM (1 : Matrix (Fin 1) (Fin 1) ℝ) := by
  intro h
  have h0 := congrFun (congrFun h 0) 0
  simp [covM, Matrix.smul_apply, Matrix.add_apply, Matrix.mul_apply, Matrix.transpose_apply] at h0
  norm_num at h0

/-! ### the executable formulas (compared exactly with kfac.layers.utils.get_cov etc.) -/

-- `toM m k A i j = KV.Alg.ent A i j` is defined in Lemmas/FactorAlg.lean

/-- `get_cov(a)` = `(1/rows) aᵀ a` (the symmetrisation changes nothing) -/
theorem cov_bridge (rows k : ℕ) (a : KV.Alg.Mat) :
    toM k k (KV.Alg.cov rows k a) = (1 / (rows : ℚ)) • ((toM rows k a)ᵀ * toM rows k a) :=
  cov_bridge' rows k a

theorem ema_bridge (k : ℕ) (α : ℚ) (F M : KV.Alg.Mat) :
    toM k k (KV.Alg.ema k α F M) = α • toM k k F + (1 - α) • toM k k M :=
  ema_bridge' k α F M

/-- **accumulation**: one update folds in the MEAN of the accumulated micro-batch moments, starting
    from the identity when there is no previous factor; with nothing accumulated it does nothing -/
theorem update_mean (k : ℕ) (α : ℚ) (F : Option KV.Alg.Mat) (b : KV.Alg.Mat) (bs : List KV.Alg.Mat) :
    KV.Alg.updateFactor k α F [] = F ∧
    KV.Alg.updateFactor k α F [b] = some (KV.Alg.ema k α (F.getD (KV.Alg.ident k)) b) ∧
    (bs ≠ [] → KV.Alg.updateFactor k α F (b :: bs) =
      some (KV.Alg.ema k α (F.getD (KV.Alg.ident k))
        (KV.Alg.smul k k (1 / ((bs.length + 1 : ℕ) : ℚ)) (bs.foldl (KV.Alg.add k k) b)))) :=
  update_mean' k α F b bs

theorem ident_bridge (k : ℕ) : toM k k (KV.Alg.ident k) = (1 : Matrix (Fin k) (Fin k) ℚ) :=
  ident_bridge' k

/-! ### what the state machine does with the values -/
open KV.Precond KV.Spec in
/-- the reference machine's factor update: per rank `ema α (previous or identity) (batch / count)`,
    then the average over ranks (a world of one keeps the rank's own value) -/
theorem spec_update_shape (c : SCfg) (s : SSt) (l : Nat) (α : Rat) (b : List V) (hl : l < s.layers.length)
    (hb : (getS s l).aBatch = some b) (hw : c.world ≠ 1) :
    let s' := Spec.updateReduce c s l true α
    let fv := ((getS s l).aFactor).getD (.ident l true)
    (getS s' l).aFactor = some (.ref s.defs.length) ∧
    s'.defs = s.defs ++ [avgOf (b.map fun br => V.ema α fv (if (getS s l).aCount > 1 then V.divN br (getS s l).aCount else br))] ∧
    (getS s' l).aBatch = none :=
  spec_update_shape' c s l α b hl hb hw

end KV.C04
