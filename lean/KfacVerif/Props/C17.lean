/-
C17 — greedy work assignment is complete, group-confined, balanced and deterministic.
Property theorems only; helper lemmas live in KfacVerif/Lemmas/Greedy.lean.
All statements are about `KV.Kaisa.greedy` / `placeAll`, the model of
`KAISAAssignment.greedy_assignment` (tied to the code by harness/props/C17.py).
-/
import KfacVerif.Lemmas.Greedy

namespace KV.C17
open KV KV.Kaisa

/-- the hypotheses under which the real code does not raise: at least one group,
    no empty group (`min([])` raises), ranks inside the world, groups disjoint -/
structure GroupsOK (groups : List (List Nat)) (world : Nat) : Prop where
  ne : groups ≠ []
  gne : ∀ g ∈ groups, g ≠ []
  lt : ∀ g ∈ groups, ∀ r ∈ g, r < world
  nodup : ∀ g ∈ groups, g.Nodup
  disj : groups.Pairwise (fun a b => ∀ r, r ∈ a → r ∉ b)

/-- dict keys are unique -/
structure WorkOK (work : Work) : Prop where
  layers : (work.map (·.1)).Nodup
  factors : ∀ l ∈ work, (l.2.map (·.1)).Nodup

/-- **complete** (key structure): the result has the same layers, in the same order,
    each with the same factor keys in the same order as the input. -/
theorem complete_keys (work : Work) (groups : List (List Nat)) (world : Nat) (col : Bool) :
    (greedy work groups world col).map (fun l => (l.1, l.2.map (·.1)))
      = work.map (fun l => (l.1, l.2.map (·.1))) :=
  greedy_keys work groups world col

/-- **complete** (no `-1` left): every factor of every layer received a rank from a
    placement record (the `.getD 0` in `greedy` is never the default). -/
theorem complete_assigned {work : Work} {groups : List (List Nat)} {world : Nat} {col : Bool}
    (hw : WorkOK work) {l : String × List (String × Nat)} (hl : l ∈ work)
    {f : String × Nat} (hf : f ∈ l.2) :
    ∃ r, lookupPlacement (placements work groups world col) l.1 f.1 = some r :=
  lookup_assigned groups col _ (nodup_sortedLayers_names hw.layers) (mem_sortedLayers.2 hl) hf

/-- **valid rank + confined**: for every layer there is ONE worker group of the input that
    contains the ranks of all its factors (hence every rank is `< world`). -/
theorem confined {work : Work} {groups : List (List Nat)} {world : Nat} {col : Bool}
    (hw : WorkOK work) (hg : GroupsOK groups world)
    {l : String × List (String × Nat)} (hl : l ∈ work) :
    ∃ g ∈ groups, ∀ f ∈ l.2, ∀ r,
      lookupPlacement (placements work groups world col) l.1 f.1 = some r → r ∈ g := by
  obtain ⟨g, hgm, h⟩ := lookup_confined hg.ne hg.gne col (List.replicate world 0)
    (nodup_sortedLayers_names hw.layers) (mem_sortedLayers.2 hl)
  exact ⟨g, hgm, fun f _ r hr => h f.1 r hr⟩

theorem valid_rank {work : Work} {groups : List (List Nat)} {world : Nat} {col : Bool}
    (hw : WorkOK work) (hg : GroupsOK groups world)
    {l : String × List (String × Nat)} (hl : l ∈ work) {f : String × Nat} (hf : f ∈ l.2) {r : Nat}
    (hr : lookupPlacement (placements work groups world col) l.1 f.1 = some r) : r < world := by
  obtain ⟨g, hgm, h⟩ := confined (col := col) hw hg hl
  exact hg.lt g hgm r (h f hf r hr)

/-- **co-located**: with `colocate = true` all factors of a layer sit on a single worker. -/
theorem colocated_single {work : Work} {groups : List (List Nat)} {world : Nat}
    (hw : WorkOK work) {l : String × List (String × Nat)} (hl : l ∈ work)
    {f f' : String × Nat} (hf : f ∈ l.2) (hf' : f' ∈ l.2) {r r' : Nat}
    (hr : lookupPlacement (placements work groups world true) l.1 f.1 = some r)
    (hr' : lookupPlacement (placements work groups world true) l.1 f'.1 = some r') : r = r' := by
  have _ := hf; have _ := hf'
  obtain ⟨w, h⟩ := lookup_colocated groups (List.replicate world 0)
    (nodup_sortedLayers_names hw.layers) (mem_sortedLayers.2 hl)
  rw [h f.1 r hr, h f'.1 r' hr']

/-- **order**: layers are placed in stable descending order of total cost:
    the processing order is a permutation of the input, sorted by total cost descending,
    and layers of equal total cost keep their input order. -/
theorem order_perm (work : Work) : (sortedLayers work).Perm work :=
  sortedLayers_perm work

theorem order_sorted (work : Work) :
    (sortedLayers work).Pairwise (fun a b => sumCosts a.2 ≥ sumCosts b.2) :=
  sortedLayers_sorted work

/-- stability: the sub-list of layers of any fixed total cost appears in input order -/
theorem order_stable (work : Work) (c : Nat) :
    (sortedLayers work).filter (fun l => sumCosts l.2 == c) = work.filter (fun l => sumCosts l.2 == c) :=
  sortedLayers_stable work c

theorem placements_follow_order (work : Work) (groups : List (List Nat)) (world : Nat) (col : Bool) :
    (placements work groups world col).map (·.layer) = (sortedLayers work).map (·.1) :=
  placeAll_layers groups col _ _

/-- **greedy choice (group)**: every layer went to the FIRST group of minimum load at that time. -/
theorem greedy_group_choice {groups : List (List Nat)} {col : Bool} {loads : List Nat}
    {layers : List (String × List (String × Nat))} (hne : groups ≠ [])
    {p : Placement} (hp : p ∈ (placeAll groups col loads layers).2) :
    p.groupIdx < groups.length ∧
    (∀ j, j < groups.length →
        loadOf p.loadsBefore (groups.getD p.groupIdx []) ≤ loadOf p.loadsBefore (groups.getD j [])) ∧
    (∀ j, j < p.groupIdx →
        loadOf p.loadsBefore (groups.getD p.groupIdx []) < loadOf p.loadsBefore (groups.getD j [])) :=
  group_choice hne hp

/-- **greedy choice (worker)**: `minWorker` returns the first least-loaded member of the group. -/
theorem greedy_worker_choice (loads : List Nat) {g : List Nat} (hg : g ≠ []) :
    minWorker loads g ∈ g ∧ ∀ r ∈ g, loads.getD (minWorker loads g) 0 ≤ loads.getD r 0 :=
  minWorker_spec loads hg

/-- the largest single item the run places: a layer total when co-located, a factor cost otherwise -/
def maxItem (col : Bool) (layers : List (String × List (String × Nat))) : Nat :=
  if col then (layers.map (fun l => sumCosts l.2)).foldl max 0
  else (layers.map (fun l => (l.2.map (·.2)).foldl max 0)).foldl max 0

def maxLayer (layers : List (String × List (String × Nat))) : Nat :=
  (layers.map (fun l => sumCosts l.2)).foldl max 0

/-- **worker balance**: starting from zero loads, after placing ANY list of layers (so in
    particular after every prefix of a run), two workers of the same group differ in load by
    at most the largest single item placed. -/
theorem worker_balance {groups : List (List Nat)} {world : Nat} (hg : GroupsOK groups world)
    (col : Bool) (layers : List (String × List (String × Nat))) :
    ∀ g ∈ groups, ∀ a ∈ g, ∀ b ∈ g,
      ((placeAll groups col (List.replicate world 0) layers).1).getD a 0
        ≤ ((placeAll groups col (List.replicate world 0) layers).1).getD b 0 + maxItem col layers :=
  worker_balance_zero (GroupsWF.of_fields hg.ne hg.gne hg.lt hg.nodup hg.disj) col layers

/-- **group balance**: likewise group loads differ by at most the largest layer total placed. -/
theorem group_balance {groups : List (List Nat)} {world : Nat} (hg : GroupsOK groups world)
    (col : Bool) (layers : List (String × List (String × Nat))) :
    ∀ g ∈ groups, ∀ g' ∈ groups,
      loadOf (placeAll groups col (List.replicate world 0) layers).1 g
        ≤ loadOf (placeAll groups col (List.replicate world 0) layers).1 g' + maxLayer layers :=
  group_balance_zero (GroupsWF.of_fields hg.ne hg.gne hg.lt hg.nodup hg.disj) col layers

/-- **conservation**: the final loads account for exactly the costs placed
    (nothing is lost or double-counted). -/
theorem loads_conserved {groups : List (List Nat)} {world : Nat} (hg : GroupsOK groups world)
    (col : Bool) (layers : List (String × List (String × Nat))) :
    ((placeAll groups col (List.replicate world 0) layers).1).sum
      = (layers.map (fun l => sumCosts l.2)).sum :=
  loads_conserved_zero (GroupsWF.of_fields hg.ne hg.gne hg.lt hg.nodup hg.disj) col layers

/-- **pure**: the result is a function of its four arguments only (definitional in the model;
    on the implementation side the correspondence runs every input twice). -/
theorem pure (work : Work) (groups : List (List Nat)) (world : Nat) (col : Bool) :
    ∀ w' g' n' c', w' = work → g' = groups → n' = world → c' = col →
      greedy w' g' n' c' = greedy work groups world col := by
  intro _ _ _ _ h1 h2 h3 h4; subst h1 h2 h3 h4; rfl

end KV.C17
