/-
C16 — exactly the eligible layers are registered, once each.
Model: KV.Reg (MTree, walk/namedModules, eligible, registered) = kfac/layers/register.py and
kfac/gpt_neox/preconditioner.py:register_modules; `re.search` is the opaque table `MatchTbl`.
Property theorems only; helpers in Lemmas/Reg.lean.
-/
import KfacVerif.Lemmas.Reg

namespace KV.C16
open KV KV.Reg

/- `nodes`/`nodesCh` (all module instances reachable from `t` through non-`None` children, with
   repetitions) and `IdsConsistent` are defined in Lemmas/Reg.lean (moved verbatim). -/

/-- **at most once**: no module instance is visited (hence registered) twice -/
theorem visit_ids_nodup (t : MTree) : ((namedModules t).map (·.id)).Nodup := by
  simpa [namedModules] using (walk_ok "" [] t).nodup

/-- **complete walk**: every reachable module instance is visited -/
theorem visit_complete (t : MTree) (h : IdsConsistent t) :
    ∀ m ∈ nodes t, m.id ∈ (namedModules t).map (·.id) :=
  walk_complete t h

/-- a visit reports the module's own class, parameters and leaf status -/
theorem visit_faithful (t : MTree) (h : IdsConsistent t) :
    ∀ v ∈ namedModules t, ∃ m ∈ nodes t, m.id = v.id ∧ m.cls = v.cls ∧ m.clsName = v.clsName ∧
      m.params = v.params ∧ m.isLeaf = v.leaf := by
  have _ := h  -- (not needed: faithfulness holds without consistency)
  intro v hv
  exact (walk_ok "" [] t).faithful v (by simpa [namedModules] using hv)

/-- **registered = eligible leaves**, in walk (pre-order) order -/
theorem registered_eq_filter (tbl : MatchTbl) (neox : Bool) (t : MTree) (v : Visit) :
    v ∈ registered tbl neox t ↔ v ∈ namedModules t ∧ eligible tbl neox v = true := by
  simp [registered, List.mem_filter]

theorem order_is_preorder (tbl : MatchTbl) (neox : Bool) (t : MTree) :
    (registered tbl neox t).Sublist (namedModules t) :=
  List.filter_sublist (l := namedModules t) (p := eligible tbl neox)

theorem registered_ids_nodup (tbl : MatchTbl) (neox : Bool) (t : MTree) :
    ((registered tbl neox t).map (·.id)).Nodup := by
  have h1 : ((namedModules t).map (·.id)).Nodup := by
    simpa [namedModules] using (walk_ok "" [] t).nodup
  exact h1.sublist (((List.filter_sublist (l := namedModules t) (p := eligible tbl neox))).map _)

/-- what `eligible` means, spelled out (standard variant): a leaf Linear/Conv2d (subclasses
    included) all of whose parameters require gradients and whose qualified name and class name
    match no skip pattern -/
theorem eligible_spec (tbl : MatchTbl) (v : Visit) (bn bc : List Bool)
    (hn : assocGet? v.name tbl = some bn) (hc : assocGet? v.clsName tbl = some bc) :
    eligible tbl false v = true ↔
      v.leaf = true ∧ (v.cls = 1 ∨ v.cls = 2) ∧ (∀ b ∈ v.params, b = true) ∧
      (∀ b ∈ bn, b = false) ∧ (∀ b ∈ bc, b = false) :=
  eligible_false_iff tbl v bn bc hn hc

/-- GPT-NeoX variant: dispatch on the lower-cased class name -/
theorem eligible_spec_neox (tbl : MatchTbl) (v : Visit) (bn bc : List Bool)
    (hn : assocGet? v.name tbl = some bn) (hc : assocGet? (lower v.clsName) tbl = some bc) :
    eligible tbl true v = true ↔
      v.leaf = true ∧ (lower v.clsName = "columnparallellinear" ∨ lower v.clsName = "rowparallellinear") ∧
      (∀ b ∈ v.params, b = true) ∧ (∀ b ∈ bn, b = false) ∧ (∀ b ∈ bc, b = false) :=
  eligible_true_iff tbl v bn bc hn hc

/-- the root is visited first with the empty name; a module with no children is a leaf -/
theorem root_first (i c : Nat) (cn : String) (ps : List Bool) (ch : List (String × Option MTree)) :
    (namedModules (.node i c cn ps ch)).head? =
      some { name := "", id := i, cls := c, clsName := cn, params := ps,
             leaf := ch.all fun x => x.2.isNone } := by
  simp [namedModules, walk_node]

end KV.C16
