import KfacVerif.Model.Precond
namespace KV.C02
theorem placeholder : (1:Nat) = 1 := rfl
end KV.C02
