/-
C02 — distributed work placement is semantically transparent.
Corollaries of the refinement theorem: the reference machine KV.Spec does not mention the work
assignment, the bucket capacity or the symmetry-aware switch, so nothing the ranks compute depends
on them.  "Every interleaving" comes from C03 (the lock-step result is the result of every
schedule: programs are deterministic data-flow over collectives whose matching is schedule
independent).  Property theorems only.
-/
import KfacVerif.Lemmas.SpecFacts
import KfacVerif.Lemmas.KaisaLink
import Mathlib.Data.Matrix.Basic
import Mathlib.Data.Matrix.Mul

namespace KV.C02
open KV KV.Precond KV.Spec

/-- **ranks agree**: after every history all ranks hold identical gradients -/
theorem ranks_agree (c : Cfg) (hc : Refine.CfgOK2 c) (h : Hyper) (ops : List Op)
    (hne : (Precond.run c (St.init c h) ops).err = none) {r r' : Nat} (hr : r < c.world) (hr' : r' < c.world) :
    (Precond.run c (St.init c h) ops).outGrads.getD r [] = (Precond.run c (St.init c h) ops).outGrads.getD r' [] :=
  Refine.ranks_agree c hc h ops hne hr hr'

/-- **placement is irrelevant**: two configurations that agree on what the reference machine sees
    (world size, number of layers, method, pre-division, accumulation, hook mode) — whatever their
    gradient-worker count, co-location, cost heuristic, inverse workers, groups, bucket capacity,
    symmetry-aware setting, element sizes and layer dimensions — leave the same gradients -/
theorem placement_irrelevant (c₁ c₂ : Cfg) (h₁ : Refine.CfgOK2 c₁) (h₂ : Refine.CfgOK2 c₂)
    (hs : ofCfg c₁ = ofCfg c₂) (h : Hyper) (ops : List Op)
    (e₁ : (Precond.run c₁ (St.init c₁ h) ops).err = none) (e₂ : (Precond.run c₂ (St.init c₂ h) ops).err = none)
    {r r' : Nat} (hr : r < c₁.world) (hr' : r' < c₂.world) :
    (Precond.run c₁ (St.init c₁ h) ops).outGrads.getD r [] = (Precond.run c₂ (St.init c₂ h) ops).outGrads.getD r' [] :=
  Refine.placement_irrelevant c₁ c₂ h₁ h₂ hs h ops e₁ e₂ hr hr'

/-- in particular bucketing and symmetry-aware communication never change a gradient -/
theorem bucket_sym_irrelevant (c : Cfg) (bucketed sym : Bool) (cap : Nat)
    (hc : Refine.CfgOK2 c) (h : Hyper) (ops : List Op)
    (e₁ : (Precond.run c (St.init c h) ops).err = none)
    (e₂ : (Precond.run { c with bucketed := bucketed, cap := cap, symAware := sym }
            (St.init { c with bucketed := bucketed, cap := cap, symAware := sym } h) ops).err = none)
    {r : Nat} (hr : r < c.world) :
    (Precond.run c (St.init c h) ops).outGrads.getD r [] =
      (Precond.run { c with bucketed := bucketed, cap := cap, symAware := sym }
        (St.init { c with bucketed := bucketed, cap := cap, symAware := sym } h) ops).outGrads.getD r [] :=
  Refine.placement_irrelevant c _ hc (hc.bucket_sym bucketed sym cap)
    (Refine.ofCfg_bucket_sym c bucketed sym cap).symm h ops e₁ e₂ hr hr

/-- **union of the per-rank batches**: the average over ranks of the per-rank batch second moments
    (equal batch sizes) is the second moment of the union batch — so averaging factors over a world
    of `W` ranks is single-process K-FAC on the concatenated batch.  `X r` is rank `r`'s `B × n`
    batch; the union batch has rows indexed by `(r, i)`. -/
theorem cov_union {W B n : ℕ} (X : Fin W → Matrix (Fin B) (Fin n) ℚ) :
    let U : Matrix (Fin W × Fin B) (Fin n) ℚ := fun p j => X p.1 p.2 j
    (∑ r : Fin W, (X r).transpose * X r) = U.transpose * U := by
  intro U
  ext i j
  rw [Matrix.sum_apply, Matrix.mul_apply, Fintype.sum_prod_type]
  simp only [Matrix.mul_apply, Matrix.transpose_apply]
  rfl

/-- **the statement for KAISA itself**: any two well-formed KAISA assignments of the same world
    (any gradient-worker counts dividing it, co-location on/off, any cost dictionaries = COMPUTE or
    MEMORY heuristic, any CPython set orders) combined with any bucket capacities, symmetry settings,
    element sizes and layer dimensions — but the same method, pre-division, accumulation and hook
    mode — leave identical gradients on every rank after every history -/
theorem kaisa_placement_irrelevant (kc₁ kc₂ : Kaisa.Cfg) (h₁ : C06.OK kc₁) (h₂ : C06.OK kc₂)
    (t₁ : KaisaAssign.TwoFactors kc₁) (t₂ : KaisaAssign.TwoFactors kc₂)
    (n₁ : kc₁.work ≠ []) (n₂ : kc₂.work ≠ []) (hw : kc₁.w = kc₂.w)
    (p₁ p₂ : Precond.Cfg) (l₁ : p₁.layers.length = kc₁.work.length) (l₂ : p₂.layers.length = kc₂.work.length)
    (hn : p₁.layers.length = p₂.layers.length) (hm : p₁.method = p₂.method) (hp : p₁.prediv = p₂.prediv)
    (ha : p₁.accum = p₂.accum) (hk : p₁.hook = p₂.hook) (hacc : 0 < p₁.accum)
    (c₁ : p₁.prediv = true → kc₁.colocate = true) (c₂ : p₂.prediv = true → kc₂.colocate = true)
    (h : Hyper) (ops : List Op)
    (e₁ : (Precond.run (KaisaLink.mkCfg kc₁ p₁) (St.init (KaisaLink.mkCfg kc₁ p₁) h) ops).err = none)
    (e₂ : (Precond.run (KaisaLink.mkCfg kc₂ p₂) (St.init (KaisaLink.mkCfg kc₂ p₂) h) ops).err = none)
    {r r' : Nat} (hr : r < kc₁.w) (hr' : r' < kc₂.w) :
    (Precond.run (KaisaLink.mkCfg kc₁ p₁) (St.init (KaisaLink.mkCfg kc₁ p₁) h) ops).outGrads.getD r [] =
      (Precond.run (KaisaLink.mkCfg kc₂ p₂) (St.init (KaisaLink.mkCfg kc₂ p₂) h) ops).outGrads.getD r' [] :=
  placement_irrelevant _ _ (KaisaLink.kaisa_CfgOK2 kc₁ h₁ t₁ n₁ p₁ l₁ hacc c₁)
    (KaisaLink.kaisa_CfgOK2 kc₂ h₂ t₂ n₂ p₂ l₂ (ha ▸ hacc) c₂)
    (KaisaLink.ofCfg_mkCfg_eq hw hn hm hp ha hk) h ops e₁ e₂ hr hr'

end KV.C02
