/-
C03 — all ranks issue matching collectives and no rank ever stalls.

Part 1 (generic, M-Sched): for ANY number of ranks, groups and operations and ANY scheduler:
   invariant ⇒ progress (no deadlock), termination, unique final state in which every event
   completed, and per-group matching.
Part 2 (bridge): a well-formed global script (KV.Sched2.wf) induces per-rank programs satisfying
   the invariant.
Part 3 (kfac): the script emitted by the M-Precond state machine is well-formed for every
   configuration, hyper-parameter schedule and history of whole training iterations.
Property theorems only; helpers in Lemmas/SchedBase.lean and Lemmas/PrecondInv.lean.
-/
import KfacVerif.Lemmas.PrecondInv
import KfacVerif.Lemmas.Confluence

namespace KV.C03
open KV KV.Sched2 KV.Precond

/-! ### Part 1: every schedule -/

/-- executions under an arbitrary scheduler -/
inductive Reach (S : Events) : Sched2.St → Sched2.St → Prop where
  | refl (s : Sched2.St) : Reach S s s
  | tail {s t u : Sched2.St} : Reach S s t → Step S t u → Reach S s u

theorem inv_reachable {S : Events} {n : Nat} {s s' : Sched2.St} (hI : SInv S n s) (h : Reach S s s') :
    SInv S n s' := by
  induction h with
  | refl => exact hI
  | tail _ hs ih => exact ih.step hs

/-- **no deadlock, under every interleaving**: a reachable state with unfinished work always has
    an enabled step -/
theorem no_deadlock {S : Events} {n : Nat} {s0 s : Sched2.St} (hI : SInv S n s0) (h : Reach S s0 s)
    (hne : ∃ r, s.rem r ≠ []) : ∃ s', Step S s s' := by
  exact progress (inv_reachable hI h) hne

/-- remaining work -/
def size (n : Nat) (s : Sched2.St) : Nat := ((List.range n).map fun r => (s.rem r).length).sum

/-- **termination**: every step consumes one action, so every execution is finite -/
theorem step_decreases {S : Events} {n : Nat} {s s' : Sched2.St} (hI : SInv S n s) (hs : Step S s s') :
    size n s' + 1 = size n s := by
  exact step_size hI hs

/-- **unique final state; every started operation completes**: a state without enabled step has
    run every program to the end, every rank has issued exactly its events in the global order,
    and every event is complete -/
theorem terminal_all_done {S : Events} {n : Nat} {s : Sched2.St} (hI : SInv S n s)
    (hterm : ¬ ∃ s', Step S s s') :
    (∀ r, s.rem r = []) ∧ (∀ r, r < n → s.iss r = idsOf S r) ∧ (∀ i, i < S.length → complete S s i) := by
  exact terminal_done hI hterm

/-- **matching**: two members of a group issue the same sequence of events on that group -/
theorem match_per_group {S : Events} {n : Nat} {s : Sched2.St} (hI : SInv S n s) (hdone : ∀ r, s.rem r = [])
    (g : List Nat) {r r' : Nat} (hr : r ∈ g) (hr' : r' ∈ g) (hn : r < n) (hn' : r' < n) :
    (s.iss r).filter (fun i => S.getD i [] == g) = (s.iss r').filter (fun i => S.getD i [] == g) := by
  exact match_group hI hdone g hr hr' hn hn'

/-! ### Part 2: from a script to programs -/

theorem script_consistent (acts : List GAct) (n : Nat) (h : wf n acts = true) :
    SInv (eventsOf acts) n (initOf acts n) := by
  exact script_SInv acts n h

/-- what `wf` guarantees about each issue: members are ranks, groups have at least two members
    (single-member groups short-circuit) and broadcast roots are members -/
theorem wf_issue_facts (acts : List GAct) (n : Nat) (h : wf n acts = true) (m : List Nat) (d : Desc)
    (hm : GAct.issue m d ∈ acts) :
    (∀ r ∈ m, r < n) ∧ 2 ≤ m.length ∧ (d.kind = .broadcast → d.root ∈ m) := by
  exact wfAux_issue_facts n acts [] h m d hm

/-! ### Part 3: the K-FAC state machine -/

/- `CfgOK`, `isStep`, `isTrainPass`, `WholeIter`, `HyperOK`, `histHyperOK`, `wfAuxS` are defined in
   Lemmas/PrecondInv.lean (namespace KV.C03) next to the invariant proofs. -/

/-- **the emitted script is well-formed**: for every world size, assignment, interval pair
    (constant or function of the step), accumulation count, hook/no-hook, bucketed/unbucketed,
    symmetric/dense, method, and every history of whole iterations with save / load / memory
    queries at step boundaries — provided the real code raised no exception (`err = none`) —
    every wait follows the rank's own issue, no getter is reached while its request sits in an
    open bucket, members are ranks, roots are members, single-member groups never communicate. -/
theorem kfac_script_wf (c : Cfg) (hc : CfgOK c) (h : Hyper) (hh : HyperOK h) (ops : List Op)
    (hw : WholeIter c ops) (hho : histHyperOK ops)
    (hne : (run c (Precond.St.init c h) ops).err = none) :
    wf c.world (run c (Precond.St.init c h) ops).acts = true :=
  script_wf_whole c hc h hh ops hw hho hne

/-- hence: matching, no deadlock under any schedule, completion — for K-FAC itself -/
theorem kfac_consistent (c : Cfg) (hc : CfgOK c) (h : Hyper) (hh : HyperOK h) (ops : List Op)
    (hw : WholeIter c ops) (hho : histHyperOK ops)
    (hne : (run c (Precond.St.init c h) ops).err = none) :
    SInv (eventsOf (run c (Precond.St.init c h) ops).acts) c.world (initOf (run c (Precond.St.init c h) ops).acts c.world) :=
  script_consistent _ _ (kfac_script_wf c hc h hh ops hw hho hne)

/-- for ARBITRARY histories (any number of passes between steps, queries anywhere) everything
    except "no getter reached while queued" still holds: waits follow own issues, members are
    ranks, roots are members.  (`wfAuxS` = `wfAux` with stalls tolerated.) -/
theorem kfac_script_wf_any_history (c : Cfg) (hc : CfgOK c) (h : Hyper) (ops : List Op)
    (hne : (run c (Precond.St.init c h) ops).err = none) :
    wfAuxS c.world [] (run c (Precond.St.init c h) ops).acts = true :=
  script_wf_any c hc h ops hne

/-! ### Part 4: what is computed does not depend on the interleaving (M-SchedVal) -/

/-- the discipline is preserved by every step -/
theorem disciplined_step {σ β : Type} (S : SchedV.Sys β) {s s' : SchedV.St σ β}
    (hd : SchedV.Disciplined S s) (h : SchedV.Step S s s') : SchedV.Disciplined S s' := by
  exact SchedV.disciplined_step' S hd h

/-- **diamond**: two different enabled steps commute -/
theorem diamond {σ β : Type} (S : SchedV.Sys β) {s a b : SchedV.St σ β} (hd : SchedV.Disciplined S s)
    (ha : SchedV.Step S s a) (hb : SchedV.Step S s b) :
    a = b ∨ ∃ c, SchedV.Step S a c ∧ SchedV.Step S b c := by
  exact SchedV.diamond' S hd ha hb

/-- **every interleaving computes the same thing**: two complete executions from the same
    disciplined state (whatever the scheduler did) end in the same state — same local states on every
    rank, same payloads, all programs consumed equally -/
theorem every_interleaving_same_result {σ β : Type} (S : SchedV.Sys β) {s t u : SchedV.St σ β}
    (hd : SchedV.Disciplined S s) (n : Nat) (hfin : ∀ r, n ≤ r → s.rem r = [])
    (ht : SchedV.Reach S s t) (hu : SchedV.Reach S s u)
    (tt : SchedV.Terminal S t) (tu : SchedV.Terminal S u) : t = u := by
  exact SchedV.confluent S n _ s rfl hd hfin t u ht hu tt tu

end KV.C03
