/-
C20 — tracing is transparent and its statistics are exact.
Model: KV.Trace (record / window / stat / getTrace / step / run / tracedCall) = kfac/tracing.py.
Property theorems only; helpers in Lemmas/SchedTrace.lean.
-/
import KfacVerif.Lemmas.SchedTrace

namespace KV.C20
open KV KV.Trace

/-- **transparent**: the wrapper hands the function's outcome (value or exception) through unchanged -/
theorem transparent {α ε : Type} (t : Table) (name : String) (dt : Rat) (o : Outcome α ε) :
    (tracedCall t name dt o).2 = o := by
  cases o <;> rfl

/-- a returning call records exactly what `step (.call … false)` records, a raising call nothing -/
theorem tracedCall_table {α ε : Type} (t : Table) (name : String) (dt : Rat) (v : α) (e : ε) :
    (tracedCall t name dt (Outcome.ret v : Outcome α ε)).1 = step t (.call name dt false) ∧
    (tracedCall t name dt (Outcome.raise e : Outcome α ε)).1 = t := by
  exact ⟨rfl, rfl⟩

/-- **one sample per completed call**, appended under the function's name; other names untouched -/
theorem one_sample_per_call (t : Table) (name : String) (dt : Rat) :
    samples (step t (.call name dt false)) name = samples t name ++ [dt] ∧
    ∀ m, m ≠ name → samples (step t (.call name dt false)) m = samples t m := by
  exact ⟨samples_record_self t name dt, fun m hm => samples_record_ne t name m dt hm⟩

theorem raising_call_records_nothing (t : Table) (name : String) (dt : Rat) :
    step t (.call name dt true) = t := by
  rfl

/-- invariant of every reachable table: unique keys, and no name with an empty sample list
    (so the mean is always defined) -/
theorem reachable_inv (ops : List Op) :
    KeysNodup (run [] ops) ∧ ∀ p ∈ run [] ops, p.2 ≠ [] := by
  exact inv_run ops [] inv_nil

/-- **history**: the samples of a name are exactly the durations of its completed calls since the
    last clear, in call order -/
theorem samples_are_history (ops : List Op) (name : String) :
    samples (run [] ops) name =
      (since ops).filterMap fun o => match o with
        | .call n dt false => if n = name then some dt else none
        | _ => none := by
  exact samples_history ops name

/-- **statistic, unset window**: sum, resp. mean, of all samples -/
theorem stat_all (l : List Rat) (hl : l ≠ []) :
    stat false none l = .val l.sum ∧ stat true none l = .val (l.sum / l.length) := by
  exact stat_none l hl

/-- **statistic, window `m ≥ 1`**: sum, resp. mean, of the LAST `min m len` samples -/
theorem stat_window (l : List Rat) (hl : l ≠ []) (m : Nat) (hm : 1 ≤ m) :
    let w := l.drop (l.length - min m l.length)
    w.length = min m l.length ∧
    stat false (some (m : Int)) l = .val w.sum ∧
    stat true (some (m : Int)) l = .val (w.sum / w.length) := by
  exact stat_some l hl m hm

/-- the query returns one entry per recorded name, in first-call order -/
theorem getTrace_keys (t : Table) (avg : Bool) (mh : Option Int) :
    (getTrace t avg mh).map (·.1) = t.map (·.1) := by
  exact getTrace_map_fst t avg mh

/-- **clear** removes every recorded trace -/
theorem clear_empties (t : Table) (avg : Bool) (mh : Option Int) :
    step t .clear = [] ∧ getTrace (step t .clear) avg mh = [] := by
  exact ⟨rfl, rfl⟩

/-! ### re-entrant calls (recursion, callbacks): every invocation measures its own duration -/

/-- **refinement, every event sequence**: the wrapper's clock arithmetic (one start reading per
    active invocation, sample = clock at return − own start reading) records exactly what the
    clock-free specification records, in which every active invocation accumulates the time that
    passes while it is active — however deeply and in whatever pattern traced calls nest, including a
    function that re-enters itself -/
theorem nested_refines (evs : List Ev) (t : Table) :
    (nrun { table := t } evs).table = (srun { table := t } evs).table ∧
    (nrun { table := t } evs).stack.map (·.1) = (srun { table := t } evs).stack.map (·.1) := by
  have h := absN_run evs { table := t }
  have h0 : absN ({ table := t } : NState) = ({ table := t } : SState) := by simp [absN]
  rw [h0] at h
  rw [← h]
  simp [absN, List.map_map, Function.comp_def]

/-- a plain (non-nested) call is the special case the flat model `step` describes -/
theorem flat_is_special_case (t : Table) (name : String) (dt : Rat) :
    (nrun { table := t } [.enter name, .tick dt, .leave]).table = step t (.call name dt false) := by
  simp [nrun, nstep, step]

/-- **recursion**: `f` re-entering itself after `a`, the inner call lasting `b`, and returning `c`
    later records `b` for the inner and `a + b + c` for the outer invocation, in that order (a shared
    start field would record `b` and `b + c`) -/
theorem recursion_two_levels (t : Table) (f : String) (a b c : Rat) :
    (nrun { table := t } [.enter f, .tick a, .enter f, .tick b, .leave, .tick c, .leave]).table
      = record (record t f b) f (a + b + c) := by
  simp [nrun, nstep]

/-- a chain of nested calls is exactly the event sequence the driver runs for the harness's
    re-entrant operations: non-vacuity of the above on a three-level chain through two functions -/
example : (nrun {} (chainEvents ["f", "g", "f"] [1, 2] [4, 8, 16])).table = [("f", [4, 1 + 2 + 4 + 8 + 16]), ("g", [2 + 4 + 8])] := by
  decide +kernel

end KV.C20
