import KfacVerif.Model.Comm
namespace KV.C14
open KV KV.Comm
theorem placeholder : getTriu [] = [] := rfl
end KV.C14
