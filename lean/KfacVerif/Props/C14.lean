/-
C14 — triangular packing of symmetric matrices is lossless.
Model: KV.Comm.getTriu / fillTriu / checkShape / the three communicator entry points
(kfac/distributed.py).  Property theorems only; helpers in Lemmas/Triu.lean.
-/
import KfacVerif.Lemmas.Triu
import KfacVerif.Lemmas.TriuPoly

namespace KV.C14
open KV KV.Comm

-- `Square`, `Symm`, `matSum` are defined (verbatim) in Lemmas/Triu.lean, namespace KV.C14.

/-- the packed vector of an `n × n` matrix has `n(n+1)/2` entries -/
theorem length_triu {A : Mat} {n : Nat} (hA : Square A n) : (getTriu A).length = n * (n + 1) / 2 :=
  length_getTriu hA

/-- pack then unpack reproduces a symmetric matrix exactly -/
theorem fill_get {A : Mat} {n : Nat} (hA : Square A n) (hS : Symm A n) :
    fillTriu n (getTriu A) = A :=
  fill_get' hA hS

/-- unpacking always yields a square symmetric matrix -/
theorem fill_symmetric (n : Nat) (v : List Int) : Square (fillTriu n v) n ∧ Symm (fillTriu n v) n :=
  ⟨square_fillTriu n v, symm_fillTriu n v⟩

/-- unpack then pack is the identity on vectors of the right length -/
theorem get_fill {n : Nat} {v : List Int} (hv : v.length = n * (n + 1) / 2) :
    getTriu (fillTriu n v) = v :=
  get_fill' hv

/-- packing is linear -/
theorem getTriu_add {A B : Mat} {n : Nat} (hA : Square A n) (hB : Square B n) :
    getTriu (matAdd A B) = vecAdd (getTriu A) (getTriu B) :=
  getTriu_add' hA hB

/-- symmetric all-reduce = dense all-reduce, for any number of ranks:
    unpacking the sum of the packed matrices gives the sum of the matrices -/
theorem sym_reduce_eq_dense {n : Nat} (Ms : List Mat) (hne : Ms ≠ [])
    (hsq : ∀ A ∈ Ms, Square A n) (hsy : ∀ A ∈ Ms, Symm A n) :
    fillTriu n (sumRanks (Ms.map getTriu)) = matSum Ms :=
  sym_reduce' Ms hne hsq hsy

/-- symmetric broadcast = dense broadcast: every receiver unpacks the root's packed matrix -/
theorem sym_bcast_eq_dense {A : Mat} {n : Nat} (hA : Square A n) (hS : Symm A n) :
    fillTriu n (getTriu A) = A := fill_get hA hS

/-- symmetry-aware mode sends `n(n+1)/2` elements for an `n × n` matrix -/
theorem triu_count (n : Nat) : commElems [n, n] true = n * (n + 1) / 2 := rfl

/-- shapes that are not 2-D square are rejected … -/
theorem rejects_nonsquare (shape : List Nat) (h : ¬ ∃ n, shape = [n, n]) :
    checkShape shape true = .error .nonSquare :=
  checkShape_nonsquare shape h

theorem accepts_square (n : Nat) (sym : Bool) : checkShape [n, n] sym = .ok () :=
  checkShape_square n sym

/-- … by all three entry points, BEFORE anything is communicated or any state changes
    (whenever the group has more than one member; a one-member group returns the tensor as is) -/
theorem rejects_before_communication (s : CState) (g : Key) (tid : Nat) (shape : List Nat)
    (es dt src : Nat) (hg : g.length ≠ 1) (h : ¬ ∃ n, shape = [n, n]) :
    allreduceBucketed s g tid shape es dt true = (s, [], .err .nonSquare) ∧
    allreduce s g tid shape true = (s, [], .err .nonSquare) ∧
    broadcast s g tid shape true src = (s, [], .err .nonSquare) := by
  have hc := checkShape_nonsquare shape h
  simp [allreduceBucketed, allreduce, broadcast, hg, hc]

/-! ## the packing only MOVES entries: every payload type

`getTriuP`, `fillTriuP`, `SquareP`, `SymmP` (Lemmas/TriuPoly.lean) are the definitions of the model with
the entry type left open; the executable Int-valued model compared with the code on every run is their
instance at `Int` (`getTriu_is_poly`, `fillTriu_is_poly`).  So "every dtype" — including entries no
arithmetic is exact for: infinities, NaN payloads, signed zeros — is a theorem, and the bit-exact
extreme-value stream of the check is its tie to the code. -/
section AnyPayload

/-- the Int-valued executable model is the polymorphic packing at `α := Int` -/
theorem getTriu_is_poly (A : Mat) : getTriu A = getTriuP A := by
  exact getTriu_eq_P A

theorem fillTriu_is_poly (n : Nat) (v : List Int) : fillTriu n v = fillTriuP (0 : Int) n v := by
  exact fillTriu_eq_P n v

/-- **every dtype, every payload**: for ANY type of entries (floats of any width incl. infinities,
    NaN payloads and signed zeros, integers, …) packing the upper triangle of a symmetric `n × n`
    matrix and unpacking it gives back the very same entries -/
theorem fill_get_any_payload {α : Type} (d : α) {A : List (List α)} {n : Nat}
    (hA : SquareP A n) (hS : SymmP d A n) : fillTriuP d n (getTriuP A) = A := by
  exact fill_getP d hA hS

theorem get_fill_any_payload {α : Type} (d : α) {n : Nat} {v : List α} (hv : v.length = n * (n + 1) / 2) :
    getTriuP (fillTriuP d n v) = v := by
  exact get_fillP d hv

/-- packing commutes with any entrywise map (a dtype conversion, a scaling): it is natural in the
    payload type -/
theorem getTriu_map {α β : Type} (f : α → β) (A : List (List α)) :
    getTriuP (A.map (List.map f)) = (getTriuP A).map f := by
  exact getTriuP_map f A

theorem fillTriu_map {α β : Type} (f : α → β) (d : α) (n : Nat) (v : List α) (hv : v.length = n * (n + 1) / 2) :
    fillTriuP (f d) n (v.map f) = (fillTriuP d n v).map (List.map f) := by
  exact fillTriuP_map f d n v

/-- non-vacuity with a payload type that has no arithmetic at all -/
example : fillTriuP "?" 3 (getTriuP [["a", "b", "c"], ["b", "d", "e"], ["c", "e", "f"]])
    = [["a", "b", "c"], ["b", "d", "e"], ["c", "e", "f"]] := by
  decide


end AnyPayload

end KV.C14
