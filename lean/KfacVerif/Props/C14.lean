/-
C14 — triangular packing of symmetric matrices is lossless.
Model: KV.Comm.getTriu / fillTriu / checkShape / the three communicator entry points
(kfac/distributed.py).  Property theorems only; helpers in Lemmas/Triu.lean.
-/
import KfacVerif.Lemmas.Triu

namespace KV.C14
open KV KV.Comm

-- `Square`, `Symm`, `matSum` are defined (verbatim) in Lemmas/Triu.lean, namespace KV.C14.

/-- the packed vector of an `n × n` matrix has `n(n+1)/2` entries -/
theorem length_triu {A : Mat} {n : Nat} (hA : Square A n) : (getTriu A).length = n * (n + 1) / 2 :=
  length_getTriu hA

/-- pack then unpack reproduces a symmetric matrix exactly -/
theorem fill_get {A : Mat} {n : Nat} (hA : Square A n) (hS : Symm A n) :
    fillTriu n (getTriu A) = A :=
  fill_get' hA hS

/-- unpacking always yields a square symmetric matrix -/
theorem fill_symmetric (n : Nat) (v : List Int) : Square (fillTriu n v) n ∧ Symm (fillTriu n v) n :=
  ⟨square_fillTriu n v, symm_fillTriu n v⟩

/-- unpack then pack is the identity on vectors of the right length -/
theorem get_fill {n : Nat} {v : List Int} (hv : v.length = n * (n + 1) / 2) :
    getTriu (fillTriu n v) = v :=
  get_fill' hv

/-- packing is linear -/
theorem getTriu_add {A B : Mat} {n : Nat} (hA : Square A n) (hB : Square B n) :
    getTriu (matAdd A B) = vecAdd (getTriu A) (getTriu B) :=
  getTriu_add' hA hB

/-- symmetric all-reduce = dense all-reduce, for any number of ranks:
    unpacking the sum of the packed matrices gives the sum of the matrices -/
theorem sym_reduce_eq_dense {n : Nat} (Ms : List Mat) (hne : Ms ≠ [])
    (hsq : ∀ A ∈ Ms, Square A n) (hsy : ∀ A ∈ Ms, Symm A n) :
    fillTriu n (sumRanks (Ms.map getTriu)) = matSum Ms :=
  sym_reduce' Ms hne hsq hsy

/-- symmetric broadcast = dense broadcast: every receiver unpacks the root's packed matrix -/
theorem sym_bcast_eq_dense {A : Mat} {n : Nat} (hA : Square A n) (hS : Symm A n) :
    fillTriu n (getTriu A) = A := fill_get hA hS

/-- symmetry-aware mode sends `n(n+1)/2` elements for an `n × n` matrix -/
theorem triu_count (n : Nat) : commElems [n, n] true = n * (n + 1) / 2 := rfl

/-- shapes that are not 2-D square are rejected … -/
theorem rejects_nonsquare (shape : List Nat) (h : ¬ ∃ n, shape = [n, n]) :
    checkShape shape true = .error .nonSquare :=
  checkShape_nonsquare shape h

theorem accepts_square (n : Nat) (sym : Bool) : checkShape [n, n] sym = .ok () :=
  checkShape_square n sym

/-- … by all three entry points, BEFORE anything is communicated or any state changes
    (whenever the group has more than one member; a one-member group returns the tensor as is) -/
theorem rejects_before_communication (s : CState) (g : Key) (tid : Nat) (shape : List Nat)
    (es dt src : Nat) (hg : g.length ≠ 1) (h : ¬ ∃ n, shape = [n, n]) :
    allreduceBucketed s g tid shape es dt true = (s, [], .err .nonSquare) ∧
    allreduce s g tid shape true = (s, [], .err .nonSquare) ∧
    broadcast s g tid shape true src = (s, [], .err .nonSquare) := by
  have hc := checkShape_nonsquare shape h
  simp [allreduceBucketed, allreduce, broadcast, hg, hc]

end KV.C14
