/-
C19 — hyper-parameter schedulers apply multiplicative factors deterministically.
Model: KV.Sched (schedStep / schedTrace / schedRun / ctorOk / expDecay) = kfac/scheduler.py,
kfac/hyperparams.py.  Property theorems only; helpers in Lemmas/SchedTrace.lean.
-/
import KfacVerif.Lemmas.SchedTrace
import Mathlib.Data.Rat.Floor
import Mathlib.Algebra.BigOperators.Group.List.Basic

namespace KV.C19
open KV KV.Sched

/-- the step value a scheduler call uses: the explicit one if supplied, else the preconditioner's -/
def argOf (c : Nat × Option Nat) : Nat := c.2.getD c.1

/-- **float parameters**: after any sequence of calls the value is the initial value times the
    product of the factors `f(arg_i)` (left fold); stated for each of the four float parameters -/
theorem damping_after (l : Lambdas) (p : Params) (calls : List (Nat × Option Nat)) (f : Nat → Rat)
    (hf : l.damping = some f) :
    (schedRun l p calls).damping = p.damping * (calls.map fun c => f (argOf c)).prod := by
  rw [run_damping, hf]; exact foldl_stepR_some f _ calls _

theorem decay_after (l : Lambdas) (p : Params) (calls : List (Nat × Option Nat)) (f : Nat → Rat)
    (hf : l.decay = some f) :
    (schedRun l p calls).decay = p.decay * (calls.map fun c => f (argOf c)).prod := by
  rw [run_decay, hf]; exact foldl_stepR_some f _ calls _

theorem kl_after (l : Lambdas) (p : Params) (calls : List (Nat × Option Nat)) (f : Nat → Rat)
    (hf : l.kl = some f) :
    (schedRun l p calls).kl = p.kl * (calls.map fun c => f (argOf c)).prod := by
  rw [run_kl, hf]; exact foldl_stepR_some f _ calls _

theorem lr_after (l : Lambdas) (p : Params) (calls : List (Nat × Option Nat)) (f : Nat → Rat)
    (hf : l.lr = some f) :
    (schedRun l p calls).lr = p.lr * (calls.map fun c => f (argOf c)).prod := by
  rw [run_lr, hf]; exact foldl_stepR_some f _ calls _

/-- **interval parameters**: multiply then truncate toward zero, at every call -/
theorem fus_after (l : Lambdas) (p : Params) (calls : List (Nat × Option Nat)) (f : Nat → Rat)
    (hf : l.fus = some f) :
    (schedRun l p calls).fus = calls.foldl (fun v c => truncRat ((v : Rat) * f (argOf c))) p.fus := by
  rw [run_fus, hf]; rfl

theorem ius_after (l : Lambdas) (p : Params) (calls : List (Nat × Option Nat)) (f : Nat → Rat)
    (hf : l.ius = some f) :
    (schedRun l p calls).ius = calls.foldl (fun v c => truncRat ((v : Rat) * f (argOf c))) p.ius := by
  rw [run_ius, hf]; rfl

/-- `int()` is truncation toward zero -/
theorem truncRat_nonneg (q : Rat) (h : 0 ≤ q) : truncRat q = ⌊q⌋ := by
  exact truncRat_of_nonneg q h

theorem truncRat_nonpos (q : Rat) (h : q ≤ 0) : truncRat q = ⌈q⌉ := by
  exact truncRat_of_nonpos q h

/-- **frame**: parameters without a factor function never change -/
theorem frame (l : Lambdas) (p : Params) (calls : List (Nat × Option Nat)) :
    (l.fus = none → (schedRun l p calls).fus = p.fus) ∧
    (l.ius = none → (schedRun l p calls).ius = p.ius) ∧
    (l.damping = none → (schedRun l p calls).damping = p.damping) ∧
    (l.decay = none → (schedRun l p calls).decay = p.decay) ∧
    (l.kl = none → (schedRun l p calls).kl = p.kl) ∧
    (l.lr = none → (schedRun l p calls).lr = p.lr) := by
  refine ⟨?_, ?_, ?_, ?_, ?_, ?_⟩ <;> intro h
  · rw [run_fus, h]; exact foldl_stepI_none _ calls _
  · rw [run_ius, h]; exact foldl_stepI_none _ calls _
  · rw [run_damping, h]; exact foldl_stepR_none _ calls _
  · rw [run_decay, h]; exact foldl_stepR_none _ calls _
  · rw [run_kl, h]; exact foldl_stepR_none _ calls _
  · rw [run_lr, h]; exact foldl_stepR_none _ calls _

/-- **no cross-wiring**: a parameter depends on its own factor function only -/
theorem no_cross_wiring (l l' : Lambdas) (p : Params) (calls : List (Nat × Option Nat)) :
    (l.fus = l'.fus → (schedRun l p calls).fus = (schedRun l' p calls).fus) ∧
    (l.ius = l'.ius → (schedRun l p calls).ius = (schedRun l' p calls).ius) ∧
    (l.damping = l'.damping → (schedRun l p calls).damping = (schedRun l' p calls).damping) ∧
    (l.decay = l'.decay → (schedRun l p calls).decay = (schedRun l' p calls).decay) ∧
    (l.kl = l'.kl → (schedRun l p calls).kl = (schedRun l' p calls).kl) ∧
    (l.lr = l'.lr → (schedRun l p calls).lr = (schedRun l' p calls).lr) := by
  refine ⟨?_, ?_, ?_, ?_, ?_, ?_⟩ <;> intro h
  · rw [run_fus, run_fus, h]
  · rw [run_ius, run_ius, h]
  · rw [run_damping, run_damping, h]
  · rw [run_decay, run_decay, h]
  · rw [run_kl, run_kl, h]
  · rw [run_lr, run_lr, h]

/-- the trace printed by the driver is the sequence of states of `schedRun` -/
theorem trace_last (l : Lambdas) (p : Params) (calls : List (Nat × Option Nat)) :
    (schedTrace l p calls).getLast? = if calls = [] then none else some (schedRun l p calls) := by
  exact trace_getLast? l calls p

/-- **constructor**: accepted iff no scheduled parameter is already a function -/
theorem ctor_refuses (scheduled callable : List Bool) (h : scheduled.length = callable.length) :
    ctorOk scheduled callable = true ↔
      ∀ i, i < scheduled.length → ¬ (scheduled.getD i false = true ∧ callable.getD i false = true) := by
  exact ctorOk_iff scheduled callable h

/-! exponential-decay averaging schedule `min(1 - 1/max(k,1), cap)` -/

theorem expDecay_zero (cap : Rat) : expDecay cap 0 = expDecay cap 1 := by
  exact expDecay_zero_eq cap

theorem expDecay_monotone (cap : Rat) {k k' : Nat} (h : k ≤ k') : expDecay cap k ≤ expDecay cap k' := by
  exact expDecay_mono cap h

theorem expDecay_range (cap : Rat) (hc : 0 < cap) (k : Nat) : 0 ≤ expDecay cap k ∧ expDecay cap k ≤ cap := by
  exact expDecay_bounds cap hc k

theorem expDecay_spec (cap : Rat) (k : Nat) (hk : 1 ≤ k) : expDecay cap k = min (1 - 1 / (k : Rat)) cap := by
  exact expDecay_eq cap k hk

end KV.C19
