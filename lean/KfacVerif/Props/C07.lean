/-
C07 — KL clipping bounds the update and only rescales it.
Over ℝ: nu = min(1, sqrt(kl / |S·lr²|)) (1 when S·lr² = 0) is positive, at most one, satisfies the
bound, and its square is the rational `KV.Alg.nuSq` the correspondence compares exactly with
`_compute_grad_scale`; in the reference machine (which M-Precond refines on every rank, C05
`refines`) one and the same nu multiplies every layer.  Property theorems only.
-/
import KfacVerif.Lemmas.ClipAlg
import Mathlib.Analysis.SpecialFunctions.Pow.Real
import Mathlib.Analysis.SpecialFunctions.Sqrt
import Mathlib.Analysis.Real.Sqrt
import Mathlib.Tactic.Positivity
import Mathlib.Tactic.Linarith
import Mathlib.Tactic.FieldSimp

namespace KV.C07

/- the clip scale `nu kl lr S = if S * lr ^ 2 = 0 then 1 else min 1 (√(kl / |S * lr ^ 2|))`,
   `S = Σ_layers <V_l, D_l>`, is defined (moved verbatim) in Lemmas/ClipAlg.lean, namespace KV.C07 -/

theorem nu_pos (kl lr S : ℝ) (hk : 0 < kl) : 0 < nu kl lr S := by
  exact nu_pos' kl lr S hk

theorem nu_le_one (kl lr S : ℝ) : nu kl lr S ≤ 1 := by
  exact nu_le_one' kl lr S

/-- **the bound**: `nu² · lr² · |Σ<V,D>| ≤ kl_clip` -/
theorem bound (kl lr S : ℝ) (hk : 0 ≤ kl) : nu kl lr S ^ 2 * lr ^ 2 * |S| ≤ kl ∨ S * lr ^ 2 = 0 := by
  exact Or.inl (by rw [mul_assoc]; exact nu_bound' kl lr S hk)

theorem bound' (kl lr S : ℝ) (hk : 0 ≤ kl) : nu kl lr S ^ 2 * (lr ^ 2 * |S|) ≤ kl := by
  exact nu_bound' kl lr S hk

/-- a zero inner product (or zero learning rate) gives `nu = 1` -/
theorem zero_inner (kl lr S : ℝ) (h : S * lr ^ 2 = 0) : nu kl lr S = 1 := by
  exact nu_zero kl lr S h

/-- clipping is inactive exactly when the unclipped update already satisfies the bound -/
theorem inactive_iff (kl lr S : ℝ) (hk : 0 < kl) (hs : S * lr ^ 2 ≠ 0) :
    nu kl lr S = 1 ↔ lr ^ 2 * |S| ≤ kl := by
  exact nu_inactive_iff kl lr S hk hs

/-- the executable rational `KV.Alg.nuSq` is `nu²` -/
theorem nuSq_spec (kl lr S : ℚ) (hk : 0 ≤ kl) :
    ((KV.Alg.nuSq kl lr S : ℚ) : ℝ) = nu (kl : ℝ) (lr : ℝ) (S : ℝ) ^ 2 := by
  exact nuSq_spec' kl lr S hk

/-- the weight/bias split of the code (`[:, :-1]`, `[:, -1:]`) sums to the inner product of the
    combined matrices: `<V, D> = <V_w, D_w> + <V_b, D_b>` -/
theorem inner_split (g a : ℕ) (V D : KV.Alg.Mat) :
    KV.Alg.inner g (a + 1) V D =
      KV.Alg.inner g a V D + KV.Alg.sumTo g fun i => KV.Alg.ent V i a * KV.Alg.ent D i a := by
  exact inner_split' g a V D

open KV.Precond KV.Spec in
/-- **only rescales, one scalar for every layer**: the gradients left by a step are `scale n v_l`
    with one and the same `n` for all layers (and, by C05 `refines`, on all ranks), where `v_l` is
    the unclipped preconditioned gradient; with `kl_clip = None` they are the `v_l` themselves -/
theorem only_rescales (c : SCfg) (s : SSt) :
    let vs := (idxs c).map fun l =>
      let s1 := Spec.step c { s with hyper := { s.hyper with kl := .const none } }
      s1.out.getD l .garbage
    (s.hyper.kl.val s.steps = none → (Spec.step c s).out = vs) ∧
    (∀ k, s.hyper.kl.val s.steps = some k → ∃ n, (Spec.step c s).out = vs.map fun v => V.scale n v) := by
  exact only_rescales' c s

end KV.C07
