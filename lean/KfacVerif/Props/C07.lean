import KfacVerif.Model.Alg
namespace KV.C07
theorem placeholder : (1:Nat) = 1 := rfl
end KV.C07
