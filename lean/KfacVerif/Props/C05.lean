/-
C05 — update intervals and hyper-parameter schedules are honoured over any history.
`refines` (Lemmas/Refine.lean): the distributed machine M-Precond (tied to the code by the
correspondence) produces, on every rank, the gradients of the reference machine KV.Spec fed the
same history.  The remaining theorems spell out what the reference machine does with intervals and
schedules.  Property theorems only; helpers in Lemmas/SpecFacts.lean, Lemmas/Refine.lean.
-/
import KfacVerif.Lemmas.SpecFacts

namespace KV.C05
open KV KV.Precond KV.Spec

/-- **refinement**: gradients, step count, registered factor values and factors of every rank equal
    those of the reference state machine, for every configuration, schedule and history (of any
    length, any interleaving of train/eval passes, reset_batch, checkpoint round trips, scheduler
    changes) on which the real code raises no exception -/
theorem refines (c : Cfg) (hc : Refine.CfgOK2 c) (h : Hyper) (ops : List Op)
    (hne : (Precond.run c (St.init c h) ops).err = none) :
    let s := Precond.run c (St.init c h) ops
    let t := Spec.run (ofCfg c) (SSt.init (ofCfg c) h) ops
    s.steps = t.steps ∧ s.defs = t.defs ∧
    (∀ r, r < c.world → s.outGrads.getD r [] = t.out) ∧
    (∀ r l, r < c.world → l < c.layers.length →
      ((getL s r l).aFactor.map (·.val)) = (getS t l).aFactor ∧
      ((getL s r l).gFactor.map (·.val)) = (getS t l).gFactor) :=
  Refine.refines c hc h ops hne

/-- the step count grows by exactly one per step and by nothing else -/
theorem steps_increment (c : SCfg) (s : SSt) (op : Op) :
    (Spec.exec c s op).steps = if (match op with | .step => true | _ => false) then s.steps + 1 else s.steps :=
  Spec.exec_steps c s op

/-- micro-step counters are cleared by every step -/
theorem ministeps_cleared (c : SCfg) (s : SSt) : (Spec.step c s).mini = List.replicate c.nLayers 0 := rfl

/-- **factors change only on multiples of the factor-update interval** (train pass and step) -/
theorem factors_frozen_off_multiples (c : SCfg) (s : SSt) (hoff : s.steps % s.hyper.fus.val s.steps ≠ 0)
    (l : Nat) :
    (getS (Spec.fwdBwd c s true) l).aFactor = (getS s l).aFactor ∧
    (getS (Spec.fwdBwd c s true) l).gFactor = (getS s l).gFactor ∧
    (getS (Spec.step c s) l).aFactor = (getS s l).aFactor ∧
    (getS (Spec.step c s) l).gFactor = (getS s l).gFactor ∧
    (Spec.fwdBwd c s true).defs = s.defs ∧ (Spec.step c s).defs = s.defs := by
  have h1 := Spec.step_fac_off c s hoff l
  rw [Spec.fwdBwd_off c s hoff]
  exact ⟨rfl, rfl, congrArg Prod.fst h1.1, congrArg Prod.snd h1.1, rfl, h1.2⟩

/-- eval-mode passes change nothing at all (reference machine and distributed machine) -/
theorem eval_noop (c : SCfg) (s : SSt) (c' : Cfg) (s' : St) :
    Spec.fwdBwd c s false = s ∧ Precond.fwdBwd c' s' false = s' :=
  ⟨rfl, rfl⟩

/-- **second-order data is recomputed only on multiples of the inverse-update interval**: on any
    other step the stale data is kept … -/
theorem so_frozen_off_multiples (c : SCfg) (s : SSt) (hoff : s.steps % s.hyper.ius.val s.steps ≠ 0)
    (l : Nat) : soOf (getS (Spec.step c s) l) = soOf (getS s l) :=
  Spec.step_so_off c s hoff l

/-- … and on a multiple (always on step 0) every layer's data is recomputed from the factors as
    they are after this step's factor update, with the damping of this step -/
theorem refresh_on_multiples (c : SCfg) (s : SSt) (hon : s.steps % s.hyper.ius.val s.steps = 0)
    (l : Nat) (hl : l < c.nLayers) (hlen : s.layers.length = c.nLayers) :
    let x := getS (Spec.step c s) l
    let d := s.hyper.damping.val s.steps
    match c.method with
    | .inverse => x.aInv = some (.inv (x.aFactor.getD .zero) d) ∧ x.gInv = some (.inv (x.gFactor.getD .zero) d)
    | .eigen =>
      x.qa = some (.eigQ (x.aFactor.getD .zero)) ∧ x.qg = some (.eigQ (x.gFactor.getD .zero)) ∧
      (if c.prediv then x.dgda = some (.outerInv (.eigD (x.gFactor.getD .zero)) (.eigD (x.aFactor.getD .zero)) d)
       else x.da = some (.eigD (x.aFactor.getD .zero)) ∧ x.dg = some (.eigD (x.gFactor.getD .zero))) := by
  have h := Spec.step_refreshed c s hon l hl hlen
  unfold Spec.Refreshed at h
  exact h

theorem step_zero_refreshes (h : Hyper) : 0 % h.ius.val 0 = 0 := Nat.zero_mod _

/-- **schedules are evaluated at the current step count**: a step depends on the six
    hyper-parameters only through their values at `s.steps` -/
theorem schedules_read_at_current_step (c : SCfg) (s : SSt) (h' : Hyper)
    (e1 : h'.fus.val s.steps = s.hyper.fus.val s.steps) (e2 : h'.ius.val s.steps = s.hyper.ius.val s.steps)
    (e3 : h'.damping.val s.steps = s.hyper.damping.val s.steps) (e4 : h'.decay.val s.steps = s.hyper.decay.val s.steps)
    (e5 : h'.kl.val s.steps = s.hyper.kl.val s.steps) (e6 : h'.lr.val s.steps = s.hyper.lr.val s.steps) :
    let a := Spec.step c s
    let b := Spec.step c { s with hyper := h' }
    a.out = b.out ∧ a.layers = b.layers ∧ a.defs = b.defs ∧ a.steps = b.steps :=
  Spec.step_sched c s h' e1 e2 e3 e4 e5 e6

/-- **damping baked in at refresh time**: for the inverse method and for pre-divided eigenvalues the
    preconditioned gradient does not depend on the damping of the current step (only on the data
    computed at the last refresh); for plain eigen it uses the damping of the current step -/
theorem damping_baked_at_refresh (c : SCfg) (s : SSt) (l : Nat) (d d' : Rat)
    (hm : c.method = .inverse ∨ c.prediv = true) : Spec.precond c s l d = Spec.precond c s l d' :=
  Spec.precond_damping c s l d d' hm

end KV.C05
