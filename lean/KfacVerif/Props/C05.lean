import KfacVerif.Model.Precond
namespace KV.C05
theorem placeholder : (1:Nat) = 1 := rfl
end KV.C05
