/-
C01 — the preconditioned gradient solves the damped Kronecker-factored system.
Exact identities over an arbitrary field `K` (ordered where positivity is needed) and arbitrary
finite index types (= all layer sizes); the executable rational formulas KV.Alg.* that the
correspondence compares with the code are bridged to them at `K = ℚ`.
Property theorems only; helpers in Lemmas/AlgBridge.lean.
-/
import KfacVerif.Lemmas.AlgBridge
import Mathlib.LinearAlgebra.Matrix.NonsingularInverse
import Mathlib.LinearAlgebra.Matrix.PosDef
import Mathlib.Analysis.Matrix.PosDef
import Mathlib.Data.Real.Basic
import Mathlib.Tactic.FieldSimp
import Mathlib.Tactic.Ring

namespace KV.C01
open Matrix

variable {K : Type*} [Field K] {m n : Type*} [Fintype m] [DecidableEq m] [Fintype n] [DecidableEq n]

/- `eigenPrecond`, `eigenPrecondPre`, `invPrecond` (and `toM`, `toV` below) are defined in
   Lemmas/AlgBridge.lean under `namespace KV.C01` (moved there verbatim). -/

/-- **eigen method solves `G V A + λ V = D`** with `G = Qg diag(dg) Qgᵀ`, `A = Qa diag(da) Qaᵀ`, for
    orthogonal `Qg`, `Qa` and non-vanishing denominators -/
theorem eigen_solves (Qg : Matrix m m K) (Qa : Matrix n n K) (dg : m → K) (da : n → K) (lam : K)
    (D : Matrix m n K) (hg : Qg * Qgᵀ = 1) (hg' : Qgᵀ * Qg = 1) (ha : Qa * Qaᵀ = 1) (ha' : Qaᵀ * Qa = 1)
    (hne : ∀ i j, dg i * da j + lam ≠ 0) :
    (Qg * diagonal dg * Qgᵀ) * eigenPrecond Qg Qa dg da lam D * (Qa * diagonal da * Qaᵀ)
      + lam • eigenPrecond Qg Qa dg da lam D = D := by
  exact KV.AlgBridge.eigen_solves_gen Qg Qa dg da lam D hg hg' ha ha' hne

/-- the solution is unique: the system is non-singular -/
theorem eigen_unique (Qg : Matrix m m K) (Qa : Matrix n n K) (dg : m → K) (da : n → K) (lam : K)
    (D V : Matrix m n K) (hg : Qg * Qgᵀ = 1) (hg' : Qgᵀ * Qg = 1) (ha : Qa * Qaᵀ = 1) (ha' : Qaᵀ * Qa = 1)
    (hne : ∀ i j, dg i * da j + lam ≠ 0)
    (hV : (Qg * diagonal dg * Qgᵀ) * V * (Qa * diagonal da * Qaᵀ) + lam • V = D) :
    V = eigenPrecond Qg Qa dg da lam D := by
  exact KV.AlgBridge.eigen_unique_gen Qg Qa dg da lam D V hg hg' ha ha' hne hV

/-- pre-dividing the eigenvalue products gives the same result -/
theorem eigen_prediv_eq (Qg : Matrix m m K) (Qa : Matrix n n K) (dg : m → K) (da : n → K) (lam : K)
    (D : Matrix m n K) :
    eigenPrecondPre Qg Qa (Matrix.of fun i j => 1 / (dg i * da j + lam)) D = eigenPrecond Qg Qa dg da lam D := by
  exact KV.AlgBridge.eigen_prediv_gen Qg Qa dg da lam D

/-- the denominators never vanish once the eigenvalues are clamped at 0 and the damping is positive
    (so `eigen_solves` applies to what the code computes, and no division by zero can occur) -/
theorem denominators_ne {K : Type*} [Field K] [LinearOrder K] [IsStrictOrderedRing K]
    (x y lam : K) (hl : 0 < lam) : max x 0 * max y 0 + lam ≠ 0 := by
  exact KV.AlgBridge.denominators_ne_gen x y lam hl

/-- **inverse method solves `(G + λI) V (A + λI) = D`** -/
theorem inv_solves (G : Matrix m m K) (A : Matrix n n K) (lam : K) (D : Matrix m n K)
    (hG : IsUnit (G + lam • (1 : Matrix m m K)).det) (hA : IsUnit (A + lam • (1 : Matrix n n K)).det) :
    (G + lam • 1) * invPrecond (G + lam • 1)⁻¹ (A + lam • 1)⁻¹ D * (A + lam • 1) = D := by
  exact KV.AlgBridge.inv_solves_gen _ _ D hG hA

theorem inv_unique (G : Matrix m m K) (A : Matrix n n K) (lam : K) (D V : Matrix m n K)
    (hG : IsUnit (G + lam • (1 : Matrix m m K)).det) (hA : IsUnit (A + lam • (1 : Matrix n n K)).det)
    (hV : (G + lam • 1) * V * (A + lam • 1) = D) :
    V = invPrecond (G + lam • 1)⁻¹ (A + lam • 1)⁻¹ D := by
  exact KV.AlgBridge.inv_unique_gen _ _ D V hG hA hV

/-- a positive semi-definite factor plus positive damping is invertible: the inverse method never
    meets a singular matrix (factors are PSD by C04) -/
theorem psd_damped_invertible {m : Type*} [Fintype m] [DecidableEq m] (G : Matrix m m ℝ) (hG : G.PosSemidef)
    (lam : ℝ) (hl : 0 < lam) : IsUnit (G + lam • (1 : Matrix m m ℝ)).det := by
  exact KV.AlgBridge.psd_damped_invertible_gen G hG lam hl

/-! ### bridge: the executable rational formulas are these matrix expressions -/

theorem bridge_inverse (g a : ℕ) (ainv ginv grad : KV.Alg.Mat) :
    toM g a (KV.Alg.invPrecond g a ainv ginv grad) = invPrecond (toM g g ginv) (toM a a ainv) (toM g a grad) := by
  exact bridge_inverse_gen g a ainv ginv grad

theorem bridge_eigen (g a : ℕ) (qa qg grad : KV.Alg.Mat) (da dg : List ℚ) (lam : ℚ)
    (hda : da.length = a) (hdg : dg.length = g) :
    toM g a (KV.Alg.eigenPrecond g a qa da qg dg lam grad) =
      eigenPrecond (toM g g qg) (toM a a qa) (toV g dg) (toV a da) lam (toM g a grad) := by
  exact bridge_eigen_gen g a qa qg grad da dg lam hda hdg

theorem bridge_eigen_pre (g a : ℕ) (qa qg dgda grad : KV.Alg.Mat) :
    toM g a (KV.Alg.eigenPrecondPre g a qa qg dgda grad) =
      eigenPrecondPre (toM g g qg) (toM a a qa) (toM g a dgda) (toM g a grad) := by
  exact bridge_eigen_pre_gen g a qa qg dgda grad

/-- `clamp(min=0)` is `max · 0` -/
theorem clamp0_spec (d : List ℚ) (i : ℕ) (hi : i < d.length) :
    (KV.Alg.clamp0 d).getD i 0 = max (d.getD i 0) 0 := by
  exact KV.AlgBridge.clamp0_getD d i hi

/-- write-back: splitting the combined matrix into weight rows and bias and recombining is the
    identity, in both directions (so `update_grad` leaves exactly `nu • V` in the original layout) -/
theorem writeback_get_set (w : KV.Alg.Mat) (b : List ℚ) (hb : b.length = w.length) :
    KV.Alg.setGrad true (KV.Alg.getGrad w (some b)) = (w, some b) ∧
    KV.Alg.setGrad false (KV.Alg.getGrad w none) = (w, none) := by
  exact ⟨by
    have h := KV.AlgBridge.zip_dropLast_getLast w b hb
    simp only [KV.Alg.setGrad, KV.Alg.getGrad, if_true, h.1, h.2], by simp [KV.Alg.setGrad, KV.Alg.getGrad]⟩

theorem writeback_set_get (grad : KV.Alg.Mat) (hne : ∀ r ∈ grad, r ≠ []) :
    (let p := KV.Alg.setGrad true grad; KV.Alg.getGrad p.1 p.2) = grad ∧
    (let p := KV.Alg.setGrad false grad; KV.Alg.getGrad p.1 p.2) = grad := by
  exact ⟨by simpa [KV.Alg.setGrad, KV.Alg.getGrad] using KV.AlgBridge.zip_recombine grad hne,
    by simp [KV.Alg.setGrad, KV.Alg.getGrad]⟩

end KV.C01
