/-
Witnesses: (1) negation witnesses for the tree as it was before the `fix:` commits / for the known
findings (legacy definitions kept side by side with the repaired model); (2) non-vacuity examples
showing that the hypotheses of the main theorems are met by concrete, non-trivial states.
Everything here is closed by kernel evaluation (`decide`, `decide +kernel`, `rfl`): no axioms beyond
the standard ones.
-/
import KfacVerif.Props.C06
import KfacVerif.Props.C12
import KfacVerif.Props.C20
import KfacVerif.Props.C03
import KfacVerif.Props.C14
import KfacVerif.Props.C18

namespace KV.Witness
open KV

/-! ### D1 (C06): IEEE doubles — `98 * (2 / 98) ≠ 2`, so the legacy exact-equality test rejected 2/98 -/
theorem d1_float_product_not_integral :
    (Float.ofNat 98 * (Float.ofNat 2 / Float.ofNat 98) == Float.ofNat 2) = false := by decide +kernel

theorem d1_other_fractions :
    (Float.ofNat 147 * (Float.ofNat 3 / Float.ofNat 147) == Float.ofNat 3) = false ∧
    (Float.ofNat 196 * (Float.ofNat 4 / Float.ofNat 196) == Float.ofNat 4) = false := by decide +kernel

/-- the integer side of the repaired validation accepts it -/
example : Kaisa.validate 98 2 98 0 = .ok 2 := by decide

/-! ### D5 (C12): before fix d975dbf ranks of different stages called `new_group` differently -/
theorem d5_legacy_new_group_order_differs :
    let c : Neox.Cfg := { t := { pp := 2, dp := 2, mp := 2 }, work := [] }
    c.newGroupCallsLegacy 0 ≠ c.newGroupCallsLegacy 4 ∧ c.newGroupCalls 0 = c.newGroupCalls 4 := by decide

/-! ### F3 (C20): a window of 0 is not "the last 0 samples" -/
theorem f3_window_zero_is_everything : Trace.window (some 0) [1, 2, 3] = [1, 2, 3] := by decide
theorem f3_negative_window_drops_prefix : Trace.window (some (-2)) [1, 2, 3] = [3] := by decide
theorem f3_negative_window_zero_division : Trace.stat true (some (-5)) [1, 2, 3] = .zeroDiv := by decide

/-! ### D4 (C08): keying buckets by `range(size)` identifies distinct groups of equal size -/
def legacyKey (g : List Nat) : List Nat := List.range g.length
theorem d4_legacy_key_collision : legacyKey [0, 1] = legacyKey [0, 2] ∧ ([0, 1] : List Nat) ≠ [0, 2] := by decide

/-! ### non-vacuity -/

/-- a concrete HYBRID configuration (world 4, k 2, CPython order reversed and shuffled) satisfies
    the hypotheses of the C06 theorems -/
def kaisa42 : Kaisa.Cfg :=
  { w := 4, k := 2, colocate := false, gOrder := [[3, 1], [0, 2]],
    work := [("fc1", [("A", 27), ("G", 8)]), ("fc2", [("A", 8), ("G", 1)])] }

example : kaisa42.invWorker "fc1" "A" = some 3 ∧ kaisa42.invWorker "fc1" "G" = some 1 ∧
    kaisa42.workerGroup "fc1" = [1, 3] ∧ kaisa42.srcGradWorker 0 "fc1" = some 1 := by decide

/-- a well-formed script (two ranks, an all-reduce awaited by both, a broadcast) passes `wf` -/
example : Sched2.wf 2
    [.issue [0, 1] ⟨.allreduce, 9, 4, 0⟩, .wait 0 0, .issue [0, 1] ⟨.broadcast, 9, 4, 0⟩, .wait 1 0, .wait 1 1] = true := by
  decide

/-- … and one with a wait before the rank's own issue, or a stall, does not -/
example : Sched2.wf 2 [.wait 0 0, .issue [0, 1] ⟨.allreduce, 9, 4, 0⟩] = false := by decide
example : Sched2.wf 2 [.issue [0, 1] ⟨.allreduce, 9, 4, 0⟩, .stall 1 0] = false := by decide

/-- `WholeIter` is inhabited by the history `[train, train, step, memory_usage]` for accum = 2 -/
example (c : Precond.Cfg) (h : c.accum = 2) :
    C03.WholeIter c [.fwdBwd true, .fwdBwd true, .step, .memUsage] := by
  have := C03.WholeIter.iter (c := c) [.memUsage] (C03.WholeIter.other .memUsage [] rfl rfl C03.WholeIter.nil)
  simpa [h, List.replicate] using this

/-- triangular packing round trip on a concrete symmetric matrix -/
example : Comm.fillTriu 3 (Comm.getTriu [[1, 2, 3], [2, 4, 5], [3, 5, 6]]) = [[1, 2, 3], [2, 4, 5], [3, 5, 6]] := by decide

/-- C18 value level: two ranks of one stage hold the layers `a`, `b` with DIFFERENT values; rank 1 is the
    inverse worker of `a`, rank 0 of `b`; the placement satisfies `PlaceOK`, the state holds the inverse workers'
    values, and a load on the factor workers (here: everybody) overwrites the other rank's stale value -/
example : C18.PlaceOK 2 (fun _ => ["a", "b"]) (fun n => if n = "a" then 1 else 0) :=
  ⟨fun r n hr hn => by
    simp only [List.mem_cons, List.mem_nil_iff, or_false] at hn
    rcases hn with rfl | rfl <;> simp⟩
example :
    NeoxL.mergedVal 2 (fun _ => ["a", "b"]) (fun n => if n = "a" then 1 else 0) (fun r n => (n, r)) "a" = some ("a", 1) ∧
    NeoxL.mergedVal 2 (fun _ => ["a", "b"]) (fun n => if n = "a" then 1 else 0) (fun r n => (n, r)) "b" = some ("b", 0) ∧
    NeoxL.loadVal (fun _ => ["a", "b"]) (fun r _ => r)
      (NeoxL.mergedVal 2 (fun _ => ["a", "b"]) (fun n => if n = "a" then 1 else 0) (fun r n => (n, r)))
      (fun _ n => (n, 99)) 0 "a" = ("a", 1) := by decide

/-- F2 at the value level (C18, model-parallel degree 2): ranks 0 and 1 are model-parallel peers holding the replicated
    layer `a`; rank 0 is its factor worker on both. After a load rank 0 holds the saved value, rank 1 keeps its fresh one —
    the two copies of a replicated factor differ, which is what makes the resumed run deviate (finding F2) -/
example :
    NeoxL.loadVal (fun _ => ["a"]) (fun _ _ => 0)
      (NeoxL.mergedVal 2 (fun _ => ["a"]) (fun _ => 0) (fun r n => (n, r))) (fun r n => (n, 100 + r)) 0 "a" = ("a", 0) ∧
    NeoxL.loadVal (fun _ => ["a"]) (fun _ _ => 0)
      (NeoxL.mergedVal 2 (fun _ => ["a"]) (fun _ => 0) (fun r n => (n, r))) (fun r n => (n, 100 + r)) 1 "a" = ("a", 101) := by
  decide

end KV.Witness
