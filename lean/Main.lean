import KfacVerif.Driver.All

/-- line protocol: one op per line in, one result line out -/
partial def loop (h : IO.FS.Stream) (out : IO.FS.Stream) : IO Unit := do
  let line ← h.getLine
  if line.isEmpty then return ()
  let l := line.trimAscii.toString
  if l.isEmpty then loop h out else
  out.putStrLn (KV.Driver.dispatch l)
  loop h out

def main : IO Unit := do
  let out ← IO.getStdout
  loop (← IO.getStdin) out
  out.flush
